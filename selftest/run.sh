#!/bin/bash
# selftest/run.sh [filter]: every patch under selftest/mutants must be DETECTED by the check of the
# property in its file name (revert-<hash>: the property of the `fixed:` line with that hash); every
# patch under selftest/equivalent (behaviour-preserving refactors, incl. the 216 of rounds e and f; the self-test runs the
# check of the property in the file name, tools/runall.py runs all 36) must NOT raise a violation; every
# stored seed under seeded/<id>-*/patch.diff must be DETECTED by the check of <id> when that check exists.
# Runs up to 8 scratch copies in parallel (each under /tmp, removed when done).
cd "$(dirname "$0")/.."
filter="${1:-}"
jobs=()
for p in selftest/mutants/*.patch; do
  n=$(basename "$p" .patch)
  case "$n" in
    revert-*) pid=$(grep "^fixed:" known_findings.txt | grep " ${n#revert-} " | sed 's/.*property=\(C[0-9]*\).*/\1/');;
    *) pid=${n%%-*};;
  esac
  jobs+=("must-detect $p $pid")
done
for p in selftest/equivalent/*.patch; do
  n=$(basename "$p" .patch); jobs+=("must-pass $p ${n%%-*}")
done
for d in seeded/*/; do
  n=$(basename "$d"); pid=${n%%-*}
  [ -f "rules/$pid.py" ] && jobs+=("must-detect ${d}patch.diff $pid")
done
run_one() {
  mode=$1; p=$2; pid=$3
  out=$(tools/mutant.sh "$p" "$pid" 2>&1 | tail -1)
  case "$mode:$out" in
    must-detect:DETECTED*) echo "ok   $pid $p";;
    must-pass:MISSED*violations=0*) echo "ok   $pid $p (equivalent, silent)";;
    *) echo "FAIL $mode $pid $p :: $out";;
  esac
}
export -f run_one
printf '%s\n' "${jobs[@]}" | grep -- "$filter" | xargs -P 8 -L 1 bash -c 'run_one "$@"' _ | sort | tee /tmp/selftest.$$.log
fails=$(grep -c "^FAIL" /tmp/selftest.$$.log); total=$(wc -l < /tmp/selftest.$$.log); rm -f /tmp/selftest.$$.log
echo "selftest: $total cases, $fails failed"
[ "$fails" = 0 ]
