#!/usr/bin/env python3
"""tools/changed_fns.py <tree>...  - lists, per tree, the functions whose facts differ from the baseline and which are not
already recognised (equal loss-free form or listed hand-verified spelling): the candidates a reviewer has to read."""
import os, sys
HERE = os.path.dirname(os.path.dirname(os.path.abspath(__file__)))
sys.path.insert(0, os.path.join(HERE, "rules"))
os.environ["VERIF_NO_SUBST"] = "1"
from lib.context import Context
from lib import nf, subst
forms, _ = subst._baseline()
for tree in sys.argv[1:]:
    F = Context(tree).F
    out = []
    for path, h in sorted(forms.items()):
        if path not in F.bodies:
            out.append(path + "  [GONE]")
            continue
        if subst.raw_hash(subst.family(F.doc, path)) == h["raw"]:
            continue
        s = nf.full_form(F, path)
        if h.get("form") and not subst.lossy(s) and nf.form_hash(s) == h["form"]:
            continue
        if nf.is_verified_equivalent(F, path):
            continue
        out.append(path)
    new = [p for p in F.bodies if p not in forms and not F.bodies[p].light and "{closure" not in p and (F.bodies[p].file or "").startswith("src/") and p not in open(os.path.join(HERE, "spec", "baseline_fns.txt")).read()]
    print("%s: %s%s" % (os.path.basename(tree), " ; ".join(out) or "-", ("  NEW: " + ", ".join(new)) if new else ""))
