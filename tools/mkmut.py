#!/usr/bin/env python3
"""mkmut.py <out.patch> <file relative to /repo> <old text> <new text> [<file> <old> <new>]...
Writes a unified diff (git apply compatible) replacing exactly one occurrence of old by new."""
import difflib, sys
out = sys.argv[1]
args = sys.argv[2:]
res = []
for i in range(0, len(args), 3):
    f, old, new = args[i:i+3]
    a = open("/repo/" + f).read()
    if a.count(old) != 1:
        sys.exit("old text occurs %d times in %s" % (a.count(old), f))
    b = a.replace(old, new)
    res.append("".join(difflib.unified_diff(a.splitlines(True), b.splitlines(True), "a/" + f, "b/" + f)))
open(out, "w").write("".join(res))
