#!/usr/bin/env python3
"""mkmut.py <out.patch> <file relative to /repo> <old text> <new text> [<file> <old> <new>]...
Writes a unified diff (git apply compatible); every old text must occur exactly once."""
import difflib, sys
out = sys.argv[1]
args = sys.argv[2:]
files = {}
orig = {}
for i in range(0, len(args), 3):
    f, old, new = args[i:i+3]
    if f not in files:
        orig[f] = files[f] = open("/repo/" + f).read()
    if files[f].count(old) != 1:
        sys.exit("old text occurs %d times in %s" % (files[f].count(old), f))
    files[f] = files[f].replace(old, new)
res = []
for f in files:
    buf = []
    for l in difflib.unified_diff(orig[f].splitlines(True), files[f].splitlines(True), "a/" + f, "b/" + f):
        if not l.endswith("\n"):
            l += "\n\\ No newline at end of file\n"
        buf.append(l)
    res.append("".join(buf))
open(out, "w").write("".join(res))
