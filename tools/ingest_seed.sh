#!/bin/bash
# usage: tools/ingest_seed.sh <name e.g. C04-b>
# Confirms a sub-agent's delivery in a scratch worktree (tools/confirm_seed.sh), stores it under seeded/<name>/,
# runs the property's check against it (tools/mutant.sh), and removes the agent's worktree with its build output.
n=$1; pid=${n%%-*}; out=/tmp/wt/out-$n
cd "$(dirname "$0")/.."
[ -f $out/patch.diff ] && [ -f $out/demo.rs ] || { echo "INGEST $n: delivery incomplete"; exit 2; }
res=$(tools/confirm_seed.sh $n $out | tail -1)
echo "$res"
if echo "$res" | grep -q "demo-without-change=\[test result: ok" && echo "$res" | grep -q "lib-with-change=\[test result: ok. 35 passed" && echo "$res" | grep -Eq "demo-with-change=\[(test result: FAILED|error)"; then
  mkdir -p seeded/$n && cp $out/patch.diff $out/demo.rs seeded/$n/ && cp $out/notes.md seeded/$n/ 2>/dev/null
  echo "$res" > seeded/$n/confirm.txt
  tools/mutant.sh seeded/$n/patch.diff $pid | cut -c1-260
else
  echo "INGEST $n: NOT CONFIRMED (kept nothing)"
fi
git -C /repo worktree remove --force /tmp/wt/$n 2>/dev/null; rm -rf /tmp/wt/$n
