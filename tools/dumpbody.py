#!/usr/bin/env python3
"""dumpbody.py <substring of body name> [--repo PATH]: print the MIR facts of matching bodies (debug aid)."""
import sys, os, json
sys.path.insert(0, os.path.join(os.path.dirname(__file__), "..", "rules"))
from lib import facts, mir
repo = "/repo"
if "--repo" in sys.argv:
    repo = sys.argv[sys.argv.index("--repo") + 1]
F = mir.Facts(facts.load(repo, "debug")) if hasattr(mir, "Facts") else None
pat = sys.argv[1]
for name, b in F.bodies.items():
    if pat in name:
        print("==", name, "line", b.line, "light" if getattr(b, "light", False) else "")
        for i, blk in enumerate(b.blocks):
            print(" bb%d%s" % (i, " (cleanup)" if blk.get("cleanup") else ""))
            for s in blk["stmts"]:
                print("    ", json.dumps(s)[:300])
            print("   T", json.dumps(blk["term"])[:400])
