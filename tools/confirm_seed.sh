#!/bin/bash
# usage: tools/confirm_seed.sh <seed name> <dir with patch.diff and demo.rs>
# Confirms in a scratch worktree of /repo (outside /repo and /verif) that the change compiles, keeps the
# 35 pinned tests green, and that the demonstration passes without it and fails with it.  Removes the worktree.
name=$1; src=$2
wt=/tmp/cs-$name
git -C /repo worktree remove --force $wt 2>/dev/null
git -C /repo worktree add -q --detach $wt HEAD || exit 2
export CARGO_TARGET_DIR=$wt/target CARGO_NET_OFFLINE=true
mkdir -p $wt/tests && cp $src/demo.rs $wt/tests/seed_demo.rs
cd $wt
base=$(cargo test --offline --test seed_demo 2>&1 | grep -E "^test result" | tail -1)
if ! git apply --whitespace=nowarn $src/patch.diff; then echo "SEED $name: PATCH-DOES-NOT-APPLY"; cd /; git -C /repo worktree remove --force $wt; exit 2; fi
lib=$(cargo test --offline --lib 2>&1 | grep -E "^test result" | tail -1)
mut=$(cargo test --offline --test seed_demo 2>&1 | grep -E "^test result|error(\[|:)" | tail -1)
cd /
git -C /repo worktree remove --force $wt
echo "SEED $name: demo-without-change=[$base] lib-with-change=[$lib] demo-with-change=[$mut]"
