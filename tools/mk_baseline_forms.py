#!/usr/bin/env python3
"""tools/mk_baseline_forms.py  - regenerates spec/baseline_forms.json and spec/baseline_bodies/_all.json.gz from /repo HEAD.
For every function of the crate whose full normal form (nf.full_form: return cases + effect skeleton with complete path
conditions, closures inlined) is loss-free (no depth placeholder), records the hash of that form, a hash of the raw MIR
facts of the function and its closures (fast 'unchanged' test) and the raw facts themselves.  lib/subst.py uses them:
a function of the tree under analysis whose normal form equals the baseline's is analysed in its baseline shape, so that
spellings the normal form already identifies (renamed locals, introduced/eliminated temporaries, flipped comparisons,
`!=`/`==` with swapped arms, commutative reordering, lossless From/as, extracted helpers) never reach a rule."""
import gzip, json, os, subprocess, sys, tempfile, shutil
HERE = os.path.dirname(os.path.dirname(os.path.abspath(__file__)))
sys.path.insert(0, os.path.join(HERE, "rules"))
os.environ["VERIF_NO_SUBST"] = "1"
from lib.context import Context
from lib import nf, subst
d = tempfile.mkdtemp(prefix="base.")
subprocess.check_call("git -C /repo archive HEAD | tar -x -C %s" % d, shell=True)
F = Context(d).F
forms, bodies = {}, {}
n_lossy = 0
for p, b in sorted(F.bodies.items()):
    if b.light or "{closure" in p or not (b.file or "").startswith("src/") or b.kind not in ("Fn", "AssocFn"):
        continue
    if p.startswith("parse::lex::") and not p.startswith("parse::lex::lex_") and "Token" in p:
        continue                      # logos-generated state machine
    try:
        s = nf.full_form(F, p)
    except Exception as ex:
        continue
    fam = subst.family(F.doc, p)
    bodies[p] = fam                                           # every baseline body is kept (callees removed by a later inlining refactor)
    if subst.lossy(s):
        n_lossy += 1
        forms[p] = {"form": None, "raw": subst.raw_hash(fam)}      # only the 'unchanged' test is available
        continue
    forms[p] = {"form": nf.form_hash(s), "raw": subst.raw_hash(fam)}
    bodies[p] = fam
json.dump({"commit": subprocess.check_output(["git", "-C", "/repo", "rev-parse", "HEAD"], text=True).strip(), "forms": forms}, open(os.path.join(HERE, "spec", "baseline_forms.json"), "w"), indent=0, sort_keys=True)
os.makedirs(subst.BODIES, exist_ok=True)
with gzip.open(os.path.join(subst.BODIES, "_all.json.gz"), "wt") as fh:
    json.dump(bodies, fh)
shutil.rmtree(d, ignore_errors=True)
print("baseline forms: %d functions (loss-free), %d skipped as lossy" % (len(forms), n_lossy))
