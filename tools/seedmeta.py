#!/usr/bin/env python3
"""seedmeta.py [seed-dir-name ...]: (re)writes seeded/<id>/meta.json for the kept seeded changes.
For every seed it runs the check of the seed's property against a scratch copy with the change applied
(tools/mutant.sh) and records the first rule instance that reports it.  Also writes seeded/INDEX.md."""
import json, os, re, subprocess, sys, concurrent.futures
HERE = os.path.dirname(os.path.dirname(os.path.abspath(__file__)))
props = {json.loads(l)["id"]: json.loads(l) for l in open(os.path.join(HERE, "properties.jsonl"))}
names = sys.argv[1:] or sorted(d for d in os.listdir(os.path.join(HERE, "seeded")) if os.path.isdir(os.path.join(HERE, "seeded", d)))


def notes_fields(d):
    p = os.path.join(HERE, "seeded", d, "notes.md")
    txt = open(p).read() if os.path.exists(p) else ""
    lines = [l.strip() for l in txt.splitlines() if l.strip()]
    change = ""
    needs = ""
    for l in lines:
        ll = l.lower().lstrip("-* ")
        if not change and (ll.startswith("change") or ll.startswith("**change")):
            change = re.sub(r"^[-* ]*\**change\**\s*(\([^)]*\))?\s*[:.]?\s*", "", l, flags=re.I)
        if not needs and ("to manifest" in ll[:60] or ll.startswith("what is needed") or ll.startswith("what makes it manifest") or ll.startswith("**what is needed") or ll.startswith("needed to manifest")):
            needs = re.sub(r"^[-* ]*\**[^:]*:\**\s*", "", l)
    if not change and len(lines) > 1:
        change = lines[1].lstrip("-* ")
    return change[:600], needs[:600]


def one(d):
    pid = d.split("-")[0]
    patch = os.path.join(HERE, "seeded", d, "patch.diff")
    r = subprocess.run([os.path.join(HERE, "tools/mutant.sh"), patch, pid], stdout=subprocess.PIPE, stderr=subprocess.STDOUT, text=True)
    last = (r.stdout.strip().splitlines() or [""])[-1]
    m = re.match(r"DETECTED \S+ \S+: (\S+?): rule (\S+) instance (.*)$", last)
    det = {"detected": last.startswith("DETECTED"), "where": m.group(1) if m else None, "rule": m.group(2) if m else None, "instance": m.group(3)[:160] if m else None, "raw": None if m else last[:200]}
    return d, det


with concurrent.futures.ThreadPoolExecutor(max_workers=8) as ex:
    results = dict(ex.map(one, names))
rows = []
for d in names:
    pid = d.split("-")[0]
    mp = os.path.join(HERE, "seeded", d, "meta.json")
    old = json.load(open(mp)) if os.path.exists(mp) else {}
    change, needs = notes_fields(d)
    det = results[d]
    meta = {
        "property": pid,
        "title": props[pid]["title"],
        "change": old.get("change") or change,
        "needs_to_manifest": old.get("needs_to_manifest") or needs,
        "files": sorted(set(re.findall(r"^\+\+\+ b/(\S+)", open(os.path.join(HERE, "seeded", d, "patch.diff")).read(), flags=re.M))),
        "demonstration": "demo.rs (integration test using only the public API): passes on the unchanged tree, fails with the change",
        "confirmed": old.get("confirmed") or "tools/confirm_seed.sh in a scratch worktree of /repo: demo passes without the change; with it `cargo test --offline --lib` = 35 passed and the demo fails",
        "origin": "independent sub-agent given only the property text and a scratch worktree (nothing from /verif)",
        "what_i_ran": "tools/confirm_seed.sh %s seeded/%s ; tools/mutant.sh seeded/%s/patch.diff %s" % (d, d, d, pid),
        "detected": det["detected"],
        "detected_by": ("%s %s @ %s" % (det["rule"], det["instance"], det["where"])) if det["rule"] else (det["raw"] or "not detected"),
        "history": old.get("history") or (old.get("detected_by") if isinstance(old.get("detected_by"), list) else None),
    }
    json.dump(meta, open(mp, "w"), indent=1)
    rows.append((d, pid, meta["change"], meta["needs_to_manifest"], meta["detected_by"], meta["detected"]))
with open(os.path.join(HERE, "seeded", "INDEX.md"), "w") as fh:
    fh.write("# Seeded changes (independent sub-agents) and the rule instance that reports each\n\n")
    fh.write("| seed | change | needs, to manifest | reported by |\n|---|---|---|---|\n")
    for d, pid, ch, nd, by, ok in rows:
        fh.write("| %s | %s | %s | %s%s |\n" % (d, ch.replace("|", "\\|")[:260], nd.replace("|", "\\|")[:220], "" if ok else "**MISSED** ", by.replace("|", "\\|")))
print("seeds: %d, detected: %d" % (len(rows), sum(1 for r in rows if r[5])))
for r in rows:
    if not r[5]:
        print("MISSED", r[0], r[4])
