#!/usr/bin/env python3
"""tools/accept_form.py <refactoring name, e.g. C01-e-r2> <function path> <why it is equivalent>
       tools/accept_form.py --rebuild
Records the full normal form (return cases + effect skeleton, rules/lib/nf.py full_form) that <function path> has in the
tree with selftest/equivalent/<name>.patch applied as a hand-verified equivalent spelling: one line in
selftest/equivalent/accepted.tsv (the source of truth: patch, function, reason) and the derived table
spec/equivalent_forms.json (hash of the form per function), which the rules consult (nf.is_verified_equivalent).
Only to be used after READING the change and confirming that the function computes the same result with the same effects
for every input.  --rebuild recomputes the whole table from accepted.tsv (needed when the normal-form code changes)."""
import json, os, subprocess, sys, tempfile, shutil
HERE = os.path.dirname(os.path.dirname(os.path.abspath(__file__)))
sys.path.insert(0, os.path.join(HERE, "rules"))
from lib.context import Context
from lib import nf
os.environ["VERIF_NO_SUBST"] = "1"
TSV = os.path.join(HERE, "selftest", "equivalent", "accepted.tsv")
TAB = os.path.join(HERE, "spec", "equivalent_forms.json")


def tree_of(name):
    d = "/tmp/rf/" + name
    if os.path.isdir(d):
        return d, False
    d = tempfile.mkdtemp(prefix="eqv.")
    subprocess.check_call([os.path.join(HERE, "tools", "scratch.sh"), os.path.join(HERE, "selftest", "equivalent", name + ".patch"), d], stdout=subprocess.DEVNULL)
    return d, True


_BASE = [None]


def baseline_facts():
    """facts of /repo's HEAD commit (not the working tree): the shapes the rules were written against"""
    if _BASE[0] is None:
        d = tempfile.mkdtemp(prefix="eqvbase.")
        subprocess.check_call("git -C /repo archive HEAD | tar -x -C %s" % d, shell=True)
        _BASE[0] = (Context(d).F, d)
    return _BASE[0][0]


def store_baseline(path):
    from lib import subst
    F0 = baseline_facts()
    fam = subst.family(F0.doc, path)
    if not fam:
        sys.exit("function %s does not exist at /repo HEAD" % path)
    subst.store(path, fam)


def rows():
    if not os.path.exists(TSV):
        return []
    return [l.rstrip("\n").split("\t") for l in open(TSV) if l.strip() and not l.startswith("#")]


def build(rs):
    tab = {}
    bytree = {}
    for name, path, why in rs:
        bytree.setdefault(name, []).append((path, why))
    for name, items in sorted(bytree.items()):
        d, tmp = tree_of(name)
        try:
            F = Context(d).F
            for path, why in items:
                if path not in F.bodies:
                    sys.exit("no such body in %s: %s" % (name, path))
                form = nf.full_form(F, path)
                h = nf.form_hash(form)
                ent = tab.setdefault(path, [])
                if not any(e["hash"] == h for e in ent):
                    ent.append({"hash": h, "from": name, "why": why, "form": form})
                store_baseline(path)
                print("accepted %s %s (%s)" % (path, h, name))
        finally:
            if tmp:
                shutil.rmtree(d, ignore_errors=True)
    json.dump(tab, open(TAB, "w"), indent=1, sort_keys=True)


if sys.argv[1] == "--rebuild":
    build(rows())
    if _BASE[0]:
        shutil.rmtree(_BASE[0][1], ignore_errors=True)
else:
    name, path, why = sys.argv[1], sys.argv[2], " ".join(sys.argv[3:])
    rs = rows()
    if not any(r[0] == name and r[1] == path for r in rs):
        with open(TSV, "a") as fh:
            fh.write("%s\t%s\t%s\n" % (name, path, why))
        rs.append([name, path, why])
    # incremental: only this tree
    tab = json.load(open(TAB)) if os.path.exists(TAB) else {}
    d, tmp = tree_of(name)
    F = Context(d).F
    if path not in F.bodies:
        sys.exit("no such body: " + path)
    form = nf.full_form(F, path)
    h = nf.form_hash(form)
    ent = tab.setdefault(path, [])
    if not any(e["hash"] == h for e in ent):
        ent.append({"hash": h, "from": name, "why": why, "form": form})
    json.dump(tab, open(TAB, "w"), indent=1, sort_keys=True)
    store_baseline(path)
    print("accepted %s %s" % (path, h))
    if _BASE[0]:
        shutil.rmtree(_BASE[0][1], ignore_errors=True)
    if tmp:
        shutil.rmtree(d, ignore_errors=True)
