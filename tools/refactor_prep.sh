#!/bin/bash
# usage: tools/refactor_prep.sh <suffix> <property id>...   (creates /tmp/wt/<id><suffix> worktrees and briefs for
# independent reviewers who produce behaviour-preserving refactorings; the brief holds only the property text)
suf=$1; shift
mkdir -p /tmp/wt
for id in "$@"; do
  n=$id$suf
  git -C /repo worktree add -q --detach /tmp/wt/$n HEAD && mkdir -p /tmp/wt/out-$n
  python3 - "$id" "$n" <<'PY'
import json,sys
pid,n=sys.argv[1],sys.argv[2]
for l in open('/verif/properties.jsonl'):
    p=json.loads(l)
    if p['id']==pid:
        open('/tmp/wt/out-%s/property.txt'%n,'w').write("ID: %s\nTitle: %s\nStatement: %s\nQuantifier: %s\n"%(p['id'],p['title'],p['statement'],p['quantifier']['text']))
tmpl=open('/verif/tools/refactor_prompt.tmpl').read().replace('@ID@',n)
import glob
prev=[]
for f in sorted(glob.glob('/verif/selftest/equivalent/%s-*-notes.md'%pid)):
    prev.append(open(f).read()[:1800])
if prev:
    tmpl=tmpl.replace('For each refactoring k = 1, 2, 3:', 'Earlier maintainers already did the following refactorings for this property; pick DIFFERENT functions where possible, and different kinds of rewrite:\n<<<\n'+'\n---\n'.join(prev)+'\n>>>\n\nFor each refactoring k = 1, 2, 3:',1)
open('/tmp/wt/out-%s/prompt.txt'%n,'w').write(tmpl)
PY
done
