#!/usr/bin/env python3
"""Scan the installed rust-src (core, alloc, std) for functions whose rustdoc has a
`# Panics` section.  Output: spec/panicky_std.json = {fn name: [files...]}.  The match is by
function NAME only (a deliberate over-approximation); rules/lib/panics.py combines it with a
curated table of (type, name) entries that are known panic-free or known panicking."""
import json, os, re, subprocess, sys

def main(out):
    sysroot = subprocess.check_output(["rustc", "+nightly", "--print", "sysroot"], text=True).strip()
    lib = os.path.join(sysroot, "lib/rustlib/src/rust/library")
    fn_re = re.compile(r'^\s*(?:pub(?:\([^)]*\))?\s+)?(?:default\s+)?(?:const\s+)?(?:async\s+)?(?:unsafe\s+)?(?:extern\s+"[^"]*"\s+)?fn\s+([A-Za-z_][A-Za-z0-9_]*)')
    res = {}
    nfn = 0
    for crate in ("core", "alloc", "std"):
        for root, dirs, files in os.walk(os.path.join(lib, crate, "src")):
            dirs.sort()
            for f in sorted(files):
                if not f.endswith(".rs"):
                    continue
                p = os.path.join(root, f)
                doc = []
                with open(p, errors="replace") as fh:
                    for line in fh:
                        s = line.strip()
                        if s.startswith("///") or s.startswith("//!"):
                            doc.append(s)
                            continue
                        if s.startswith("#[") or s.startswith("#![") or s == "" and False:
                            continue
                        m = fn_re.match(line)
                        if m:
                            nfn += 1
                            if any(re.match(r"///\s*#+\s*Panics", d) for d in doc):
                                res.setdefault(m.group(1), []).append(os.path.relpath(p, lib))
                        doc = []
    json.dump({"generated_from": "rust-src of " + subprocess.check_output(["rustc", "+nightly", "-V"], text=True).strip(),
               "functions_scanned": nfn, "panicky_names": {k: sorted(set(v)) for k, v in sorted(res.items())}},
              open(out, "w"), indent=0)
    print("scanned", nfn, "fns;", len(res), "names with # Panics")

if __name__ == "__main__":
    main(sys.argv[1] if len(sys.argv) > 1 else os.path.join(os.path.dirname(os.path.abspath(__file__)), "..", "spec", "panicky_std.json"))
