#!/bin/bash
# usage: tools/ingest_refactor.sh <name e.g. C04-e>
# For each delivered r<k>.diff: confirm in a scratch worktree that it compiles and keeps the 35 tests green, then run
# EVERY claimed check against a scratch copy with the refactoring applied.  Prints which checks alarm (none should,
# if the refactoring really preserves behaviour).  Candidates are kept in /tmp/wt/out-<name> for review; the
# reviewer's worktree is removed.
n=$1; pid=${n%%-*}; out=/tmp/wt/out-$n
cd "$(dirname "$0")/.."
ids=$(python3 -c "import json;print(' '.join(c['property_id'] for c in json.load(open('MANIFEST.json'))['checks']))")
git -C /repo worktree remove --force /tmp/wt/$n 2>/dev/null; rm -rf /tmp/wt/$n
for k in 1 2 3; do
  [ -s $out/r$k.diff ] || { echo "REFACTOR $n r$k: missing"; continue; }
  wt=/tmp/cr-$n-$k
  git -C /repo worktree add -q --detach $wt HEAD || continue
  if (cd $wt && git apply --whitespace=nowarn $out/r$k.diff); then
    lib=$(cd $wt && CARGO_TARGET_DIR=$wt/target CARGO_NET_OFFLINE=true cargo test --offline --lib 2>&1 | grep -E "^test result" | tail -1)
  else lib="PATCH-DOES-NOT-APPLY"; fi
  git -C /repo worktree remove --force $wt
  case "$lib" in *"ok. 35 passed"*) ;; *) echo "REFACTOR $n r$k: NOT CONFIRMED [$lib]"; continue;; esac
  res=$(tools/mutant.sh $out/r$k.diff $ids 2>&1 | grep -E "^(DETECTED|MUTANT)" | cut -c1-330)
  if [ -z "$res" ]; then echo "REFACTOR $n r$k: silent (all $(echo $ids | wc -w) checks)"; else echo "REFACTOR $n r$k: ALARMS"; echo "$res" | sed 's/^/    /'; fi
done
