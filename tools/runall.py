#!/usr/bin/env python3
"""tools/runall.py <repo dir> [pid...]  - developer aid: runs the rules of all (or the given) properties against one
tree in ONE process (facts loaded once), prints the failing obligations `pid rule instance detail`.  Writes no
evidence; the registered commands are `./check <pid>`."""
import importlib, os, sys, traceback
HERE = os.path.dirname(os.path.dirname(os.path.abspath(__file__)))
sys.path.insert(0, os.path.join(HERE, "rules"))
from lib import report
from lib.context import Context
import pins

repo = sys.argv[1]
pids = sys.argv[2:] or ["C%02d" % i for i in range(1, 37)]
verbose = os.environ.get("V")
ctx = Context(repo, "quick")
bad = 0
for pid in pids:
    mod = importlib.import_module(pid)
    ck = report.Check(pid, "quick", getattr(mod, "LEVEL", "other"), repo)
    try:
        mod.run(ck, ctx)
        pins.check(ck, ctx.F, pid)
    except Exception as ex:
        ck.fail("framework", "analysis-error:" + type(ex).__name__, "%s\n%s" % (ex, traceback.format_exc()[-1200:]))
    known = report.load_known(pid)
    for (r, k, ok, d, w) in ck.obls:
        if not ok and (r + "|" + k) not in known:
            bad += 1
            print("%s %s %s :: %s %s" % (pid, r, k, w, (d if verbose else d[:300]).replace("\n", " ")))
print("runall %s: %d failing obligation(s) over %d checks" % (repo, bad, len(pids)))
