#!/bin/bash
# runs every claimed quick check on /repo's working tree, 8 at a time; prints only failures
cd "$(dirname "$0")/.."
ids=$(python3 -c "import json;print(' '.join(c['property_id'] for c in json.load(open('MANIFEST.json'))['checks']))" 2>/dev/null || seq -f "C%02g" 1 36)
./check C01 >/dev/null 2>&1   # warm the fact cache once
printf "%s\n" $ids | xargs -P 8 -I{} sh -c './check {} > /tmp/allchk-{}.log 2>&1 || { echo "FAIL {}"; grep -B1 -A3 "rule C" /tmp/allchk-{}.log | head -30; }'
grep -l "KNOWN-FINDING" /tmp/allchk-C*.log | xargs -r -n1 basename
rm -f /tmp/allchk-C*.log
echo all-run
