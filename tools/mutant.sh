#!/bin/bash
# usage: tools/mutant.sh <patch file> <property id>...
# Applies the patch to a scratch copy of /repo (outside /repo and /verif), runs the checks
# against the copy, prints their verdicts and removes the copy.  Evidence goes to a scratch dir.
set -u
patch=$(readlink -f "$1"); shift
here=$(cd "$(dirname "$0")/.." && pwd)
tmp=$(mktemp -d /tmp/mutant.XXXXXX)
trap 'rm -rf "$tmp"' EXIT
mkdir -p "$tmp/repo" "$tmp/out"
(cd /repo && git ls-files -z | xargs -0 cp --parents -t "$tmp/repo")
# include uncommitted working tree state of tracked files (already copied) ; apply the mutant
if ! (cd "$tmp/repo" && git init -q . 2>/dev/null && git apply --whitespace=nowarn "$patch"); then
  echo "MUTANT-APPLY-FAILED $patch"; exit 2
fi
rc=0
for pid in "$@"; do
  out=$(cd "$here" && VERIF_OUT="$tmp/out" ./check "$pid" --repo "$tmp/repo" 2>&1)
  if echo "$out" | grep -q "analysis-error_FactError"; then
    echo "MUTANT-DOES-NOT-COMPILE $pid $(basename "$patch")"; rc=3
  elif echo "$out" | grep -q "^VIOLATION property=$pid"; then
    echo "DETECTED $pid $(basename "$patch"): $(echo "$out" | grep -m1 -B2 '^VIOLATION' | head -1 | cut -c1-200)"
  else
    echo "MISSED $pid $(basename "$patch"): $(echo "$out" | tail -1)"; rc=1
  fi
done
exit $rc
