//! mirfacts: a rustc_private driver that dumps type-checked MIR facts of the crate being
//! compiled as one JSON document.  It is injected with RUSTC_WORKSPACE_WRAPPER, so argv[1]
//! is the path of the real rustc and is dropped.  All rule logic lives in Python
//! (/verif/rules); this program only serialises what rustc knows.
#![feature(rustc_private)]

extern crate rustc_abi;
extern crate rustc_driver;
extern crate rustc_hir;
extern crate rustc_interface;
extern crate rustc_middle;
extern crate rustc_span;

use rustc_driver::Compilation;
use rustc_hir::def::DefKind;
use rustc_hir::def_id::{DefId, LocalDefId, LOCAL_CRATE};
use rustc_middle::mir::{
    self, AggregateKind, BasicBlockData, Body, Const, Operand, Place, PlaceElem, Rvalue,
    StatementKind, TerminatorKind, UnwindAction,
};
use rustc_middle::ty::{self, Instance, Ty, TyCtxt, TypingEnv};
use rustc_middle::mir::interpret::{GlobalAlloc, Scalar};
use rustc_middle::mir::ConstValue;
use rustc_span::Span;
use std::fmt::Write as _;

mod json;
use json::J;

struct Cb {
    out: Option<String>,
}

impl rustc_driver::Callbacks for Cb {
    fn after_analysis<'tcx>(
        &mut self,
        _compiler: &rustc_interface::interface::Compiler,
        tcx: TyCtxt<'tcx>,
    ) -> Compilation {
        if let Some(out) = &self.out {
            let name = tcx.crate_name(LOCAL_CRATE).to_string();
            let want = std::env::var("MIRFACTS_CRATE").unwrap_or_else(|_| "lc3_ensemble".into());
            if name == want {
                let doc = dump_crate(tcx);
                let mut s = String::with_capacity(32 << 20);
                doc.write(&mut s);
                std::fs::write(out, s).expect("mirfacts: cannot write fact file");
            }
        }
        Compilation::Continue
    }
}

fn main() {
    let mut args: Vec<String> = std::env::args().collect();
    // RUSTC_WORKSPACE_WRAPPER: argv[1] is the rustc executable.
    if args.len() > 1 && (args[1].ends_with("rustc") || args[1].contains("/rustc")) {
        args.remove(1);
    }
    let out = std::env::var("MIRFACTS_OUT").ok();
    let mut cb = Cb { out };
    rustc_driver::run_compiler(&args, &mut cb);
}

// ---------------------------------------------------------------------------------------

/// 0 = not from a macro, 1 = local `macro_rules!` of the analysed crate, 2 = external bang
/// macro (`panic!`, `matches!`, `vec!` ...), 3 = derive/attribute proc macro somewhere in the
/// expansion chain (`#[derive(Logos)]`, `#[derive(Debug)]` ...).
fn exp_class(sp: Span) -> u8 {
    let mut cls = 0u8;
    let mut cur = sp;
    let mut guard = 0;
    while cur.from_expansion() && guard < 32 {
        let ed = cur.ctxt().outer_expn_data();
        let c = match ed.kind {
            rustc_span::ExpnKind::Macro(rustc_span::MacroKind::Derive, _)
            | rustc_span::ExpnKind::Macro(rustc_span::MacroKind::Attr, _) => 3,
            rustc_span::ExpnKind::Macro(rustc_span::MacroKind::Bang, _) => match ed.macro_def_id {
                Some(d) if d.is_local() => 1,
                _ => 2,
            },
            rustc_span::ExpnKind::Desugaring(_) => 0,
            _ => 2,
        };
        if c > cls {
            cls = c;
        }
        cur = ed.call_site;
        guard += 1;
    }
    cls
}

fn span_info(tcx: TyCtxt<'_>, sp: Span) -> (String, u32, u8) {
    let exp = exp_class(sp);
    let sm = tcx.sess.source_map();
    // the call-site span for macro-generated code, so that file:line is the user's line
    let sp2 = sp.source_callsite();
    let loc = sm.lookup_char_pos(sp2.lo());
    let file = match &loc.file.name {
        rustc_span::FileName::Real(r) => match r.local_path() {
            Some(p) => p.display().to_string(),
            None => format!("{:?}", r),
        },
        other => format!("{:?}", other),
    };
    (file, loc.line as u32, exp)
}

fn line_of(tcx: TyCtxt<'_>, sp: Span) -> J {
    let (_, l, _) = span_info(tcx, sp);
    J::Int(l as i128)
}

fn def_path(tcx: TyCtxt<'_>, did: DefId) -> String {
    tcx.def_path_str(did)
}

struct Cx<'tcx, 'b> {
    tcx: TyCtxt<'tcx>,
    body: &'b Body<'tcx>,
    env: TypingEnv<'tcx>,
    owner: DefId,
}

impl<'tcx, 'b> Cx<'tcx, 'b> {
    fn ty_s(&self, t: Ty<'tcx>) -> String {
        format!("{}", t)
    }

    fn place(&self, p: &Place<'tcx>) -> J {
        let mut proj = Vec::new();
        let mut pty = mir::PlaceTy::from_ty(self.body.local_decls[p.local].ty);
        for elem in p.projection.iter() {
            let j = match elem {
                PlaceElem::Deref => J::s("deref"),
                PlaceElem::Field(f, fty) => {
                    let mut o = vec![("f", J::Int(f.index() as i128))];
                    if let ty::Adt(adt, _) = pty.ty.kind() {
                        let vidx = pty.variant_index.unwrap_or(rustc_abi::FIRST_VARIANT);
                        if adt.is_enum() || adt.is_struct() || adt.is_union() {
                            if let Some(v) = adt.variants().get(vidx) {
                                if let Some(fd) = v.fields.get(f) {
                                    o.push(("name", J::s(fd.name.as_str())));
                                }
                            }
                            o.push(("adt", J::s(&def_path(self.tcx, adt.did()))));
                        }
                    }
                    o.push(("ty", J::s(&self.ty_s(fty))));
                    J::obj(o)
                }
                PlaceElem::Index(l) => J::obj(vec![("idx", J::Int(l.index() as i128))]),
                PlaceElem::ConstantIndex { offset, min_length, from_end } => J::obj(vec![
                    ("cidx", J::Int(offset as i128)),
                    ("min_len", J::Int(min_length as i128)),
                    ("from_end", J::Bool(from_end)),
                ]),
                PlaceElem::Subslice { from, to, from_end } => J::obj(vec![
                    ("sub_from", J::Int(from as i128)),
                    ("sub_to", J::Int(to as i128)),
                    ("from_end", J::Bool(from_end)),
                ]),
                PlaceElem::Downcast(name, vidx) => J::obj(vec![
                    (
                        "downcast",
                        match name {
                            Some(n) => J::s(n.as_str()),
                            None => J::Null,
                        },
                    ),
                    ("vidx", J::Int(vidx.index() as i128)),
                ]),
                PlaceElem::OpaqueCast(_) => J::s("opaque"),
                PlaceElem::UnwrapUnsafeBinder(_) => J::s("unwrap_binder"),
            };
            proj.push(j);
            pty = pty.projection_ty(self.tcx, elem);
        }
        J::obj(vec![("l", J::Int(p.local.index() as i128)), ("proj", J::Arr(proj))])
    }

    fn konst(&self, c: &mir::ConstOperand<'tcx>) -> J {
        let ty = c.const_.ty();
        let mut o = vec![("k", J::s("const")), ("ty", J::s(&self.ty_s(ty)))];
        match ty.kind() {
            ty::FnDef(did, args) => {
                o.push(("fn", J::s(&def_path(self.tcx, *did))));
                o.push(("fn_local", J::Bool(did.is_local())));
                o.push(("fn_args", J::s(&format!("{:?}", args))));
                if let Some(r) = self.resolve(*did, args) {
                    o.push(("resolved", r));
                }
            }
            ty::Closure(did, _) => {
                o.push(("closure", J::s(&def_path(self.tcx, *did))));
            }
            _ => {}
        }
        // promoted?
        if let Const::Unevaluated(uv, _) = c.const_ {
            if let Some(p) = uv.promoted {
                o.push(("promoted", J::Int(p.index() as i128)));
                o.push(("promoted_of", J::s(&def_path(self.tcx, uv.def))));
            } else {
                o.push(("uneval", J::s(&def_path(self.tcx, uv.def))));
            }
        }
        let is_scalar = ty.is_integral() || ty.is_bool() || ty.is_char();
        if is_scalar {
            if let Some(si) = c.const_.try_eval_scalar_int(self.tcx, self.env) {
                let size = si.size();
                let v: i128 = if ty.is_signed() {
                    si.to_int(size)
                } else {
                    si.to_uint(size) as i128
                };
                o.push(("val", J::Int(v)));
            } else {
                // e.g. a const generic parameter `N` inside a generic body
                o.push(("txt", J::s(&format!("{}", c.const_))));
            }
        } else if let ty::Ref(_, inner, _) = ty.kind() {
            if inner.is_str() {
                // literals are `Const::Val`; string patterns of a `match` are type-level constants (valtrees)
                let cv = match c.const_ {
                    Const::Val(cv, _) => Some(cv),
                    other => other.eval(self.tcx, self.env, rustc_span::DUMMY_SP).ok(),
                };
                if let Some(cv) = cv {
                    if let Some(bytes) = cv.try_get_slice_bytes_for_diagnostics(self.tcx) {
                        o.push(("str", J::s(&String::from_utf8_lossy(bytes))));
                    }
                }
            } else if let ty::Array(elem, len) = inner.kind() {
                // `&[u8; N]` (byte-string literals, format_args! templates): the raw bytes
                if *elem == self.tcx.types.u8 {
                    if let (Const::Val(ConstValue::Scalar(Scalar::Ptr(ptr, _)), _), Some(n)) = (c.const_, len.try_to_target_usize(self.tcx)) {
                        let (prov, off) = ptr.prov_and_relative_offset();
                        if let GlobalAlloc::Memory(alloc) = self.tcx.global_alloc(prov.alloc_id()) {
                            let a = alloc.inner();
                            let start = off.bytes() as usize;
                            let end = start + n as usize;
                            if end <= a.len() {
                                let bytes = a.inspect_with_uninit_and_ptr_outside_interpreter(start..end);
                                o.push(("bytes", J::s(&hex(bytes))));
                            }
                        }
                    }
                }
            }
        }
        if !is_scalar && !matches!(ty.kind(), ty::FnDef(..)) {
            // textual form as a last resort (small)
            let mut t = format!("{}", c.const_);
            if t.len() > 200 {
                t.truncate(200);
            }
            o.push(("txt", J::s(&t)));
        }
        J::obj(o)
    }

    fn resolve(&self, did: DefId, args: ty::GenericArgsRef<'tcx>) -> Option<J> {
        let r = Instance::try_resolve(self.tcx, self.env, did, args);
        match r {
            Ok(Some(inst)) => {
                let rd = inst.def_id();
                let kind = match inst.def {
                    ty::InstanceKind::Item(_) => "item",
                    ty::InstanceKind::Virtual(..) => "virtual",
                    ty::InstanceKind::Intrinsic(_) => "intrinsic",
                    ty::InstanceKind::ClosureOnceShim { .. } => "closure_once_shim",
                    ty::InstanceKind::FnPtrShim(..) => "fnptr_shim",
                    ty::InstanceKind::DropGlue(..) => "drop_glue",
                    ty::InstanceKind::CloneShim(..) => "clone_shim",
                    ty::InstanceKind::ReifyShim(..) => "reify_shim",
                    _ => "other",
                };
                Some(J::obj(vec![
                    ("path", J::s(&def_path(self.tcx, rd))),
                    ("local", J::Bool(rd.is_local())),
                    ("kind", J::s(kind)),
                    ("args", J::s(&format!("{:?}", inst.args))),
                ]))
            }
            _ => None,
        }
    }

    fn operand(&self, op: &Operand<'tcx>) -> J {
        match op {
            Operand::Copy(p) => J::obj(vec![("k", J::s("copy")), ("p", self.place(p))]),
            Operand::Move(p) => J::obj(vec![("k", J::s("move")), ("p", self.place(p))]),
            Operand::Constant(c) => self.konst(c),
            #[allow(unreachable_patterns)]
            _ => J::obj(vec![("k", J::s("other")), ("dbg", J::s(&format!("{:?}", op)))]),
        }
    }

    fn rvalue(&self, rv: &Rvalue<'tcx>) -> J {
        match rv {
            Rvalue::Use(op, ..) => J::obj(vec![("k", J::s("use")), ("op", self.operand(op))]),
            Rvalue::Repeat(op, n) => J::obj(vec![
                ("k", J::s("repeat")),
                ("op", self.operand(op)),
                ("n", J::s(&format!("{}", n))),
            ]),
            Rvalue::Ref(_, bk, p) => J::obj(vec![
                ("k", J::s("ref")),
                ("mut", J::Bool(matches!(bk, mir::BorrowKind::Mut { .. }))),
                ("p", self.place(p)),
            ]),
            Rvalue::RawPtr(k, p) => J::obj(vec![
                ("k", J::s("rawptr")),
                ("mut", J::Bool(format!("{:?}", k).contains("Mut"))),
                ("p", self.place(p)),
            ]),
            Rvalue::Cast(ck, op, ty) => J::obj(vec![
                ("k", J::s("cast")),
                ("ck", J::s(&format!("{:?}", ck))),
                ("op", self.operand(op)),
                ("ty", J::s(&self.ty_s(*ty))),
                ("from_ty", J::s(&self.ty_s(op.ty(self.body, self.tcx)))),
            ]),
            Rvalue::BinaryOp(bop, ops) => J::obj(vec![
                ("k", J::s("bin")),
                ("op", J::s(&format!("{:?}", bop))),
                ("l", self.operand(&ops.0)),
                ("r", self.operand(&ops.1)),
                ("lty", J::s(&self.ty_s(ops.0.ty(self.body, self.tcx)))),
            ]),
            Rvalue::UnaryOp(uop, op) => J::obj(vec![
                ("k", J::s("un")),
                ("op", J::s(&format!("{:?}", uop))),
                ("x", self.operand(op)),
                ("xty", J::s(&self.ty_s(op.ty(self.body, self.tcx)))),
            ]),
            Rvalue::Discriminant(p) => J::obj(vec![("k", J::s("discr")), ("p", self.place(p))]),
            Rvalue::Aggregate(kind, fields) => {
                let mut o = vec![("k", J::s("agg"))];
                match &**kind {
                    AggregateKind::Array(t) => {
                        o.push(("agg", J::s("array")));
                        o.push(("elem_ty", J::s(&self.ty_s(*t))));
                    }
                    AggregateKind::Tuple => o.push(("agg", J::s("tuple"))),
                    AggregateKind::Adt(did, vidx, args, _, _) => {
                        o.push(("agg", J::s("adt")));
                        o.push(("adt", J::s(&def_path(self.tcx, *did))));
                        let adt = self.tcx.adt_def(*did);
                        let v = adt.variant(*vidx);
                        o.push(("variant", J::s(v.name.as_str())));
                        o.push(("vidx", J::Int(vidx.index() as i128)));
                        o.push((
                            "field_names",
                            J::Arr(v.fields.iter().map(|f| J::s(f.name.as_str())).collect()),
                        ));
                        o.push(("gargs", J::s(&format!("{:?}", args))));
                    }
                    AggregateKind::Closure(did, _) => {
                        o.push(("agg", J::s("closure")));
                        o.push(("closure", J::s(&def_path(self.tcx, *did))));
                    }
                    other => {
                        o.push(("agg", J::s("other")));
                        o.push(("dbg", J::s(&format!("{:?}", other))));
                    }
                }
                o.push(("fields", J::Arr(fields.iter().map(|f| self.operand(f)).collect())));
                J::obj(o)
            }
            Rvalue::CopyForDeref(p) => {
                J::obj(vec![("k", J::s("use")), ("op", J::obj(vec![("k", J::s("copy")), ("p", self.place(p))]))])
            }
            other => J::obj(vec![("k", J::s("other")), ("dbg", J::s(&format!("{:?}", other)))]),
        }
    }

    fn block(&self, bb: &BasicBlockData<'tcx>, light: bool) -> J {
        let mut stmts = Vec::new();
        if !light {
            for st in &bb.statements {
                match &st.kind {
                    StatementKind::Assign(b) => {
                        let (p, rv) = &**b;
                        stmts.push(J::obj(vec![
                            ("k", J::s("assign")),
                            ("p", self.place(p)),
                            ("rv", self.rvalue(rv)),
                            ("line", line_of(self.tcx, st.source_info.span)),
                            ("exp", J::Int(exp_class(st.source_info.span) as i128)),
                        ]));
                    }
                    StatementKind::SetDiscriminant { place, variant_index } => {
                        stmts.push(J::obj(vec![
                            ("k", J::s("setdiscr")),
                            ("p", self.place(place)),
                            ("vidx", J::Int(variant_index.index() as i128)),
                        ]));
                    }
                    _ => {}
                }
            }
        }
        let term = bb.terminator();
        let sp = term.source_info.span;
        let mut t: Vec<(&str, J)> = vec![
            ("line", line_of(self.tcx, sp)),
            ("exp", J::Int(exp_class(sp) as i128)),
        ];
        let uw = |u: &UnwindAction| -> J {
            match u {
                UnwindAction::Cleanup(b) => J::Int(b.index() as i128),
                _ => J::Null,
            }
        };
        match &term.kind {
            TerminatorKind::Goto { target } => {
                t.push(("k", J::s("goto")));
                t.push(("target", J::Int(target.index() as i128)));
            }
            TerminatorKind::SwitchInt { discr, targets } => {
                t.push(("k", J::s("switch")));
                if !light {
                    t.push(("discr", self.operand(discr)));
                    t.push(("discr_ty", J::s(&self.ty_s(discr.ty(self.body, self.tcx)))));
                }
                let mut vs = Vec::new();
                for (v, b) in targets.iter() {
                    vs.push(J::Arr(vec![J::Int(v as i128), J::Int(b.index() as i128)]));
                }
                t.push(("values", J::Arr(vs)));
                t.push(("otherwise", J::Int(targets.otherwise().index() as i128)));
            }
            TerminatorKind::Return => t.push(("k", J::s("return"))),
            TerminatorKind::Unreachable => t.push(("k", J::s("unreachable"))),
            TerminatorKind::UnwindResume => t.push(("k", J::s("resume"))),
            TerminatorKind::UnwindTerminate(_) => t.push(("k", J::s("terminate"))),
            TerminatorKind::Drop { place, target, unwind, .. } => {
                t.push(("k", J::s("drop")));
                if !light {
                    t.push(("p", self.place(place)));
                    t.push(("pty", J::s(&self.ty_s(place.ty(self.body, self.tcx).ty))));
                }
                t.push(("target", J::Int(target.index() as i128)));
                t.push(("unwind", uw(unwind)));
            }
            TerminatorKind::Call { func, args, destination, target, unwind, fn_span, .. } => {
                t.push(("k", J::s("call")));
                t.push(("func", self.operand(func)));
                if !light {
                    t.push(("args", J::Arr(args.iter().map(|a| self.operand(&a.node)).collect())));
                    t.push(("dest", self.place(destination)));
                    t.push((
                        "arg_tys",
                        J::Arr(
                            args.iter()
                                .map(|a| J::s(&self.ty_s(a.node.ty(self.body, self.tcx))))
                                .collect(),
                        ),
                    ));
                } else {
                    // light bodies still expose function items / closures passed as values
                    let mut m = Vec::new();
                    for a in args.iter() {
                        if let Operand::Constant(c) = &a.node {
                            if matches!(c.const_.ty().kind(), ty::FnDef(..) | ty::Closure(..)) {
                                m.push(self.konst(c));
                            }
                        }
                    }
                    t.push(("args", J::Arr(m)));
                }
                t.push((
                    "target",
                    match target {
                        Some(b) => J::Int(b.index() as i128),
                        None => J::Null,
                    },
                ));
                t.push(("unwind", uw(unwind)));
                t.push(("fn_line", line_of(self.tcx, *fn_span)));
            }
            TerminatorKind::Assert { cond, expected, msg, target, unwind } => {
                t.push(("k", J::s("assert")));
                t.push(("cond", self.operand(cond)));
                t.push(("expected", J::Bool(*expected)));
                let (kind, ops): (String, Vec<J>) = match &**msg {
                    mir::AssertKind::BoundsCheck { len, index } => {
                        ("BoundsCheck".into(), vec![self.operand(len), self.operand(index)])
                    }
                    mir::AssertKind::Overflow(op, a, b) => {
                        (format!("Overflow({:?})", op), vec![self.operand(a), self.operand(b)])
                    }
                    mir::AssertKind::OverflowNeg(a) => ("OverflowNeg".into(), vec![self.operand(a)]),
                    mir::AssertKind::DivisionByZero(a) => ("DivisionByZero".into(), vec![self.operand(a)]),
                    mir::AssertKind::RemainderByZero(a) => ("RemainderByZero".into(), vec![self.operand(a)]),
                    mir::AssertKind::MisalignedPointerDereference { .. } => ("Misaligned".into(), vec![]),
                    mir::AssertKind::NullPointerDereference => ("NullDeref".into(), vec![]),
                    other => (format!("{:?}", other), vec![]),
                };
                t.push(("kind", J::s(&kind)));
                t.push(("ops", J::Arr(ops)));
                t.push(("target", J::Int(target.index() as i128)));
                t.push(("unwind", uw(unwind)));
            }
            TerminatorKind::FalseEdge { real_target, .. } => {
                t.push(("k", J::s("goto")));
                t.push(("target", J::Int(real_target.index() as i128)));
            }
            TerminatorKind::FalseUnwind { real_target, .. } => {
                t.push(("k", J::s("goto")));
                t.push(("target", J::Int(real_target.index() as i128)));
            }
            other => {
                t.push(("k", J::s("other")));
                t.push(("dbg", J::s(&format!("{:?}", other))));
            }
        }
        J::obj(vec![
            ("stmts", J::Arr(stmts)),
            ("term", J::obj(t)),
            ("cleanup", J::Bool(bb.is_cleanup)),
        ])
    }

    fn body_json(&self, light: bool) -> Vec<(&'static str, J)> {
        let body = self.body;
        let mut names: Vec<Option<String>> = vec![None; body.local_decls.len()];
        let mut var_places = Vec::new();
        for vdi in &body.var_debug_info {
            if let mir::VarDebugInfoContents::Place(p) = &vdi.value {
                if p.projection.is_empty() {
                    names[p.local.index()] = Some(vdi.name.to_string());
                } else {
                    var_places.push(J::obj(vec![
                        ("name", J::s(vdi.name.as_str())),
                        ("p", self.place(p)),
                    ]));
                }
            }
        }
        let locals: Vec<J> = body
            .local_decls
            .iter_enumerated()
            .map(|(l, d)| {
                J::obj(vec![
                    ("ty", J::s(&self.ty_s(d.ty))),
                    (
                        "name",
                        match &names[l.index()] {
                            Some(n) => J::s(n),
                            None => J::Null,
                        },
                    ),
                ])
            })
            .collect();
        // light bodies (derive / logos output without user tokens) only contribute call edges
        let blocks: Vec<J> = body
            .basic_blocks
            .iter()
            .filter(|bb| !light || matches!(bb.terminator().kind, TerminatorKind::Call { .. }))
            .map(|bb| self.block(bb, light))
            .collect();
        let mut v = vec![("arg_count", J::Int(body.arg_count as i128)), ("blocks", J::Arr(blocks))];
        if !light {
            v.push(("locals", J::Arr(locals)));
            v.push(("var_places", J::Arr(var_places)));
        }
        v
    }
}

fn dump_body<'tcx>(tcx: TyCtxt<'tcx>, ldid: LocalDefId) -> J {
    let did = ldid.to_def_id();
    let kind = tcx.def_kind(did);
    let body = tcx.optimized_mir(did);
    let env = TypingEnv::post_analysis(tcx, did);
    let sp = tcx.def_span(did);
    let (file, line, exp) = span_info(tcx, sp);
    let mut o: Vec<(&str, J)> = vec![
        ("path", J::s(&def_path(tcx, did))),
        ("kind", J::s(&format!("{:?}", kind))),
        ("file", J::s(&file)),
        ("line", J::Int(line as i128)),
        ("exp", J::Int(exp as i128)),
    ];
    if matches!(kind, DefKind::Fn | DefKind::AssocFn) {
        o.push(("vis", J::s(&format!("{:?}", tcx.visibility(did)))));
        let sig = tcx.fn_sig(did).instantiate_identity().skip_normalization().skip_binder();
        o.push(("inputs", J::Arr(sig.inputs().iter().map(|t| J::s(&format!("{}", t))).collect())));
        o.push(("output", J::s(&format!("{}", sig.output()))));
    }
    if matches!(kind, DefKind::Closure) {
        o.push(("parent", J::s(&def_path(tcx, tcx.typeck_root_def_id(did)))));
    }
    if let Some(impl_did) = tcx.impl_of_assoc(did) {
        o.push(("impl_self", J::s(&format!("{}", tcx.type_of(impl_did).instantiate_identity().skip_normalization()))));
        if let Some(tr) = tcx.impl_opt_trait_ref(impl_did) {
            let tr = tr.instantiate_identity().skip_normalization();
            o.push(("impl_trait", J::s(&def_path(tcx, tr.def_id))));
            o.push(("impl_trait_ref", J::s(&format!("{}", tr))));
        }
        if let Some(ti) = tcx.trait_item_of(did) {
            o.push(("trait_item", J::s(&def_path(tcx, ti))));
        }
    }
    // Macro-generated bodies are dumped in light form unless they contain user-written tokens
    // (e.g. logos pastes the inline `|lx| ...` callbacks of `#[regex(..)]` into generated fns).
    let has_user_code = body.basic_blocks.iter().any(|bb| {
        exp_class(bb.terminator().source_info.span) == 0
            && matches!(bb.terminator().kind, TerminatorKind::Call { .. } | TerminatorKind::Assert { .. })
    });
    let light = exp == 3 && !has_user_code && std::env::var("MIRFACTS_FULL").is_err();
    o.push(("light", J::Bool(light)));
    let cx = Cx { tcx, body, env, owner: did };
    let _ = cx.owner;
    o.extend(cx.body_json(light));
    if !light {
        let promoted = tcx.promoted_mir(did);
        let mut ps = Vec::new();
        for pb in promoted.iter() {
            let pcx = Cx { tcx, body: pb, env, owner: did };
            ps.push(J::obj(pcx.body_json(false)));
        }
        o.push(("promoted", J::Arr(ps)));
    }
    J::obj(o)
}

fn dump_adts<'tcx>(tcx: TyCtxt<'tcx>) -> J {
    let mut out = Vec::new();
    for id in tcx.hir_free_items() {
        let did = id.owner_id.to_def_id();
        let kind = tcx.def_kind(did);
        if !matches!(kind, DefKind::Struct | DefKind::Enum | DefKind::Union) {
            continue;
        }
        let adt = tcx.adt_def(did);
        let mut variants = Vec::new();
        for (vidx, v) in adt.variants().iter_enumerated() {
            let discr = if adt.is_enum() {
                J::Int(adt.discriminant_for_variant(tcx, vidx).val as i128)
            } else {
                J::Null
            };
            let fields: Vec<J> = v
                .fields
                .iter()
                .map(|f| {
                    J::obj(vec![
                        ("name", J::s(f.name.as_str())),
                        ("ty", J::s(&format!("{}", tcx.type_of(f.did).instantiate_identity().skip_normalization()))),
                        ("vis", J::s(&format!("{:?}", f.vis))),
                    ])
                })
                .collect();
            variants.push(J::obj(vec![
                ("name", J::s(v.name.as_str())),
                ("discr", discr),
                ("fields", J::Arr(fields)),
            ]));
        }
        let (file, line, exp) = span_info(tcx, tcx.def_span(did));
        out.push(J::obj(vec![
            ("path", J::s(&def_path(tcx, did))),
            ("kind", J::s(&format!("{:?}", kind))),
            ("vis", J::s(&format!("{:?}", tcx.visibility(did)))),
            ("file", J::s(&file)),
            ("line", J::Int(line as i128)),
            ("exp", J::Int(exp as i128)),
            ("variants", J::Arr(variants)),
        ]));
    }
    J::Arr(out)
}

fn dump_impls<'tcx>(tcx: TyCtxt<'tcx>) -> J {
    let mut out = Vec::new();
    for id in tcx.hir_free_items() {
        let did = id.owner_id.to_def_id();
        if !matches!(tcx.def_kind(did), DefKind::Impl { .. }) {
            continue;
        }
        let self_ty = format!("{}", tcx.type_of(did).instantiate_identity().skip_normalization());
        let tr = tcx.impl_opt_trait_ref(did).map(|t| t.instantiate_identity().skip_normalization());
        let mut items = Vec::new();
        for it in tcx.associated_items(did).in_definition_order() {
            let mut o = vec![
                ("name", J::s(it.name().as_str())),
                ("path", J::s(&def_path(tcx, it.def_id))),
                ("kind", J::s(&format!("{:?}", tcx.def_kind(it.def_id)))),
            ];
            if let Some(ti) = tcx.trait_item_of(it.def_id) {
                o.push(("trait_item", J::s(&def_path(tcx, ti))));
            }
            items.push(J::obj(o));
        }
        out.push(J::obj(vec![
            ("self_ty", J::s(&self_ty)),
            (
                "trait",
                match &tr {
                    Some(t) => J::s(&def_path(tcx, t.def_id)),
                    None => J::Null,
                },
            ),
            (
                "trait_ref",
                match &tr {
                    Some(t) => J::s(&format!("{}", t)),
                    None => J::Null,
                },
            ),
            ("items", J::Arr(items)),
        ]));
    }
    J::Arr(out)
}

fn dump_consts<'tcx>(tcx: TyCtxt<'tcx>) -> J {
    let mut out = Vec::new();
    for ldid in tcx.hir_body_owners() {
        let did = ldid.to_def_id();
        let kind = tcx.def_kind(did);
        if !matches!(kind, DefKind::Const { .. } | DefKind::AssocConst { .. }) {
            continue;
        }
        let ty = tcx.type_of(did).instantiate_identity().skip_normalization();
        let mut o = vec![("path", J::s(&def_path(tcx, did))), ("ty", J::s(&format!("{}", ty)))];
        if ty.is_integral() || ty.is_bool() || ty.is_char() {
            // only non-generic consts can be evaluated here
            if tcx.generics_of(did).count() == 0
                && tcx.opt_parent(did).map_or(true, |p| tcx.generics_of(p).count() == 0 || !matches!(kind, DefKind::AssocConst { .. }))
            {
                if let Ok(cv) = tcx.const_eval_poly(did) {
                    if let Some(si) = cv.try_to_scalar_int() {
                        let size = si.size();
                        let v: i128 = if ty.is_signed() { si.to_int(size) } else { si.to_uint(size) as i128 };
                        o.push(("val", J::Int(v)));
                    }
                }
            }
        }
        else if let ty::Ref(_, inner, _) = ty.kind() {
            // `&'static str` / `&'static [u8]` constants (magic strings, column names): their bytes
            let is_bytes = match inner.kind() { ty::Slice(e) => *e == tcx.types.u8, _ => false };
            if (inner.is_str() || is_bytes) && tcx.generics_of(did).count() == 0 {
                if let Ok(cv) = tcx.const_eval_poly(did) {
                    if let Some(bytes) = cv.try_get_slice_bytes_for_diagnostics(tcx) {
                        if inner.is_str() {
                            o.push(("str", J::s(&String::from_utf8_lossy(bytes))));
                        }
                        o.push(("bytes", J::s(&hex(bytes))));
                    }
                }
            }
        }
        out.push(J::obj(o));
    }
    J::Arr(out)
}

fn hex(b: &[u8]) -> String {
    let mut s = String::with_capacity(b.len() * 2);
    for x in b {
        s.push_str(&format!("{:02x}", x));
    }
    s
}

fn dump_crate<'tcx>(tcx: TyCtxt<'tcx>) -> J {
    let mut bodies = Vec::new();
    let mut n_light = 0usize;
    for ldid in tcx.hir_body_owners() {
        let kind = tcx.def_kind(ldid.to_def_id());
        if !matches!(kind, DefKind::Fn | DefKind::AssocFn | DefKind::Closure) {
            continue;
        }
        let b = dump_body(tcx, ldid);
        if let J::Obj(ref o) = b {
            if o.iter().any(|(k, v)| k == "light" && matches!(v, J::Bool(true))) {
                n_light += 1;
            }
        }
        bodies.push(b);
    }
    let mut hdr = String::new();
    let _ = write!(hdr, "{}", tcx.crate_name(LOCAL_CRATE));
    J::obj(vec![
        ("crate", J::s(&hdr)),
        ("n_bodies", J::Int(bodies.len() as i128)),
        ("n_light", J::Int(n_light as i128)),
        ("overflow_checks", J::Bool(tcx.sess.overflow_checks())),
        ("bodies", J::Arr(bodies)),
        ("adts", dump_adts(tcx)),
        ("impls", dump_impls(tcx)),
        ("consts", dump_consts(tcx)),
    ])
}
