//! Minimal JSON value + writer (the driver has no cargo dependencies).
pub enum J {
    Null,
    Bool(bool),
    Int(i128),
    Str(String),
    Arr(Vec<J>),
    Obj(Vec<(String, J)>),
}

impl J {
    pub fn s(x: &str) -> J {
        J::Str(x.to_string())
    }
    pub fn obj(v: Vec<(&str, J)>) -> J {
        J::Obj(v.into_iter().map(|(k, v)| (k.to_string(), v)).collect())
    }
    pub fn write(&self, out: &mut String) {
        match self {
            J::Null => out.push_str("null"),
            J::Bool(b) => out.push_str(if *b { "true" } else { "false" }),
            J::Int(i) => out.push_str(&i.to_string()),
            J::Str(s) => esc(s, out),
            J::Arr(a) => {
                out.push('[');
                for (i, x) in a.iter().enumerate() {
                    if i > 0 {
                        out.push(',');
                    }
                    x.write(out);
                }
                out.push(']');
            }
            J::Obj(o) => {
                out.push('{');
                for (i, (k, v)) in o.iter().enumerate() {
                    if i > 0 {
                        out.push(',');
                    }
                    esc(k, out);
                    out.push(':');
                    v.write(out);
                }
                out.push('}');
            }
        }
    }
}

fn esc(s: &str, out: &mut String) {
    out.push('"');
    for c in s.chars() {
        match c {
            '"' => out.push_str("\\\""),
            '\\' => out.push_str("\\\\"),
            '\n' => out.push_str("\\n"),
            '\r' => out.push_str("\\r"),
            '\t' => out.push_str("\\t"),
            c if (c as u32) < 0x20 => out.push_str(&format!("\\u{:04x}", c as u32)),
            c => out.push(c),
        }
    }
    out.push('"');
}
