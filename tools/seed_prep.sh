#!/bin/bash
# usage: tools/seed_prep.sh <suffix> <property id>...   (creates /tmp/wt/<id><suffix> worktrees and briefs)
# The brief contains only the property text (and, for later rounds, a one-line description of changes that
# earlier independent reviewers already tried, so that a new reviewer picks a different site) - nothing from /verif's machinery.
suf=$1; shift
mkdir -p /tmp/wt
for id in "$@"; do
  n=$id$suf
  git -C /repo worktree add -q --detach /tmp/wt/$n HEAD && mkdir -p /tmp/wt/out-$n
  python3 - "$id" "$n" <<'PY'
import json,sys,os,glob
pid,n=sys.argv[1],sys.argv[2]
for l in open('/verif/properties.jsonl'):
    p=json.loads(l)
    if p['id']==pid:
        open('/tmp/wt/out-%s/property.txt'%n,'w').write("ID: %s\nTitle: %s\nStatement: %s\nQuantifier: %s\n"%(p['id'],p['title'],p['statement'],p['quantifier']['text']))
prev=[]
for m in sorted(glob.glob('/verif/seeded/%s-*/meta.json'%pid)):
    try: prev.append(json.load(open(m)).get('change','')[:300])
    except Exception: pass
tmpl=open('/verif/tools/seed_prompt.tmpl').read().replace('@ID@',n)
if prev:
    tmpl=tmpl.replace('Also write a demonstration:', 'Earlier reviewers already tried the following change(s) for this property; pick a DIFFERENT function/mechanism and a different kind of slip:\n'+'\n'.join('  - '+x for x in prev)+'\n\nAlso write a demonstration:',1)
open('/tmp/wt/out-%s/prompt.txt'%n,'w').write(tmpl)
PY
done
