#!/usr/bin/env python3
"""coverage.py: which functions of /repo does at least one *semantic* rule instance look at?
Runs every rule module in-process on the current tree and lists the non-generated bodies under src/ that no rule
looked up by name (panic-reachability traversal does not count).  Blind spots are where a behaviour-changing edit
can hide from every check; the list is the to-do list for new rule instances.  Dev aid, not a registered check."""
import importlib, json, os, sys
HERE = os.path.dirname(os.path.dirname(os.path.abspath(__file__)))
sys.path.insert(0, os.path.join(HERE, "rules"))
from lib import report
from lib.context import Context
os.environ["VERIF_OUT"] = "/tmp/coverage-out"
report.OUT = "/tmp/coverage-out"
ctx = Context("/repo", "quick")
F = ctx.F
pids = [json.loads(l)["id"] for l in open(os.path.join(HERE, "properties.jsonl"))]
per = {}
for pid in pids:
    if not os.path.exists(os.path.join(HERE, "rules", pid + ".py")):
        continue
    before = set(F.bodies.touched)
    F.bodies.touched.clear()
    mod = importlib.import_module(pid)
    ck = report.Check(pid, "quick", getattr(mod, "LEVEL", "other"), "/repo")
    try:
        mod.run(ck, ctx)
    except Exception as ex:
        print("!!", pid, ex)
    per[pid] = set(F.bodies.touched)
    F.bodies.touched |= before
allb = {p: b for p, b in dict.items(F.bodies) if not b.light and not b.exp and b.file.startswith("src/") and "::tests::" not in p and "::test::" not in p}
touched = set().union(*per.values())
# a closure counts as covered when its parent is (normal forms inline closures)
def covered(p):
    q = p
    while True:
        if q in touched:
            return True
        if "::{closure#" in q:
            q = q.rsplit("::{closure#", 1)[0]
            continue
        return False
un = sorted(p for p in allb if not covered(p))
byfile = {}
for p in un:
    byfile.setdefault(allb[p].file, []).append((allb[p].line, p, len(allb[p].blocks)))
print("bodies: %d, looked at by some rule: %d, never looked at: %d" % (len(allb), len(allb) - len(un), len(un)))
for f in sorted(byfile):
    print("==", f)
    for line, p, nb in sorted(byfile[f]):
        print("   %5d  %-90s %d blocks" % (line, p[:90], nb))
