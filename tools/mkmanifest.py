#!/usr/bin/env python3
"""Regenerates MANIFEST.json from the claims table below (single source of truth)."""
import json, os
HERE = os.path.dirname(os.path.dirname(os.path.abspath(__file__)))
ids = [json.loads(l)["id"] for l in open(os.path.join(HERE, "properties.jsonl"))]

# pid -> (category, text, level_note, technique, design_ref)
CLAIMS = {
 "C16": ("other",
         "Static panic-reachability with discharge over the type-checked MIR of every function defined under src/sim* and everything it reaches: each Assert terminator and each call to a panicking std entry must be discharged by interval/guard analysis, a re-checked invariant or a reviewed table entry. Decides the no-panic clause for all machine states; it does not execute anything.",
         "Trusted: rustc MIR construction, mirfacts, std/rand beyond the curated panicky-callee list; assumes the OS source assembles, timer ranges are non-empty, host-supplied devices do not panic; allocation failure is out of scope.",
         "MIR panic-site reachability + interval/dominator discharge (custom rustc_private driver)", "5 C16, 3 R3"),
}
NA = {
 "C33": "quantifies over thread schedules between simulated instructions (lock held by another thread between two device accesses); no lock-order/typestate/atomicity rule over the source bounds that - needs schedule enumeration, a different technique family (DESIGN.md section 6)",
}

checks = []
for pid in ids:
    if pid in CLAIMS:
        cat, text, note, tech, ref = CLAIMS[pid]
        checks.append({
            "property_id": pid,
            "quick_cmd": "./check %s --tier quick" % pid,
            "thorough_cmd": "./check %s --tier thorough" % pid,
            "evidence_file": "evidence/%s.json" % pid,
            "replay_cmd_template": "./check %s --replay {path}" % pid,
            "engine": "mirfacts+rules",
            "level_claimed": {"category": cat, "text": text, "design_ref": "DESIGN.md section " + ref},
            "level_note": note,
            "technique": tech,
        })
na = []
for pid in ids:
    if pid not in CLAIMS:
        na.append({"property_id": pid, "reason": NA.get(pid, "check not yet built (DESIGN.md section 9 order of work); not claimed on a weaker proxy meanwhile")})
m = {
 "version": 1,
 "setup_cmd": "./setup.sh",
 "hooks": {"guard": "lc3_ensemble_verif", "enable": "no hooks: every check reads /repo's source (MIR via a rustc_private driver, syntax tree, src/os.asm); nothing is compiled into lc3-ensemble",
           "baseline_off_cmd": "cd /repo && cargo test --workspace --no-fail-fast --offline --lib", "source_commits": [], "add_only": True},
 "engines": [
   {"name": "mirfacts", "path": "tools/mirfacts", "kind_free_text": "rustc_private driver (nightly) dumping type-checked MIR facts as JSON", "serves_properties": sorted(CLAIMS)},
   {"name": "rules", "path": "rules", "kind_free_text": "Python rule engine: call graph, dominators, expression trees, intervals, discharge tables", "serves_properties": sorted(CLAIMS)},
 ],
 "checks": checks,
 "notes": "Static analysis only (DESIGN.md). Genuine defects found by the rules were repaired in /repo as `fix:` commits; see known_findings.txt.",
 "not_applicable": na,
}
json.dump(m, open(os.path.join(HERE, "MANIFEST.json"), "w"), indent=1)
print("claims:", len(checks), "not_applicable:", len(na))
