#!/usr/bin/env python3
"""Regenerates MANIFEST.json from the claims table below (single source of truth)."""
import json, os
HERE = os.path.dirname(os.path.dirname(os.path.abspath(__file__)))
ids = [json.loads(l)["id"] for l in open(os.path.join(HERE, "properties.jsonl"))]

# pid -> (category, text, level_note, technique, design_ref)
CLAIMS = {
 "C27": ("other",
         "push_frame is called only by call_subroutine/call_interrupt with caller = prefetch_pc(), callee = target/vector and the right frame type; pop_frame only in the RTI success path and in JMP under reg_no()==7; the JSR and TRAP arms reach the end of the step only through their helper (no direct link/jump); prefetch=true is stored before the device-interrupt entry and prefetch=false before the instruction match; frame_no is +1/saturating -1 in exactly those two functions with the frame list pushed/popped alongside; the Frame record, the signature table per frame type, R6-4 frame pointer, mem[fp+4+i] / register argument capture and the built-in x20..x25 signatures are checked on MIR.",
         "Depth arithmetic as a consequence of the counter discipline is argued, not computed. Trusted: rustc MIR, mirfacts, rules/lib.",
         "who-may-call ownership, path-cut (must-pass-through) on the CFG, dominance of flag stores, provenance of record fields", "5 C27"),
 "C28": ("other",
         "update_mem_accesses has exactly three call sites (read_mem: READ; write_mem: WRITTEN, MODIFIED) with the address argument; their exact local guard sets are {track_access}, {success, track_access}, {success, track_access, value-changed}; the MODIFIED test compares the stored data with the pre-store value of mem[addr]; the mirror word is stored iff success; observer.clear() runs once before the step(s) of run_while/step_in and nowhere else; omnipotent() does not track; the flags are distinct bits, accessors test their own bit, updates are OR-ed into the entry.",
         "That every program access goes through read_mem/write_mem with a tracked context is C09. Trusted: rustc MIR, mirfacts, rules/lib.",
         "who-may-call + exact local-guard analysis on the CFG", "5 C28"),
 "C29": ("other",
         "Constructor order (memory/registers from the configured filler, I/O page zero-filled, then load_os, no branch in between); frame rule of load_obj_file (stores only `alloca`, lends only `mem`, to copy_obj_block only); the external guard precedes every copy and the copy is conditional only on the block loop; copy_obj_block accesses memory only through the six range slices si..ei/si../..ei with end = start +w chunk.len() and start = end afterwards, writes Word::new_init(v) for Some-chunks and only clear_init() for None-chunks.",
         "'No other word changes' is decided only as the exact set of memory index operations; values of the index arithmetic are not computed. Trusted: rustc MIR, mirfacts, rules/lib.",
         "dominance, field write/borrow sets (frame rule), exact enumeration of index operations", "5 C29"),
 "C30": ("other",
         "Field coverage of Simulator::reset on MIR: every field of Simulator is classified configuration/state (fails closed on a new field); reset overwrites *self with new_with_mcr(self.flags, Arc::clone(&self.mcr)) (same MCR allocation), moves every other configuration field (breakpoints, ireg_mmap, device_handler) out before and back after the overwrite from the same value, assigns no state field afterwards; the only device call is io_reset; the mcr field is private.",
         "Equality of the fresh machine's contents with a new simulator's is C29.1 (constructor order) plus C31 (deterministic fill); values are not compared. Trusted: rustc MIR, mirfacts, rules/lib.",
         "struct-field coverage and store ordering (dominance) on MIR", "5 C30"),
"C31": ("other",
         "Nondeterminism reachability: over the call graph from Simulator::new/reset/step_in/run*/step_over/step_out, the standard devices and TimerDevice::new/poll_interrupt/io_reset, the only reachable nondeterministic std/rand entry points (OS entropy, thread RNG, clocks, thread ids, RandomState) are rand::random in `WordFiller for ()` (dominated by the Unseeded arm) and StdRng::from_os_rng on the None arm of the timer's seed Option. Seed provenance: Seeded{seed} feeds seed_from_u64(seed), Known{value} yields value, memory and registers draw each word from the filler, the timer samples only from its own generator.",
         "Statistical quality and equality of two runs are not computed; the claim is that no entropy besides the seed is reachable on the Seeded/Known configurations. Host callbacks (custom devices, observers) are outside the claim. Trusted: rustc MIR, mirfacts, rules/lib.",
         "call-graph reachability to an enumerated source set + dominating-condition provenance on MIR", "5 C31"),
"C32": ("other",
         "MMIO table shape: port constants agree with the ISA oracle and DEVICE_SLOTS == 512 == xFFFF-xFE00+1; io_ports index is bounded by addr - IO_START on every indexing site; the devices vector never shrinks; set_port stores only into a free slot and rejects reserved (fixed-device/ireg) ports; remove_device refuses the fixed device ids before any mutation; add_device checks ports before pushing, returns Err without mutation, ids are the push index; in read_mem/write_mem the internal-register lookup (ireg_mmap) precedes device dispatch; device results are mirrored to memory only for data reads; mmap_internal guards the address range.",
         "Behaviour of the devices themselves is not decided. Trusted: rustc MIR, mirfacts, rules/lib.",
         "constant/table agreement, interval analysis of indices, dominance (guard-first) on MIR", "5 C32"),
"C34": ("other",
         "TimerDevice::poll_interrupt is the countdown automaton: first test is self.enabled and its disabled edge returns None with no store/call; match on time has exactly arms {0}: reset_remaining + None, {1}: time := 0 + Some(Interrupt::vectored(self.vect, self.priority)), rest: time -= 1 + None; try_generate_time samples random_range over exactly (start, end) with inclusive/exclusive chosen by end_incl; SampleRange::new maps Included/Excluded/Unbounded start to s / checked s+1 / 0 and end to (s,true)/(s,false)/(u32::MAX,true); io_reset and reset_remaining resample; writers of `time` are exactly those three.",
         "The arithmetic consequence (t polls between interrupts) is argued from the arms in DESIGN.md, not computed. Trusted: rustc MIR, mirfacts, rules/lib.",
         "automaton extraction from the SwitchInt on MIR, per-arm effect sets, field-writer ownership", "5 C34"),
"C13": ("other",
         "Loop-structure clauses: (1) one engine - `step` is called only by run_while (once, inside the loop) and step_in (once, no loop), `_step_inner` only by `step`, none of them is taken as a function value; run/run_with_limit/step_over/step_out make exactly one run_while call, store nothing and have no loop. (2) loop order on run_while's CFG - MCR load dominates tripwire dominates step dominates breakpoint scan, each once per iteration; exits MCROff/Tripwire/Halt/Err(e)/Breakpoint are built on exactly their edges with no call in between; single back edge after the scan; MCR stored true before and false after; only pause_condition is stored (after the loop). (3) continue-predicates in name-independent normal form: run = true; run_with_limit = instructions_run (-)wrapping i@entry < max_steps; step_over = first || depth@entry < depth; step_out = guarded by depth@entry != 0, first || depth@entry <= depth; depth is FrameStack.frame_no. (4) Comparator::check rows equal their operators; Breakpoint::check takes &Simulator, reads pc/reg_file/mem by plain indexing only.",
         "The segment-splitting equality (same final state for any split) is argued from these facts in DESIGN.md, not computed; host tripwires are outside the claim. Trusted: rustc MIR, mirfacts, rules/lib.",
         "who-may-call on the resolved call graph, dominance on the loop CFG, normal-form comparison of closure return cases with upvar substitution", "5 C13"),
"C09": ("other",
         "In read_mem and write_mem the AccessViolation return (condition normalised to !ctx.privileged && addr outside [x3000,xFE00), range read from the promoted constant) precedes every call and every store of the function (CFG reachability: nothing effectful can reach the error return); only an enumerated owner set indexes the memory array or calls device io_read/io_write/InternalRegister; every read_mem/write_mem call reachable from step passes default_mem_ctx() or a struct update of it changing only `strict`; default_mem_ctx().privileged is psr.privileged() || ignore_privilege; handle_interrupt takes its context after set_privileged(true); every RTI effect is guarded by exactly the two-way privilege test; writers of Simulator.psr are enumerated and the field is private.",
         "Host code with &mut Simulator can use public fields; the claim is about simulated user-mode code. 'Leaves state unchanged' is claimed as guard-first. Trusted: rustc MIR, mirfacts, rules/lib.",
         "CFG reachability (guard-first), who-may-call ownership, def-use provenance of access contexts", "5 C09"),
 "C10": ("other",
         "Gating, entry and exit of interrupts: one poll at the top of _step_inner dominating the fetch and no other poller; the device-interrupt handle_interrupt(x100+vect, Some(p)) is reached only on the edge p > psr.priority() with an inner p <= priority early return; arbitration is filter_map + max_by_key on priority().unwrap_or(8) with priorities clamped to 0..=7; entry sequence (old PSR/PC before the privilege change, stack swap guarded by exactly `!privileged()` before SP is read, PSR at SP-1 and PC at SP-2, SP -= 2, CC:=Z, priority only for Some(p), frame type, new PC = mem[vect] via read_mem); RTI pops PC from SP and PSR from SP+1 and swaps back iff the restored PSR is user. The transparency consequence (equal final state under every schedule) is not decided.",
         "Handler behaviour is the simulated program's; only the entry/exit pairing is decided. Trusted: rustc MIR, mirfacts, rules/lib.",
         "dominance / local-guard analysis and provenance on MIR; sibling agreement of push and pop offsets", "5 C10"),
 "C14": ("other",
         "Strict-taint: every branch controlled by flags.strict/ctx.strict has a strict-only region that calls only an enumerated pure set, stores only to locals and builds only SimErr::Strict* errors; Word::get_if_init/set_if_init return Err exactly on strict && !is_init (phi-aware) and otherwise act identically; every one of their call sites in the simulator passes a Strict* error constant; clear_init/new_uninit are unreachable from step and Word::set initialises.",
         "Relies on C15 for 'initialised operands give initialised results'. Trusted: rustc MIR, mirfacts, rules/lib.",
         "control-dependence (taint) regions on the CFG + effect purity table + call-site argument provenance", "5 C14"),
 "C15": ("proof",
         "Word::bitand and Word::not: the extracted data/init formulas are evaluated as truth tables over one bit of (ldata, linit, rdata, rinit) - the reported init bit never depends on an uninitialised data bit and implies a determined data bit; initialised inputs give initialised ldata&rdata / !data. Word::add/sub: data is wrapping_add/sub, the mask is ALL_BITS iff both masks are ALL_BITS (phi-aware) else NO_BITS, and the early returns hand back an operand only when the other operand is the initialised constant 0 (sub: right operand only). Assign impls delegate; writers/builders of Word.init enumerated.",
         "Trusted base: rustc MIR, mirfacts, the truth-table evaluator in rules/C15.py. Add/Sub soundness is the coarse argument 'initialised only when both operands are'.",
         "bit-parallel truth tables of extracted formulas; dominator/phi analysis", "5 C15"),
 "C08": ("other",
         "For each of the 15 arms of the instruction match in _step_inner the effect signature extracted from MIR - read_mem/write_mem calls with the symbolic provenance of their addresses (pc+off, reg[BaseR]+off, mem[pc+off]), register writes and their source, set_cc on exactly the value written (and absent for LEA/ST*/BR/JMP/JSR/TRAP), PC-changing calls, ALU operator, BR condition, RTI loading PC/PSR verbatim from SP/SP+1 and SP+=2 - equals a hand-written ISA table. Fetch order (prefetch flag, poll, fetch, decode, PC+1, execute) and the single instruction counter by dominance; the exception/HALT vector rows under real traps and the virtual short-circuit with PC rewind; set_cc mapping; every PSR accessor/mutator executed path by path in the bit-provenance domain on a symbolic PSR. Data values and device content are not decided.",
         "Trusted: rustc MIR, mirfacts, rules/lib (simx classification, bits domain), the hand-written effect table. Interrupt entry/RTI pairing is C10, privilege C09, Word arithmetic C15.",
         "per-arm effect signatures from MIR vs ISA table; dominance; bit-provenance abstract interpretation", "5 C08"),
 "C17": ("other",
         "The binary codec tables are extracted from MIR and compared: for each of the 5 chunk tags the writer's ordered wire fields (integer type, width, byte order) equal the reader's; each variable tail is governed by the immediately preceding length field on both sides and the reader computes K*len in usize for K-byte records; record formats (xFF+u16le / 000000, u16le) agree; each wire field carries the same model field on both sides (SymbolData.addr/src_start/external, map keys and values); every model field is written and the final aggregates are rebuilt from what the arms collect; nl_indices is recomputed. Decides codec agreement, which is necessary for the round trip; equality of the resulting containers is argued from unique keys.",
         "Trusted: rustc MIR, mirfacts, rules/lib/codec.py. Assumes C24 (producers emit strictly increasing line blocks). The empty-symbol-table-without-debug case is listed as the one lossy spot.",
         "sibling agreement of writer/reader codec tables extracted from MIR", "5 C17"),
 "C01": ("other",
         "Structural clauses of 'the image is the exact encoding': encoder rows and opcode table equal the ISA (with join_bits decided bit-exactly), the 25 alias-expansion rows equal the ISA alias table, the pc handed to label resolution is lc+1 of the lc then advanced by 1 and offsets are (addr-pc) as i16 of the same N, word_len agrees row by row with what write_directive appends (.stringz bytes then 0, .blkw n uninitialised words, .fill value or label address), and pass 1 binds labels to the location counter before the statement's own shift and sizes statements with the same word_len. Values held in run-time containers are not decided.",
         "Trusted: rustc MIR, mirfacts, table extraction, spec/lc3_isa.json. Relies on C35 (Offset invariant) and C02 (guards).",
         "table extraction from MIR vs hand-written ISA oracle; def-use provenance; sibling agreement", "5 C01"),
 "C07": ("other",
         "The disassembly table (try_disassemble_line) composed with the alias-expansion table (into_sim_instr) is the identity on every SimInstr variant and operand position (aliases by value: JMP R7<->RET, TRAP x20..x25<->names), offsets are never turned into labels, decode is attempted exactly for words >= x0200 and every other word becomes .fill new_trunc(word). The remaining links of the round trip are C06 (decode/encode), C36 (printer/parser), C03/C05 (tokens).",
         "Composition argument over extracted tables; relies on C01, C06, C36, C03, C05; logos overlap resolution trusted.",
         "sibling agreement of two tables extracted from MIR", "5 C07"),
 "C06": ("proof",
         "Encoder, decoder and opcode tables are extracted from the MIR of SimInstr::encode/decode/opcode and compared as sets of facts with the hand-written ISA table and with each other: same ranges, same constructor positions, types of the same width, and the decoder asserts/selects exactly the encoder's constant bits (decodes iff canonical; reserved opcode -> IllegalOpcode, assert failure -> InvalidInstrFormat). The leaf functions join_bits-closure and slice are decided in a bit-provenance abstract domain for every range occurring in the tables. Every obligation must be discharged.",
         "Trusted base: rustc MIR, mirfacts, the table extractor (rules/lib/tables.py), the bit domain transfer functions, spec/lc3_isa.json. Relies on the Offset invariant (C35) and on BR's cc being 3 bits.",
         "table extraction from MIR + sibling agreement + bit-provenance abstract interpretation", "5 C06"),
 "C35": ("proof",
         "OffsetBacking::truncate is evaluated in the bit-provenance domain for both backings and all N in 1..=16 on a symbolic 16-bit input (32 obligations): zero/sign extension of the low N bits. Offset::new builds Ok(Offset(n)) exactly on the edge n == truncate(n, N) and the backing's error otherwise; new_trunc stores truncate(n, N); Offset is only built by these two functions and its field is private.",
         "Trusted base: rustc MIR, mirfacts, rules/lib/bits.py. `==` on the backing integers is the primitive equality.",
         "bit-provenance abstract interpretation of MIR expression trees + dominator checks", "5 C35"),
 "C04": ("other",
         "Panic reachability with discharge over every function of src/parse.rs and src/parse/lex.rs (incl. the inline lexer callbacks logos pastes into generated code) plus provenance of the span argument of every ParseErr construction (passed on from a token span / cursor, never computed). Decides the no-panic clause for all input strings and a structural necessary condition of 'span lies within the input'.",
         "Trusted: logos-generated state machine and its token spans, std; token-language facts are read from the #[regex] attributes. Spans are shown to be passed-on token spans, not re-validated numerically.",
         "MIR panic-site reachability + discharge; def-use provenance of span arguments", "5 C04"),
 "C19": ("other",
         "Panic reachability with discharge from both deserializers, both serializers, ObjectFile::link and Simulator::load_obj_file, under the untrusted discipline (no discharge may rest on assembler-only invariants). Holds for every byte string / text / object file.",
         "Trusted: std, unescaper 0.1.5 (read by hand), the curated panicky-callee table; allocation failure out of scope.",
         "MIR panic-site reachability + interval/dominator discharge", "5 C19"),
 "C02": ("other",
         "No-panic clause by panic reachability from assemble/assemble_debug; plus interval-normalised dominator checks that each error kind has a producing guard with the stated bound (BlockInIO iff new_lc > xFE00, exact-fit x10000, half-open ranges_overlap, both neighbours checked, OverlappingLabels iff address differs, OffsetExternal on external, pass 2 only after pass 1). 'Exactly when' as a whole is not decided.",
         "Assumes src given to assemble_debug is the parsed text and the AST comes from the parser. Trusted: std, rules/lib.",
         "MIR panic reachability + dominator/interval guard normalisation", "5 C02"),
 "C26": ("other",
         "ErrSpan::first/iter and all ErrSpan conversions have no undischarged panic site (total accessors); AsmErr is only built by AsmErr::new; at each of the AsmErr::new call sites reachable from assemble* the span is a stored span (Stmt.span, .orig span) or Label::span()/SymbolData::span(key) passed on without arithmetic, and label errors use a label span.",
         "Spans stored in the AST are trusted to come from the parser of the same source. Link-error spans: only totality of the accessors is claimed.",
         "MIR panic reachability + def-use provenance predicates", "5 C26"),
 "C16": ("other",
         "Static panic-reachability with discharge over the type-checked MIR of every function defined under src/sim* and everything it reaches: each Assert terminator and each call to a panicking std entry must be discharged by interval/guard analysis, a re-checked invariant or a reviewed table entry. Decides the no-panic clause for all machine states; it does not execute anything.",
         "Trusted: rustc MIR construction, mirfacts, std/rand beyond the curated panicky-callee list; assumes the OS source assembles, timer ranges are non-empty, host-supplied devices do not panic; allocation failure is out of scope.",
         "MIR panic-site reachability + interval/dominator discharge (custom rustc_private driver)", "5 C16, 3 R3"),
}
NA = {
 "C33": "quantifies over thread schedules between simulated instructions (lock held by another thread between two device accesses); no lock-order/typestate/atomicity rule over the source bounds that - needs schedule enumeration, a different technique family (DESIGN.md section 6)",
}

checks = []
for pid in ids:
    if pid in CLAIMS:
        cat, text, note, tech, ref = CLAIMS[pid]
        checks.append({
            "property_id": pid,
            "quick_cmd": "./check %s --tier quick" % pid,
            "thorough_cmd": "./check %s --tier thorough" % pid,
            "evidence_file": "evidence/%s.json" % pid,
            "replay_cmd_template": "./check %s --replay {path}" % pid,
            "engine": "mirfacts+rules",
            "level_claimed": {"category": cat, "text": text, "design_ref": "DESIGN.md section " + ref},
            "level_note": note,
            "technique": tech,
        })
na = []
for pid in ids:
    if pid not in CLAIMS:
        na.append({"property_id": pid, "reason": NA.get(pid, "check not yet built (DESIGN.md section 9 order of work); not claimed on a weaker proxy meanwhile")})
m = {
 "version": 1,
 "setup_cmd": "./setup.sh",
 "hooks": {"guard": "lc3_ensemble_verif", "enable": "no hooks: every check reads /repo's source (MIR via a rustc_private driver, syntax tree, src/os.asm); nothing is compiled into lc3-ensemble",
           "baseline_off_cmd": "cd /repo && cargo test --workspace --no-fail-fast --offline --lib", "source_commits": [], "add_only": True},
 "engines": [
   {"name": "mirfacts", "path": "tools/mirfacts", "kind_free_text": "rustc_private driver (nightly) dumping type-checked MIR facts as JSON", "serves_properties": sorted(CLAIMS)},
   {"name": "rules", "path": "rules", "kind_free_text": "Python rule engine: call graph, dominators, expression trees, intervals, discharge tables", "serves_properties": sorted(CLAIMS)},
 ],
 "checks": checks,
 "notes": "Static analysis only (DESIGN.md). Genuine defects found by the rules were repaired in /repo as `fix:` commits; see known_findings.txt.",
 "not_applicable": na,
}
json.dump(m, open(os.path.join(HERE, "MANIFEST.json"), "w"), indent=1)
print("claims:", len(checks), "not_applicable:", len(na))
