#!/bin/bash
# usage: tools/confirm_refactor.sh <name e.g. C04-f>  - for each delivered r<k>.diff: scratch worktree, apply, cargo test --lib must report 35 passed.
# On success the patch is stored as selftest/equivalent/<name>-r<k>.patch and a scratch copy is left in /tmp/rf/<name>-r<k> for tools/runall.py.
n=$1; out=/tmp/wt/out-$n
cd "$(dirname "$0")/.."
git -C /repo worktree remove --force /tmp/wt/$n 2>/dev/null; rm -rf /tmp/wt/$n
for k in 1 2 3; do
  [ -s $out/r$k.diff ] || { echo "REFACTOR $n r$k: missing"; continue; }
  wt=/tmp/cr-$n-$k
  git -C /repo worktree add -q --detach $wt HEAD || continue
  if (cd $wt && git apply --whitespace=nowarn $out/r$k.diff); then
    lib=$(cd $wt && CARGO_TARGET_DIR=$wt/target CARGO_NET_OFFLINE=true cargo test --offline --lib 2>&1 | grep -E "^test result" | tail -1)
  else lib="PATCH-DOES-NOT-APPLY"; fi
  git -C /repo worktree remove --force $wt
  case "$lib" in *"ok. 35 passed"*) cp $out/r$k.diff selftest/equivalent/$n-r$k.patch; tools/scratch.sh $out/r$k.diff /tmp/rf/$n-r$k >/dev/null; echo "REFACTOR $n r$k: confirmed";; *) echo "REFACTOR $n r$k: NOT CONFIRMED [$lib]";; esac
done
cp $out/notes.md selftest/equivalent/$n-notes.md 2>/dev/null
