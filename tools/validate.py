#!/opt/veriftools/pyvenv/bin/python
"""validate.py: MANIFEST.json and every evidence file against the schemas in /root/.vp (dev aid, not part of any check)."""
import json, sys, os, glob, jsonschema
here = os.path.dirname(os.path.dirname(os.path.abspath(__file__)))
jsonschema.validate(json.load(open(here + "/MANIFEST.json")), json.load(open("/root/.vp/MANIFEST.schema.json")))
m = json.load(open(here + "/MANIFEST.json"))
s = json.load(open("/root/.vp/EVIDENCE.schema.json"))
n = 0
for c in m["checks"]:
    p = os.path.join(here, c["evidence_file"])
    if os.path.exists(p):
        jsonschema.validate(json.load(open(p)), s); n += 1
    else:
        print("missing evidence", p)
ids = [json.loads(l)["id"] for l in open(here + "/properties.jsonl")]
cl = [c["property_id"] for c in m["checks"]]; na = [x["property_id"] for x in m["not_applicable"]]
assert sorted(cl + na) == sorted(ids), "claims + not_applicable must cover every property exactly once"
print("manifest ok; %d claims, %d n/a, %d evidence files valid" % (len(cl), len(na), n))
