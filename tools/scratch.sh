#!/bin/bash
# usage: tools/scratch.sh <patch> <dir>   - scratch copy of /repo (tracked files) with the patch applied, for debugging a rule;
# remove the directory when done.
patch=$(readlink -f "$1"); d=$2
rm -rf "$d"; mkdir -p "$d"
(cd /repo && git ls-files -z | xargs -0 cp --parents -t "$d")
(cd "$d" && git init -q . 2>/dev/null && git apply --whitespace=nowarn "$patch") || echo APPLY-FAILED
