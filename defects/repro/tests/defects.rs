use lc3_ensemble::asm::encoding::{BinaryFormat, ObjFileFormat, TextFormat};
use lc3_ensemble::asm::{assemble, assemble_debug, ObjectFile, SourceInfo};
use lc3_ensemble::ast::sim::SimInstr;
use lc3_ensemble::parse::parse_ast;
use lc3_ensemble::sim::mem::Word;
use lc3_ensemble::sim::{SimErr, SimFlags, Simulator};

fn asm_dbg(src: &str) -> ObjectFile {
    assemble_debug(parse_ast(src).unwrap(), src).unwrap()
}

#[test]
fn c04_backslash_at_end_of_line() {
    assert!(parse_ast(".stringz \"a\\").is_err());
    assert!(parse_ast(".stringz \"a\\\n.end").is_err());
}
#[test]
fn c04_non_ascii_after_backslash() {
    let r = parse_ast(".orig x3000\n.stringz \"\\é\"\n.end");
    assert!(r.is_ok());
}
#[test]
fn c06_jmp_bit11() {
    // 1100 1 00 000 000000: bit 11 must be zero in a canonical JMP
    for w in [0xC800u16, 0xC9C0] {
        match SimInstr::decode(w) {
            Ok(i) => assert_eq!(i.encode(), w, "decoded {i:?} re-encodes differently"),
            Err(_) => {}
        }
    }
}
#[test]
fn c14_strict_jump_to_privileged_memory() {
    let src = ".orig x3000\nAND R0, R0, #0\nJMP R0\n.end";
    let run = |strict: bool| {
        let mut sim = Simulator::new(SimFlags { strict, ..Default::default() });
        sim.load_obj_file(&asm_dbg(src)).unwrap();
        sim.step_in().unwrap();
        let r = sim.step_in();
        (r.is_ok(), sim.pc)
    };
    assert_eq!(run(false), (true, 0));
    assert_eq!(run(true), run(false));
}
#[test]
fn c16_prefetch_pc_after_wrap() {
    let mut sim = Simulator::new(SimFlags { ignore_privilege: true, ..Default::default() });
    sim.mem[0xFFFF] = Word::new_init(0x5020); // AND R0, R0, #0
    sim.pc = 0xFFFF;
    sim.step_in().unwrap();
    assert_eq!(sim.pc, 0);
    assert_eq!(sim.prefetch_pc(), 0xFFFF);
}
#[test]
fn c17_relocation_roundtrip() {
    let o = asm_dbg(".external X\n.orig x3000\n.fill X\n.end");
    let d = BinaryFormat::deserialize(&BinaryFormat::serialize(&o)).expect("deserializes");
    assert_eq!(d, o);
}
#[test]
fn c24_external_inside_block() {
    let src = ".orig x3000\n.external X\nADD R0, R0, #0\n.end";
    let o = asm_dbg(src);
    let sym = o.symbol_table().unwrap();
    let lines: Vec<_> = sym.line_iter().collect();
    assert_eq!(lines, vec![(2, 0x3000)]);
    assert!(BinaryFormat::deserialize(&BinaryFormat::serialize(&o)).is_some());
    assert_eq!(TextFormat::deserialize(&TextFormat::serialize(&o)).as_ref(), Some(&o));
}
#[test]
fn c19_text_debug_single_divider() {
    let _ = TextFormat::deserialize("LC-3 OBJ FILE\n.DEBUG\n====\n");
}
#[test]
fn c19_link_relocation_outside_blocks() {
    let bad = TextFormat::deserialize("LC-3 OBJ FILE\n.TEXT\n3000\n1\n0000\n.SYMBOL\nADDR | EXT | LABEL\n0000 |   1 | X\n.LINKER_INFO\nADDR | LABEL\n5000 | X\n").expect("valid text object");
    let def = asm_dbg(".orig x4000\nX .fill 7\n.end");
    let _ = ObjectFile::link(bad, def);
}
#[test]
fn c19_link_block_at_top_of_memory() {
    let a = TextFormat::deserialize("LC-3 OBJ FILE\n.TEXT\nFFFF\n2\n0000\n0000\n").expect("valid");
    let b = asm_dbg(".orig x3000\n.fill 1\n.end");
    let _ = ObjectFile::link(a, b);
}
#[test]
fn c19_line_blocks_near_usize_max() {
    let mut bytes = b"obj\x21\x10\x00\x01".to_vec();
    for lno in [u64::MAX - 1, u64::MAX] {
        bytes.push(0x02);
        bytes.extend(lno.to_le_bytes());
        bytes.extend(2u16.to_le_bytes());
        bytes.extend(1u16.to_le_bytes());
        bytes.extend(2u16.to_le_bytes());
    }
    let _ = BinaryFormat::deserialize(&bytes);
}
#[test]
fn c19_label_span_near_usize_max() {
    let mk = |addr: u16| {
        let mut bytes = b"obj\x21\x10\x00\x01".to_vec();
        bytes.push(0x01);
        bytes.extend(addr.to_le_bytes());
        bytes.push(0);
        bytes.extend(u64::MAX.to_le_bytes());
        bytes.extend(1u64.to_le_bytes());
        bytes.push(b'X');
        BinaryFormat::deserialize(&bytes).expect("valid")
    };
    let r = ObjectFile::link(mk(1), mk(2));
    assert!(r.is_err());
    // lines joined near usize::MAX
    let mk2 = |lno: u64| {
        let mut bytes = b"obj\x21\x10\x00\x01".to_vec();
        bytes.push(0x01);
        bytes.extend(1u16.to_le_bytes());
        bytes.push(0);
        bytes.extend(0u64.to_le_bytes());
        bytes.extend(1u64.to_le_bytes());
        bytes.push(b'X');
        bytes.push(0x02);
        bytes.extend(lno.to_le_bytes());
        bytes.extend(1u16.to_le_bytes());
        bytes.extend(1u16.to_le_bytes());
        bytes.push(0x03);
        bytes.extend(2u64.to_le_bytes());
        bytes.extend(b"\n\n");
        BinaryFormat::deserialize(&bytes).expect("valid")
    };
    let _ = ObjectFile::link(mk2(0), mk2(u64::MAX));
}
#[test]
fn c21_fill_before_external() {
    let user = asm_dbg(".orig x3000\n.fill X\n.end\n.external X");
    let def = asm_dbg(".orig x4000\nX .fill 7\n.end");
    let mut sim = Simulator::new(Default::default());
    assert!(matches!(sim.load_obj_file(&user), Err(SimErr::UnresolvedExternal(_))));
    let linked = ObjectFile::link(user, def).unwrap();
    let w: Vec<_> = linked.addr_iter().filter(|&(a, _)| a == 0x3000).collect();
    assert_eq!(w, vec![(0x3000, Some(0x4000))]);
}
#[test]
fn c21b_assemble_without_debug_keeps_externals() {
    // assemble() (no debug symbols) used to drop the symbol table, hence the external declaration:
    // loading succeeded and the .fill word silently stayed 0.
    let o = assemble(parse_ast(".external X\n.orig x3000\n.fill X\n.end").unwrap()).unwrap();
    let mut sim = Simulator::new(Default::default());
    assert!(sim.load_obj_file(&o).is_err(), "an unresolved external must be reported at load time");
    // and linking with a definition resolves the word
    let lib = assemble(parse_ast(".orig x4000\nX .fill 7\n.end").unwrap()).unwrap();
    let lib_dbg = asm_dbg(".orig x4000\nX .fill 7\n.end");
    let _ = lib;
    let linked = ObjectFile::link(o, lib_dbg).unwrap();
    let w: Vec<_> = linked.addr_iter().filter(|&(a, _)| a == 0x3000).collect();
    assert_eq!(w, vec![(0x3000, Some(0x4000))]);
    let mut sim = Simulator::new(Default::default());
    assert!(sim.load_obj_file(&linked).is_ok());
    // programs without externals still carry no table without debug symbols
    let plain = assemble(parse_ast(".orig x3000\nHALT\n.end").unwrap()).unwrap();
    assert!(plain.symbol_table().is_none());
}
#[test]
fn c22_label_span_after_link() {
    let a_src = ".orig x3000\nAL .fill 1\n.end";
    let b_src = ".orig x4000\nBB .fill 2\n.end";
    let linked = ObjectFile::link(asm_dbg(a_src), asm_dbg(b_src)).unwrap();
    let sym = linked.symbol_table().unwrap();
    let src = sym.source_info().unwrap().source().to_string();
    let span = sym.get_label_source("BB").unwrap();
    assert_eq!(&src[span], "BB");
    let span = sym.get_label_source("AL").unwrap();
    assert_eq!(&src[span], "AL");
}
#[test]
fn c23_label_source_case() {
    let o = asm_dbg(".orig x3000\nFoo .fill 1\n.end");
    let sym = o.symbol_table().unwrap();
    assert_eq!(sym.get_label_source("FOO"), Some(12..15));
    assert_eq!(sym.get_label_source("foo"), Some(12..15));
    assert_eq!(sym.get_label_source("Foo"), Some(12..15));
}
#[test]
fn c25_pos_pair_past_end() {
    let s = SourceInfo::new("ab\ncd");
    assert_eq!(s.count_lines(), 2);
    assert_eq!(s.get_pos_pair(4), (1, 1));
    assert_eq!(s.get_pos_pair(9), (1, 6));
    let s = SourceInfo::new("ab\n");
    assert_eq!(s.get_pos_pair(3), (1, 0));
    assert_eq!(s.get_pos_pair(7), (1, 4));
}
#[test]
fn c26_link_error_span_first() {
    let a = asm_dbg(".orig x3000\n.fill 1\n.end");
    let b = asm_dbg(".orig x3000\n.fill 2\n.end");
    let e = ObjectFile::link(a, b).unwrap_err();
    let _ = e.span.first();
    let c = asm_dbg(".orig x3000\n.fill 1\n.fill 1\n.end");
    let d = asm_dbg(".orig x3001\n.fill 2\n.end");
    let e = ObjectFile::link(c, d).unwrap_err();
    let _ = e.span.first();
}

// ---------------------------------------------------------------------------------------------
// C33 (recorded as a known finding, not repaired): the readiness poll and the data access are two
// separate non-blocking lock attempts; when the lock is taken in between, the data access fails
// silently and the instruction still completes.
mod c33 {
    use super::*;
    use lc3_ensemble::sim::device::{BufferedDisplay, BufferedKeyboard};
    use std::collections::VecDeque;
    use std::sync::{Arc, RwLock};

    fn sim_with(src: &str) -> Simulator {
        let mut sim = Simulator::new(SimFlags { ignore_privilege: true, ..Default::default() });
        sim.load_obj_file(&asm_dbg(src)).unwrap();
        sim
    }

    #[test]
    fn c33_display_byte_lost_when_lock_taken_after_ready_poll() {
        let src = ".orig x3000\nLD R0, CH\nLOOP LDI R1, DSR\nBRzp LOOP\nSTI R0, DDR\nHALT\nCH .fill x41\nDSR .fill xFE04\nDDR .fill xFE06\n.end";
        let buf = Arc::new(RwLock::new(Vec::new()));
        let mut sim = sim_with(src);
        sim.device_handler.set_display(BufferedDisplay::new(Arc::clone(&buf)));
        sim.step_in().unwrap(); // LD
        sim.step_in().unwrap(); // LDI DSR: ready (lock free)
        sim.step_in().unwrap(); // BRzp not taken
        assert_eq!(sim.pc, 0x3003, "the program saw the display ready");
        {
            let _held = buf.write().unwrap(); // another party holds the lock during the next instruction
            sim.step_in().unwrap(); // STI DDR completes "successfully"
        }
        assert_eq!(sim.pc, 0x3004);
        // the byte the program output is nowhere: this is the defect the static rule reports
        assert_eq!(*buf.read().unwrap(), Vec::<u8>::new(), "known finding no longer reproduces: update known_findings.txt");
    }

    #[test]
    fn c33_keyboard_stale_byte_when_lock_taken_after_ready_poll() {
        let src = ".orig x3000\nLOOP LDI R1, KBSR\nBRzp LOOP\nLDI R0, KBDR\nHALT\nKBSR .fill xFE00\nKBDR .fill xFE02\n.end";
        let buf = Arc::new(RwLock::new(VecDeque::from([b'Q'])));
        let mut sim = sim_with(src);
        sim.device_handler.set_keyboard(BufferedKeyboard::new(Arc::clone(&buf)));
        sim.step_in().unwrap(); // LDI KBSR: ready
        sim.step_in().unwrap(); // BRzp not taken
        assert_eq!(sim.pc, 0x3002);
        {
            let _held = buf.write().unwrap();
            sim.step_in().unwrap(); // LDI KBDR completes with the stale mirror word
        }
        let r0 = sim.reg_file[lc3_ensemble::ast::Reg::R0].get();
        assert_ne!(r0, u16::from(b'Q'), "known finding no longer reproduces: update known_findings.txt");
        assert_eq!(buf.read().unwrap().len(), 1, "the queued byte was not consumed");
    }
}
