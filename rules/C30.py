"""C30 - Reset restores a fresh machine and keeps configuration (struct-field coverage of `reset`)."""
from lib import panics
from lib.panics import _unwrap_var, interval

LEVEL = "other"
SIM = "sim::Simulator"
# classification of every field of Simulator (a new field must be added here or the rule fails closed)
CONFIG = {"mcr", "flags", "breakpoints", "ireg_mmap", "device_handler"}
STATE = {"mem", "reg_file", "pc", "psr", "saved_sp", "frame_stack", "alloca", "instructions_run", "prefetch", "pause_condition", "observer", "os_loaded"}


def run(ck, ctx):
    F = ctx.F
    panics.FACTS = F
    ck.rule("R5/R6: every field of Simulator is classified as configuration or simulation state; reset() either overwrites *self with "
            "new_with_mcr(self.flags, Arc::clone(&self.mcr)) and moves every other configuration field out before and back after the overwrite, or "
            "assigns every state field; no state field is assigned after the overwrite; the only device call is io_reset")
    ck.explanation = "Field coverage on the MIR of Simulator::reset: which places of *self are stored, from which provenance, in which order."
    adt = F.adts.get(SIM)
    if not ck.anchor("C30.1", "Simulator", adt):
        return
    fields = [f["name"] for v in adt["variants"] for f in v["fields"]]
    ck.ob("C30.1", "field-classification", set(fields) == CONFIG | STATE and len(fields) == len(set(fields)),
          "fields of Simulator: %s; unclassified: %s; stale: %s" % (len(fields), sorted(set(fields) - CONFIG - STATE), sorted((CONFIG | STATE) - set(fields))), "src/sim.rs")
    ck.floor("C30.1", "Simulator fields", len(fields), 17)
    b = F.bodies.get("sim::Simulator::reset")
    if not ck.anchor("C30.1", "Simulator::reset", b):
        return
    where = "src/sim.rs:%s" % b.line
    # stores through self
    whole = []       # (block, rvalue expr)
    field_stores = {}
    for bi, si, s in b.stmts():
        if s["k"] != "assign" or s["p"]["l"] != 1 or not s["p"]["proj"]:
            continue
        names = [e.get("name") for e in s["p"]["proj"] if isinstance(e, dict) and "f" in e]
        if not names:
            whole.append((bi, b.expr_of_rvalue(s["rv"], 12)))
        else:
            field_stores.setdefault(names[0], []).append((bi, b.expr_of_rvalue(s["rv"], 12)))
    for bi, t in b.terms("call"):
        d = t.get("dest")
        if d and d["l"] == 1 and d["proj"]:
            names = [e.get("name") for e in d["proj"] if isinstance(e, dict) and "f" in e]
            e = b.expr_of_call(t, 12, None)
            if not names:
                whole.append((bi, e))
            else:
                field_stores.setdefault(names[0], []).append((bi, e))
    if len(whole) == 1:
        wb, we = whole[0]
        u = _unwrap_var(we)
        ok = u[0] == "call" and (u[1] or "").endswith("Simulator::new_with_mcr")
        a_flags = a_mcr = False
        if ok:
            f = _unwrap_var(u[2][0])
            m = _unwrap_var(u[2][1])
            a_flags = (f[0] == "field" and f[2] == "flags") or "'flags'" in repr(u[2][0])
            a_mcr = m[0] == "call" and (m[1] or "").endswith("Arc<T, A> as std::clone::Clone>::clone") and "'mcr'" in repr(m[2][0])
        ck.ob("C30.2", "overwrite", ok and a_flags and a_mcr, "*self = new_with_mcr(self.flags, Arc::clone(&self.mcr)) (flags from self: %s, same MCR allocation: %s)" % (a_flags, a_mcr), where)
        # the reads of flags/mcr happen before the overwrite
        # config fields other than flags/mcr: taken before, restored after
        for f in sorted(CONFIG - {"flags", "mcr"}):
            st = field_stores.get(f, [])
            took = None
            for bi, t, c, _ in b.calls():
                if (c or "").endswith("std::mem::take") and ("'%s'" % f) in repr(b.expr_of_operand(t["args"][0], 6)):
                    took = (bi, t["dest"]["l"])
            good = False
            if took and len(st) == 1:
                sb, se = st[0]
                src = se
                while isinstance(src, tuple) and src[0] == "var":
                    if src[3] == took[1]:
                        break
                    src = src[2]
                same_local = (isinstance(src, tuple) and src[0] == "var" and src[3] == took[1]) or (isinstance(src, tuple) and src[0] == "call" and "std::mem::take" in (src[1] or "") and ("'%s'" % f) in repr(src))
                good = same_local and b.dominates(took[0], wb) and took[0] != wb and b.dominates(wb, sb) and sb != wb
            ck.ob("C30.2", "config:" + f, good, "self.%s is moved out before the overwrite and assigned back after it from the same value" % f, where)
        after = sorted(f for f, st in field_stores.items() if f in STATE and any(b.dominates(wb, sb) and sb != wb for sb, _ in st))
        ck.ob("C30.2", "no-state-after-overwrite", not after, "state fields assigned after the overwrite: %s" % after, where)
    else:
        # in-place re-initialisation: every state field must be assigned
        missing = sorted(STATE - set(field_stores))
        ck.ob("C30.2", "in-place-coverage", not missing and len(whole) == 0, "reset assigns fields in place; state fields not assigned: %s" % missing, where)
        touched = sorted(f for f in field_stores if f in CONFIG)
        ck.ob("C30.2", "config-untouched", not touched, "configuration fields assigned by reset: %s" % touched, where)
    dev = sorted(set((c or "").split("::")[-1] for _, t, c, _ in b.calls() if "DeviceHandler" in (c or "") or "ExternalDevice" in (c or "")))
    ck.ob("C30.3", "device-calls", dev == ["io_reset"], "device calls made by reset: %s" % dev, where)
    vis = {f["name"]: f["vis"] for v in adt["variants"] for f in v["fields"]}
    ck.ob("C30.3", "mcr-private", "Restricted" in vis.get("mcr", ""), "the mcr field is private (the handle cannot be swapped from outside): %s" % vis.get("mcr"), "src/sim.rs")
    ck.include("C29", ctx, "C30.2", {"C29.1"}, "reset rebuilds the machine with the constructor")
    ck.include("C31", ctx, "C30.3", None, "the fresh machine of a seeded configuration is reproducible")
    ck.assume("new_with_mcr builds the fresh machine (C29.1); 'same as a new simulator' for random fillers is up to the deterministic strategy (C31)")
