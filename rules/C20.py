"""C20 - Linking unions images, resolves externals (guard, merge-table and must-apply clauses of ObjectFile::link)."""
import re
from lib import panics, shape, nf
import C21

LEVEL = "other"
OL = "asm::ObjectFile::link"
L = "λ"


def combos_of(lb, block):
    """(A.external, B.external[, addr differs]) combinations under which `block` of link is reached"""
    pcs = nf.path_conditions(lb, block, lambda x: x.endswith(".external") or (x.startswith(("Ne(", "Eq(")) and ".addr" in x))
    if pcs is None:
        return None
    out = set()
    for pc in pcs:
        a = set(lab for d, lab in pc if d.endswith(".external") and "Occupied.0).external" in d)
        b = set(lab for d, lab in pc if d.endswith(".external") and "Occupied.0).external" not in d)
        # path conditions are in positive form (nf.canon_bool_atom): `a.addr != b.addr` is the 0 edge of Eq(a.addr, b.addr)
        ne = set({"0": "1", "1": "0"}.get(lab, lab) for d, lab in pc if d.startswith("Eq("))
        if len(a) > 1 or len(b) > 1 or len(ne) > 1:
            continue                       # infeasible: one flag with two values on the same path
        out.add((next(iter(a), "-"), next(iter(b), "-"), next(iter(ne), "-")))
    return out


def run(ck, ctx):
    F = ctx.F
    panics.FACTS = F
    ck.rule("R4 on ObjectFile::link (path conditions enumerated over the CFG, or-pattern arms included): every block of B is inserted into A's ordered block map and "
            "a key collision returns OverlappingBlocks; every adjacent pair of the merged map is tested with the half-open ranges_overlap on start..start+len "
            "(usize) and an overlap returns OverlappingBlocks; Ok is reachable only when both tests fail. Label merge table: vacant -> insert B's entry; "
            "(ext,ext) -> nothing; exactly one external -> the entry becomes the defined one and its relocations are queued (shared with C21); "
            "(def,def) -> OverlappingLabels iff the addresses differ, else nothing. Symbol tables: (Some,Some) merged, otherwise a.or(b); same for debug symbols; "
            "the relocation apply loop lies on every path to Ok")
    ck.explanation = ("Success conditions and the label merge are finite case tables in the source; the rule recovers each table from the CFG by enumerating "
                      "the switch decisions that lead to each effect, and compares it with the table the property states. Order-independence over link histories is not decided.")
    lb = F.bodies.get(OL)
    if not ck.anchor("C20.1", OL, lb):
        return
    where = "src/asm.rs:%s" % lb.line
    D = 30
    # ---------------------------------------------------------------- C20.1 block union + guards
    ins = [(bi, t) for bi, t, c, _ in lb.calls() if (c or "").endswith("BTreeMap::<K, V, A>::insert")]
    ok = False
    detail = "?"
    if len(ins) == 1:
        bi, t = ins[0]
        a = [nf.arg_x(lb, t, i, bi, D) for i in range(3)]
        item = "next(into_iter(arg2.block_map)) as Some.0"
        g = shape.edge_conds(lb, bi)
        ok = a == ["arg1.block_map", item + ".0", item + ".1"] and [via for d, via in g] == [("1",)]
        detail = "insert(%s) guarded by %s" % (a, g)
    ck.ob("C20.1", "union-insert", ok, "every (start, words) of B's block map is inserted into A's ordered block map under its own start: %s" % detail, where)
    errs = []
    for bi, t, c, _ in lb.calls():
        if (c or "").endswith("AsmErr::new"):
            kind = nf.arg_x(lb, t, 0, bi, 8)
            errs.append((bi, kind))
    ob_blocks = [bi for bi, k in errs if k.startswith("AsmErrKind::OverlappingBlocks")]
    ol_blocks = [bi for bi, k in errs if k.startswith("AsmErrKind::OverlappingLabels")]
    ck.ob("C20.1", "error-sites", len(ob_blocks) == 2 and len(ol_blocks) == 1 and len(errs) == 3, "link builds errors at: %s (required: OverlappingBlocks x2, OverlappingLabels x1)" % errs, where)
    want_dup = lambda x: x.startswith("Option::is_some(BTreeMap::insert(")
    want_any = lambda x: x.startswith("Iterator::any(zip(")
    conds = {}
    for bi in ob_blocks:
        pcs = nf.path_conditions(lb, bi, lambda x: want_dup(x) or want_any(x))
        conds[bi] = sorted(sorted(("dup" if want_dup(d) else "adjacent-overlap", lab) for d, lab in pc) for pc in (pcs or []))
    got = sorted(conds.values())
    ck.ob("C20.1", "overlap-errors", got == [[[("adjacent-overlap", "1")]], [[("dup", "1")]]],
          "OverlappingBlocks is returned exactly on: a start address present in both files, and (after all inserts) some adjacent pair overlapping: %s" % got, where)
    okret = [bi for bi, si, s in lb.stmts() if s["k"] == "assign" and s["p"]["l"] == 0 and s["rv"]["k"] == "agg" and s["rv"].get("variant") == "Ok"]
    okc = None
    if len(okret) == 1:
        pcs = nf.path_conditions(lb, okret[0], lambda x: want_dup(x) or want_any(x))
        okc = sorted(set(tuple(sorted(set(("dup" if want_dup(d) else "adjacent-overlap", lab) for d, lab in pc))) for pc in (pcs or [])))
    ck.ob("C20.1", "ok-needs-both-tests", okc in ([(("adjacent-overlap", "0"), ("dup", "0"))], [(("adjacent-overlap", "0"),)]),
          "Ok is reachable only when no insert collided and no adjacent pair overlaps: %s" % okc, where)
    # the adjacent-pair test: zip(iter, iter advanced by one) over the merged map, any(overlap)
    anyc = [(bi, t) for bi, t, c, _ in lb.calls() if (c or "").endswith("Iterator::any")]
    ok = False
    detail = "?"
    if len(anyc) == 1:
        bi, t = anyc[0]
        src = nf.arg_x(lb, t, 0, bi, D)
        pred = nf.inline_closures(F, OL, nf.arg_x(lb, t, 1, bi, 6))
        rng = lambda k: "Range((arg2.%s.0 as usize), Add((arg2.%s.0 as usize), Vec::len(arg2.%s.1)))" % (k, k, k)
        want_pred = "%s[ranges_overlap(%s, %s)]()" % (L, rng(0), rng(1))
        nxt = [(b2, t2) for b2, t2, c2, _ in lb.calls() if (c2 or "").endswith("Iterator>::next") and "btree_map::Iter" in (c2 or "")]
        adv = len(nxt) == 1 and lb.dominates(nxt[0][0], bi) and nf.arg_x(lb, nxt[0][1], 0, nxt[0][0], D) == "BTreeMap::iter(arg1.block_map)"
        zp = [(b2, t2) for b2, t2, c2, _ in lb.calls() if shape.short_callee(c2) == "zip"]
        # the iterator advanced by `next` is the second operand of zip, the other one is fresh
        second_advanced = False
        if len(zp) == 1 and adv:
            z = zp[0][1]
            n_arg = nxt[0][1]["args"][0]
            # `next(&mut second)`: the local borrowed is the local moved into zip's second argument
            def root(op):
                e = lb.expr_of_operand(op, 3)
                while isinstance(e, tuple) and e and e[0] in ("ref", "deref"):
                    e = e[1]
                return e[3] if isinstance(e, tuple) and e and e[0] == "var" else None
            second_advanced = root(n_arg) is not None and root(n_arg) == root(z["args"][1]) and root(z["args"][0]) != root(z["args"][1])
        ok = src == "zip(BTreeMap::iter(arg1.block_map), BTreeMap::iter(arg1.block_map))" and pred == want_pred and adv and second_advanced and bool(ins) and lb.can_reach(ins[0][0], bi) and not lb.can_reach(bi, ins[0][0])
        detail = "any(%s, %s); second iterator advanced once before zip: %s" % (src, pred, second_advanced)
    ck.ob("C20.1", "adjacent-pairs", ok, "all adjacent pairs (in address order) of the merged map are tested after the union: %s" % detail, where)
    ro = "asm::ranges_overlap"
    if ck.anchor("C20.1", ro, F.bodies.get(ro)):
        got = nf.deep(F, ro)
        ck.ob("C20.1", "ranges_overlap", got == "[PartialOrd::lt(arg1.start, arg2.end) in [0,0]] => 0 ; [PartialOrd::lt(arg1.start, arg2.end) in [1,1]] => PartialOrd::lt(arg2.start, arg1.end)",
              "ranges_overlap(a, b) = a.start < b.end && b.start < a.end (half-open: touching blocks do not overlap): %s" % got, "src/asm.rs:%s" % F.bodies[ro].line)
    # ---------------------------------------------------------------- C20.2 label merge table
    eff = {}
    for bi, t, c, _ in lb.calls():
        sc = shape.short_callee(c)
        if sc in ("OccupiedEntry::insert", "Iterator::partition") or (sc == "AsmErr::new" and bi in ol_blocks):
            eff[sc] = combos_of(lb, bi)
    one_ext = {("1", "0", "-"), ("0", "1", "-")}
    ck.ob("C20.2", "one-external", eff.get("OccupiedEntry::insert") == one_ext and eff.get("Iterator::partition") == one_ext,
          "the entry is replaced and the relocation map partitioned exactly for (A.external, B.external) in %s / %s" % (sorted(eff.get("OccupiedEntry::insert") or []), sorted(eff.get("Iterator::partition") or [])), where)
    ck.ob("C20.2", "conflict", eff.get("AsmErr::new") == {("0", "0", "1")}, "OverlappingLabels is returned exactly for two definitions with different addresses: %s" % sorted(eff.get("AsmErr::new") or []), where)
    # the Ne compares the two addresses
    ne = set()
    for bi, t in lb.terms("switch"):
        s = nf.pp_x(nf.XB(lb).expr_of_operand(t["discr"], 12, (bi, "term")))
        if s.startswith(("Ne(", "Eq(")) and ".addr" in s:
            s = "Ne(" + s[3:]
            ne.add(re.sub(r"\(.*?Occupied\.0\)", "A", re.sub(r"with_src_start\(.*\)\)\)|next\(into_iter\([^)]*\)\) as Some\.0\.1", "B", s)))
    ck.ob("C20.2", "conflict-compares-addresses", len(ne) == 1 and next(iter(ne)).count(".addr") == 2, "the conflict test compares A's and B's address: %s" % sorted(ne), where)
    # nothing else mutates the label map: only the vacant insert and the occupied (one-external) insert
    muts = sorted(shape.short_callee(c) for bi, t, c, _ in lb.calls() if shape.short_callee(c) in ("VacantEntry::insert", "OccupiedEntry::insert", "HashMap::insert", "OccupiedEntry::remove", "HashMap::remove", "OccupiedEntry::get_mut"))
    ck.ob("C20.2", "label-map-mutators", muts == ["OccupiedEntry::insert", "VacantEntry::insert"], "label-map mutations in link: %s" % muts, where)
    vi = [(bi, t) for bi, t, c, _ in lb.calls() if shape.short_callee(c) == "VacantEntry::insert"]
    if vi:
        g = shape.edge_conds(lb, vi[0][0])
        ck.ob("C20.2", "vacant", [via for d, via in g if d.startswith("discr(HashMap::entry(")] == [("1",)], "a label only B has is inserted (vacant edge): %s" % [(d[:40], via) for d, via in g][-1:], where)
    # rel_map assigned back only in the one-external arm
    rstores = [(bi, si) for bi, si, s in lb.stmts() if s["k"] == "assign" and any(isinstance(e, dict) and e.get("name") == "rel_map" for e in s["p"]["proj"])]
    rst = [combos_of(lb, bi) for bi, si in rstores]
    ck.ob("C20.2", "rel-map-stores", len(rstores) >= 1 and all(c == one_ext for c in rst), "the relocation map is replaced (by the non-matching part) only in the one-external arm: %s" % [sorted(c or []) for c in rst], where)
    # ---------------------------------------------------------------- C20.3 resolution and application (shared with C21)
    C21.link_resolution(ck, F, "C20.3")
    # ---------------------------------------------------------------- C20.4 presence of symbol tables / debug symbols
    ors = sorted((nf.arg_x(lb, t, 0, bi, D), nf.arg_x(lb, t, 1, bi, D), tuple(via for d, via in shape.edge_conds(lb, bi) if d in ("discr(local1.sym)", "discr(arg1.sym)", "discr(arg2.sym)")))
                 for bi, t, c, _ in lb.calls() if (c or "").endswith("Option::<T>::or"))
    want = [("arg1.sym", "arg2.sym"), ("arg1.sym as Some.0.debug_symbols", "arg2.sym as Some.0.debug_symbols")]
    ck.ob("C20.4", "presence", [x[:2] for x in ors] == want, "without both tables the result keeps whichever exists: a.sym.or(b.sym); same for debug symbols: %s" % ors, where)
    both = [bi for bi, t, c, _ in lb.calls() if (c or "").endswith("hash_map::IntoIter<K, V, A> as std::iter::Iterator>::next")]
    if both:
        g = dict(shape.edge_conds(lb, both[0]))
        ck.ob("C20.4", "merge-when-both", g.get("discr(arg2.sym)") == ("1",) and any(k.endswith(".sym)") and v == ("1",) and k != "discr(arg2.sym)" for k, v in g.items()),
              "the label loop runs when both files carry a symbol table: %s" % {k: v for k, v in g.items() if ".sym)" in k}, where)
    ck.include("C23", ctx, "C20.5", {"C23.1", "C23.2"}, "labels of the two files meet under one key discipline")
    ck.assume("order-independence over link histories (the result of linking in every order and bracketing) is not decided; the clauses above are per link")
    ck.assume("block ranges of assembler output end <= xFE00 (C02); files from disk are C19's concern")
