"""C27 - Frame stack tracks calls and returns (R5 who-may-call, R6 provenance of caller/callee, counter discipline)."""
from lib import simx, tables, panics
from lib.panics import _unwrap_var, interval
import discharge

LEVEL = "other"
FS = "sim::frame::FrameStack"


def _is_error_exit(b, e, blocks, helper_block):
    """is exit block `e` only entered from the arm by `?` error returns that happen before the helper call?"""
    for p in b.preds()[e]:
        if p in blocks:
            t = b.blocks[p]["term"]
            c = ((t.get("func") or {}).get("resolved") or {}).get("path") or (t.get("func") or {}).get("fn") or ""
            if t["k"] == "call" and "from_residual" in c:
                continue
            if b.dominates(helper_block, p):
                continue
            return False
    return True


def run(ck, ctx):
    F = ctx.F
    panics.FACTS = F
    ck.rule("R5: push_frame is called only by call_subroutine (Subroutine, callee = target) and call_interrupt (type from handle_interrupt, callee = "
            "vector); pop_frame only from the RTI success path and the JMP arm under base register R7. R6: the caller address is prefetch_pc(), "
            "evaluated with prefetch = false for instructions (TRAP/JSR) and prefetch = true for device interrupts. frame_no is +1 / saturating -1 "
            "in exactly those two functions and the frame list is pushed/popped alongside. Argument capture follows the registered signature.")
    ck.explanation = "Call-graph ownership, dominance of the prefetch stores, and provenance of the Frame fields on MIR."
    cv = lambda body, x: simx.classify_value(body.expr_of_operand(x, 30), 0, body)

    def callers(suffix):
        out = {}
        for p, b in F.bodies.items():
            if b.light:
                continue
            for bi, t, c, _ in b.calls():
                if (c or "").endswith(suffix):
                    out.setdefault(p, []).append((bi, t))
        return out
    pushers = callers("FrameStack::push_frame")
    ck.ob("C27.1", "push-callers", set(pushers) == {"sim::Simulator::call_subroutine", "sim::Simulator::call_interrupt"}, "callers of push_frame: %s" % sorted(pushers), "src/sim.rs")
    poppers = callers("FrameStack::pop_frame")
    ck.ob("C27.1", "pop-callers", set(poppers) == {simx.STEP}, "callers of pop_frame: %s" % sorted(poppers), "src/sim.rs")
    try:
        b, swb, arms = simx.step_arms(F)
        where_pop = {}
        for bi, t in poppers.get(simx.STEP, []):
            for v, (tb, blocks) in arms.items():
                if bi in blocks:
                    where_pop[v] = bi
        ck.ob("C27.1", "pop-arms", set(where_pop) == {"RTI", "JMP"} and len(poppers.get(simx.STEP, [])) == 2, "pop_frame occurs in arms %s" % sorted(where_pop), "src/sim.rs")
        # JMP: only when the base register is R7 ; RTI: only on the privileged path after set_pc succeeded
        ok = False
        if "JMP" in where_pop:
            for ex, lo, hi in panics.dominating_conditions(b, where_pop["JMP"]):
                if "Reg::reg_no" in repr(ex) and lo == 7 and hi == 7:
                    ok = True
            sp = [bi for bi, t, c in simx.calls_in(b, arms["JMP"][1], ["Simulator::set_pc"])]
            ok = ok and len(sp) == 1 and b.dominates(sp[0], where_pop["JMP"])
        ck.ob("C27.1", "JMP-pop-iff-R7", ok, "in the JMP arm pop_frame runs after set_pc and only when reg_no() == 7", "src/sim.rs")
        ok = False
        if "RTI" in where_pop:
            sp = [bi for bi, t, c in simx.calls_in(b, arms["RTI"][1], ["Simulator::set_pc"])]
            err = [x for x in arms["RTI"][1] for s in b.blocks[x]["stmts"] if s["k"] == "assign" and s["rv"]["k"] == "agg" and s["rv"].get("variant") == "PrivilegeViolation"]
            ok = len(sp) == 1 and b.dominates(sp[0], where_pop["RTI"]) and all(not b.can_reach(where_pop["RTI"], e) for e in err)
        ck.ob("C27.1", "RTI-pop", ok, "in the RTI arm pop_frame runs after the PC was restored, never on the privilege-violation path", "src/sim.rs")
        # every JSR/JSRR path goes through call_subroutine, every TRAP through handle_interrupt: no arm links or jumps by itself
        for arm, helper in (("JSR", "Simulator::call_subroutine"), ("TRAP", "Simulator::handle_interrupt")):
            tb, blocks = arms[arm]
            hs = simx.calls_in(b, blocks, [helper])
            others = simx.calls_in(b, blocks, ["Simulator::set_pc", "Simulator::offset_pc", "Word::set", "Word::set_if_init"])
            # the helper call lies on every path from the arm entry to the normal end of the step (the counter update)
            J = [bi for bi, si, s2 in b.stmts() if s2["k"] == "assign" and any(isinstance(e, dict) and e.get("name") == "instructions_run" for e in s2["p"]["proj"])]
            bypass = not (len(hs) == 1 and len(J) == 1 and not b.can_reach(tb, J[0], avoid={hs[0][0]}))
            ck.ob("C27.1", arm + ":only-via-helper", len(hs) == 1 and not others and not bypass,
                  "%s arm: %d call(s) to %s, other PC/register writes in the arm: %s" % (arm, len(hs), helper.split("::")[-1], [c.split("::")[-1] for _, _, c in others]), "src/sim.rs")
        # prefetch flag at the two kinds of call
        stores = [(bi, interval(b.expr_of_operand(s["rv"]["op"]))) for bi, si, s in b.stmts()
                  if s["k"] == "assign" and s["rv"]["k"] == "use" and any(isinstance(e, dict) and e.get("name") == "prefetch" for e in s["p"]["proj"])]
        t_store = [bi for bi, v in stores if v == (1, 1)]
        f_store = [bi for bi, v in stores if v == (0, 0)]
        dev = [bi for bi, t, c, _ in b.calls() if (c or "").endswith("Simulator::handle_interrupt") and not any(bi in blocks for _, blocks in arms.values())]
        ok_dev = len(t_store) == 1 and len(dev) == 1 and b.dominates(t_store[0], dev[0]) and all(not b.can_reach(f, dev[0]) for f in f_store)
        ck.ob("C27.2", "prefetch-true-at-interrupt", ok_dev, "prefetch = true is stored before the device-interrupt entry (so prefetch_pc() is the interrupted instruction's address)", "src/sim.rs")
        ok_ins = len(f_store) == 1 and b.dominates(f_store[0], swb) and all(not (b.can_reach(f_store[0], t) and t != t_store[0]) for t in t_store[1:])
        ck.ob("C27.2", "prefetch-false-in-arms", ok_ins, "prefetch = false is stored before the instruction match (so prefetch_pc() is pc - 1, the executing instruction)", "src/sim.rs")
    except tables.TableError as ex:
        ck.fail("C27.1", "arms", "obligation not established: %s" % ex)
    # arguments of push_frame
    cs = F.bodies.get("sim::Simulator::call_subroutine")
    ci = F.bodies.get("sim::Simulator::call_interrupt")
    for body, name, want_callee, want_ft in ((cs, "call_subroutine", ("arg", "addr"), "Subroutine"), (ci, "call_interrupt", ("arg", "vect"), "arg:ft")):
        if not ck.anchor("C27.2", name, body):
            continue
        t = pushers.get(body.path, [(None, None)])[0][1]
        if t is None:
            continue
        caller = cv(body, t["args"][1])
        callee = cv(body, t["args"][2])
        ft = _unwrap_var(body.expr_of_operand(t["args"][3]))
        ftd = ft[2][1] if ft[0] == "agg" else ("arg:" + str(ft[2]) if ft[0] == "arg" else "?")
        regs = repr(body.expr_of_operand(t["args"][4], 6))
        mem = repr(body.expr_of_operand(t["args"][5], 6))
        ck.ob("C27.2", name + ":push-args", caller == ("prefetch_pc",) and callee == want_callee and ftd == want_ft and "'reg_file'" in regs and "'mem'" in mem,
              "push_frame(caller=%s, callee=%s, type=%s, &reg_file, &mem)" % (caller, callee, ftd), "src/sim.rs:%s" % body.line)
    if cs is not None:
        # R7 := pc before the frame is pushed; then set_pc(addr)
        sets = [(bi, cv(cs, t["args"][0]), cv(cs, t["args"][1])) for bi, t, c, _ in cs.calls() if (c or "").endswith("Word::set")]
        ok = len(sets) == 1 and sets[0][1] == ("reg", "R7") and sets[0][2] == ("pc",)
        sp = [cv(cs, t["args"][1]) for bi, t, c, _ in cs.calls() if (c or "").endswith("Simulator::set_pc")]
        ck.ob("C27.2", "call_subroutine:link", ok and sp == [("arg", "addr")], "R7 := pc (already incremented), then PC := addr: %s / %s" % (sets, sp), "src/sim.rs:%s" % cs.line)

    # ---- C27.3 counter discipline
    w = discharge._field_writers(F, FS, "frame_no")
    ck.ob("C27.3", "frame_no-writers", w == {"sim::frame::FrameStack::push_frame", "sim::frame::FrameStack::pop_frame"}, "writers of frame_no: %s" % sorted(w), "src/sim/frame.rs")
    pf = F.bodies.get("sim::frame::FrameStack::push_frame")
    po = F.bodies.get("sim::frame::FrameStack::pop_frame")
    if ck.anchor("C27.3", "push_frame", pf) and ck.anchor("C27.3", "pop_frame", po):
        inc = [pf.expr_of_rvalue(s["rv"], 8) for bi, si, s in pf.stmts() if s["k"] == "assign" and any(isinstance(e, dict) and e.get("name") == "frame_no" for e in s["p"]["proj"])]
        inc_ok = len(inc) == 1 and repr(inc[0]).count("AddWithOverflow") == 1 and "('const', 1, 'u64')" in repr(inc[0])
        # unconditional: the store is in a block that dominates every return
        ck.ob("C27.3", "push:+1", inc_ok, "push_frame: frame_no += 1 (unconditionally)", "src/sim/frame.rs:%s" % pf.line)
        dec = [_unwrap_var(po.expr_of_rvalue(s["rv"], 8)) for bi, si, s in po.stmts() if s["k"] == "assign" and any(isinstance(e, dict) and e.get("name") == "frame_no" for e in s["p"]["proj"])]
        dec_ok = len(dec) == 1 and dec[0][0] == "call" and (dec[0][1] or "").endswith("<impl u64>::saturating_sub") and interval(dec[0][2][1]) == (1, 1)
        ck.ob("C27.3", "pop:-1-saturating", dec_ok, "pop_frame: frame_no = frame_no.saturating_sub(1)", "src/sim/frame.rs:%s" % po.line)
        pushes = [(bi, t) for bi, t, c, _ in pf.calls() if (c or "").endswith("Vec::<T, A>::push")]
        pops = [(bi, t) for bi, t, c, _ in po.calls() if (c or "").endswith("Vec::<T, A>::pop")]
        users = discharge.field_users(F, FS, "frames")
        ck.ob("C27.3", "frames-list", len(pushes) == 1 and len(pops) == 1 and users <= {"sim::frame::FrameStack::push_frame", "sim::frame::FrameStack::pop_frame", "sim::frame::FrameStack::frames", "sim::frame::FrameStack::new"},
              "frames is pushed once in push_frame and popped once in pop_frame; users: %s" % sorted(users), "src/sim/frame.rs")
        # the Frame aggregate
        ok = False
        desc = ""
        for bi, si, s in pf.stmts():
            if s["k"] == "assign" and s["rv"]["k"] == "agg" and s["rv"].get("adt") == "sim::frame::Frame":
                d = dict(zip(s["rv"]["field_names"], [_unwrap_var(pf.expr_of_operand(f, 8)) for f in s["rv"]["fields"]]))
                ok = d["caller_addr"][0] == "arg" and d["caller_addr"][2] == "caller" and d["callee_addr"][0] == "arg" and d["callee_addr"][2] == "callee" and \
                    d["frame_type"][0] == "arg" and d["frame_type"][2] == "frame_type"
                desc = str({k: (v[2] if v[0] == "arg" else v[0]) for k, v in d.items()})
        ck.ob("C27.4", "frame-fields", ok, "Frame { caller_addr: caller, callee_addr: callee, frame_type, .. }: %s" % desc, "src/sim/frame.rs:%s" % pf.line)
        # signature selection per frame type
        rows = {}
        names = tables.variant_names(F, "sim::frame::FrameType")
        for bi, t, c, _ in pf.calls():
            if (c or "").endswith("HashMap::<K, V, S, A>::get"):
                m = repr(pf.expr_of_operand(t["args"][0], 8))
                which = "sr_defns" if "'sr_defns'" in m else "trap_defns" if "'trap_defns'" in m else "?"
                for ex, lo, hi in panics.dominating_conditions(pf, bi):
                    if _unwrap_var(ex)[0] == "discr" and "frame_type" in repr(ex) and lo is not None and lo == hi:
                        rows[names[lo]] = which
        # the Trap row goes through `.and_then(|addr| self.trap_defns.get(&addr))`: the closure captures &self.trap_defns
        for bi, si, s in pf.stmts():
            if s["k"] == "assign" and s["rv"]["k"] == "agg" and s["rv"].get("agg") == "closure":
                caps = repr([pf.expr_of_operand(x, 8) for x in s["rv"]["fields"]])
                cl = F.bodies.get(s["rv"]["closure"])
                gets = cl is not None and any((c or "").endswith("HashMap::<K, V, S, A>::get") for _, _, c, _ in cl.calls())
                if "'trap_defns'" in caps and gets:
                    for ex, lo, hi in panics.dominating_conditions(pf, bi):
                        if _unwrap_var(ex)[0] == "discr" and "frame_type" in repr(ex) and lo is not None and lo == hi:
                            rows[names[lo]] = "trap_defns"
        ck.ob("C27.4", "signature-table", rows == {"Subroutine": "sr_defns", "Trap": "trap_defns", "Interrupt": "sr_defns"}, "signature looked up in: %s" % rows, "src/sim/frame.rs:%s" % pf.line)
        # calling convention: fp = R6 - 4, arguments at fp+4+i
        fp_ok = False
        for bi, t, c, _ in pf.calls():
            if (c or "").endswith("Word as std::ops::Sub>::sub"):
                a0, a1 = simx.classify_value(pf.expr_of_operand(t["args"][0], 12), 0, pf), simx.classify_value(pf.expr_of_operand(t["args"][1], 12), 0, pf)
                fp_ok = a0 == ("reg", "R6") and a1 == ("const", 4)
        ck.ob("C27.4", "frame-pointer", fp_ok, "calling-convention frame pointer = R6 - 4", "src/sim/frame.rs:%s" % pf.line)
    ga = [b for p, b in F.bodies.items() if p.startswith("sim::frame::ParameterList::get_arguments::{closure")]
    addr_ok = reg_ok = False
    gab = F.bodies.get("sim::frame::ParameterList::get_arguments")
    fp_captured = False
    if gab is not None:
        for bi, si, s in gab.stmts():
            if s["k"] == "assign" and s["rv"]["k"] == "agg" and s["rv"].get("agg") == "closure" and s["rv"]["closure"].endswith("{closure#0}"):
                caps = [_unwrap_var(gab.expr_of_operand(x, 6)) for x in s["rv"]["fields"]]
                fp_captured = len(caps) == 1 and caps[0][0] == "ref" and caps[0][1][0] == "arg" and caps[0][1][2] == "fp"
    for bb in ga:
        for bi, t, c, _ in bb.calls():
            if (c or "").endswith("<impl u16>::wrapping_add"):
                e = _unwrap_var(bb.expr_of_operand(t["args"][0], 10))
                if e[0] == "call" and (e[1] or "").endswith("wrapping_add") and interval(e[2][1]) == (4, 4) and "'0', '&u16'" in repr(e[2][0]) and fp_captured \
                        and "'i'" in repr(bb.expr_of_operand(t["args"][1], 6)):
                    addr_ok = True
            if (c or "").endswith("RegFile as std::ops::Index<ast::Reg>>::index"):
                reg_ok = True
    ck.ob("C27.4", "argument-capture", addr_ok and reg_ok, "calling convention reads mem[fp + 4 + i]; pass-by-register reads the listed registers", "src/sim/frame.rs")
    # built-in trap signatures x20..x25
    nw = F.bodies.get("sim::frame::FrameStack::new")
    if ck.anchor("C27.4", "FrameStack::new", nw):
        keys = []
        for bi, si, s in nw.stmts():
            if s["k"] == "assign" and s["rv"]["k"] == "agg" and s["rv"].get("agg") == "tuple" and len(s["rv"]["fields"]) == 2:
                iv = interval(nw.expr_of_operand(s["rv"]["fields"][0]))
                if iv and iv[0] == iv[1]:
                    keys.append(iv[0])
        ck.ob("C27.4", "trap-signatures", sorted(keys) == [0x20, 0x21, 0x22, 0x23, 0x24, 0x25], "built-in trap signatures for vectors %s" % [hex(k) for k in sorted(keys)], "src/sim/frame.rs:%s" % nw.line)
    ck.include("C10", ctx, "C27.5", {"C10.4", "C10.5"}, "interrupt entry and RTI push/pop the frames")
    ck.assume("every JSR/JSRR goes through call_subroutine and every TRAP/interrupt/exception through call_interrupt (C08 effect rows)")
    ck.assume("frame_no overflow needs 2^64 calls (C16 table entry)")
