"""C23 - Symbol-table label queries agree and ignore case (one key discipline, first occurrence, query normal forms)."""
from lib import panics, shape, nf

LEVEL = "other"

READS = {"HashMap::get", "HashMap::contains_key", "HashMap::get_key_value"}
KEYED_WRITES = {"HashMap::insert", "HashMap::entry", "HashMap::remove", "HashMap::get_mut", "HashMap::remove_entry"}
MUTATORS = {"HashMap::insert", "HashMap::remove", "HashMap::get_mut", "HashMap::remove_entry", "HashMap::retain", "HashMap::clear", "HashMap::drain", "HashMap::iter_mut",
            "HashMap::values_mut", "HashMap::extend", "extend", "OccupiedEntry::insert", "OccupiedEntry::get_mut", "OccupiedEntry::into_mut", "OccupiedEntry::remove",
            "OccupiedEntry::remove_entry", "OccupiedEntry::replace_entry", "VacantEntry::insert", "VacantEntry::insert_entry", "Entry::or_insert", "Entry::or_insert_with",
            "Entry::or_insert_with_key", "Entry::or_default", "Entry::and_modify", "Entry::insert_entry"}


def label_map_ops(F):
    """every call on a HashMap<String, SymbolData> (or its entries) in non-generated code: (body path, block, term, short callee)"""
    out = []
    for p, b in sorted(F.bodies.items()):
        if b.light or b.exp:
            continue
        for bi, t, c, raw in b.calls():
            fa = t["func"].get("fn_args", "") if t["func"].get("k") == "const" else ""
            if "asm::SymbolData" in fa and ("String" in fa) and any(x in (c or "") for x in ("HashMap", "hash_map")):
                out.append((p, bi, t, shape.short_callee(c)))
    return out


def run(ck, ctx):
    F = ctx.F
    panics.FACTS = F
    ck.rule("R6/R5 one key discipline: every keyed operation on a HashMap<String, SymbolData> outside the object-file readers uses a key that is "
            "str::to_uppercase(..) of the queried/declared name, or a key taken from a label map / from the upper-cased fill-site list; mutators of label maps "
            "are an enumerated set; add_label stores only through VacantEntry::insert (first occurrence wins) the value SymbolData{addr, label.span().start, external}; "
            "normal forms of lookup_label, get_label_source (+SymbolData::span, Label::span/new), rev_lookup_label, label_iter")
    ck.explanation = ("Case-insensitivity is a property of what flows into the map key; agreement of the queries is a property of their (small) bodies. Both are read off the MIR: "
                      "position-aware provenance of every key argument, ownership of the mutating calls, normal forms of the query functions.")
    ops = label_map_ops(F)
    ck.floor("C23.1", "label-map operations", len(ops), 30)
    keyed = [(p, bi, t, sc) for p, bi, t, sc in ops if sc in READS | KEYED_WRITES]
    ck.floor("C23.1", "keyed label-map operations", len(keyed), 9)
    READERS_FROM_FILE = ("<asm::encoding::BinaryFormat as asm::encoding::ObjFileFormat>::deserialize", "<asm::encoding::TextFormat as asm::encoding::ObjFileFormat>::deserialize")
    n_upper = 0
    for p, bi, t, sc in keyed:
        b = F.bodies[p]
        key = nf.arg_x(b, t, 1, bi, 16)
        where = "%s:%s" % (b.file, t["line"])
        inst = "%s|%s|%s" % (p, sc, key[:60])
        if p in READERS_FROM_FILE:
            ck.ob("C23.1", "key:" + inst, True, "object-file reader: keys are the file's (a file written from an assembled table holds upper-cased keys, C17/C18)", where, nontrivial=False)
            continue
        if key.startswith("to_uppercase("):
            n_upper += 1
            ck.ob("C23.1", "key:" + inst, True, "key is %s" % key, where)
        elif p == "asm::ObjectFile::link" and sc == "HashMap::entry" and ".label_map)) as Some.0.0" in key and key.startswith("next(into_iter("):
            ck.ob("C23.1", "key:" + inst, True, "key is taken from the other file's label map: %s" % key, where)
        elif p.startswith("asm::SymbolTable::new::{closure#") and sc == "HashMap::get" and key == "arg2.1":
            # the filter over fill_sites: its elements are pushed in SymbolTable::new as (lc, to_uppercase(name))
            nb = F.bodies.get("asm::SymbolTable::new")
            pushes = [nf.arg_x(nb, t2, 1, b2, 16) for b2, t2, c2, _ in nb.calls() if (c2 or "").endswith("Vec::<T, A>::push")] if nb else []
            okp = bool(pushes) and all(x.startswith("tuple(") and ", to_uppercase(" in x for x in pushes)
            ck.ob("C23.1", "key:" + inst, okp, "key is the second component of a fill-site record; every record pushed is (lc, to_uppercase(name)): %s" % pushes, where)
        else:
            ck.ob("C23.1", "key:" + inst, False, "label-map key without to_uppercase provenance: %s(%s)" % (sc, key), where)
    ck.floor("C23.1", "upper-cased keys", n_upper, 4)
    # ---- mutators
    allowed = {
        ("asm::SymbolTable::new::add_label", "VacantEntry::insert"): 1,
        ("asm::ObjectFile::link", "VacantEntry::insert"): 1,
        ("asm::ObjectFile::link", "OccupiedEntry::insert"): 1,
        (READERS_FROM_FILE[0], "HashMap::insert"): 1,
        (READERS_FROM_FILE[1], "Entry::or_default"): 2,
    }
    seen = {}
    for p, bi, t, sc in ops:
        if sc in MUTATORS:
            seen[(p, sc)] = seen.get((p, sc), 0) + 1
    for k, n in sorted(seen.items()):
        ck.ob("C23.2", "mutator:%s|%s" % k, k in allowed and n <= allowed[k], "%d call(s) of %s in %s (allowed: %s)" % (n, k[1], k[0], allowed.get(k, 0)), "src/asm.rs")
    ck.floor("C23.2", "label-map mutators", len(seen), 5)
    al = F.bodies.get("asm::SymbolTable::new::add_label")
    if ck.anchor("C23.2", "add_label", al):
        ins = [(bi, t) for bi, t, c, _ in al.calls() if shape.short_callee(c) == "VacantEntry::insert"]
        val = nf.arg_x(al, ins[0][1], 1, ins[0][0], 16) if len(ins) == 1 else None
        ck.ob("C23.2", "first-occurrence", val == "SymbolData(arg3, Label::span(arg2).start, arg4)",
              "the only store of add_label is on the vacant edge and stores SymbolData{addr, label.span().start, external}: %s" % val, "src/asm.rs:%s" % al.line)
        ent = [nf.arg_x(al, t, 1, bi, 16) for bi, t, c, _ in al.calls() if shape.short_callee(c) == "HashMap::entry"]
        ck.ob("C23.2", "entry-key", ent == ["to_uppercase(deref(arg2.name))"], "the entry is looked up under %s" % ent, "src/asm.rs:%s" % al.line)
    # callers of add_label: (label, cur.lc, false) for statement labels, (label, 0, true) for .external
    nb = F.bodies.get("asm::SymbolTable::new")
    if ck.anchor("C23.2", "SymbolTable::new", nb):
        calls = sorted((nf.arg_x(nb, t, 2, bi, 12), nf.arg_x(nb, t, 3, bi, 12)) for bi, t, c, _ in nb.calls() if (c or "").endswith("::add_label"))
        ok = len(calls) == 2 and calls[0] == ("0", "1") and calls[1][1] == "0" and calls[1][0].endswith(".lc")
        ck.ob("C23.2", "add_label-callers", ok, "add_label is called with (addr, external) = %s (required: (0, true) for .external, (cursor.lc, false) for statement labels)" % calls, "src/asm.rs:%s" % nb.line)
        ctor = [s for bi, si, s in nb.stmts() if s["k"] == "assign" and s["rv"]["k"] == "agg" and (s["rv"].get("adt") or "").endswith("asm::SymbolTable")]
        ok = False
        if len(ctor) == 1:
            d = dict(zip(ctor[0]["rv"].get("field_names", []), ctor[0]["rv"]["fields"]))
            lm = d.get("label_map")
            e = nb.expr_of_operand(lm, 6) if lm else None
            u = panics._unwrap_var(e) if e else None
            name = e[1] if e and e[0] == "var" else None
            ok = bool(u) and u[0] == "call" and (u[1] or "").endswith("HashMap::<K, V>::new") and name is not None
            # and that same variable is the map handed to add_label
            firsts = set(repr(panics._unwrap_var(nb.expr_of_operand(t["args"][0], 6))) for bi, t, c, _ in nb.calls() if (c or "").endswith("::add_label"))
            ok = ok and len(firsts) == 1 and "HashMap::<K, V>::new" in next(iter(firsts)) and all(
                (x[0] == "ref" and x[1][0] == "var" and x[1][3] == e[3]) for x in [nb.expr_of_operand(t["args"][0], 6) for bi, t, c, _ in nb.calls() if (c or "").endswith("::add_label")])
        ck.ob("C23.2", "table-is-the-map", ok, "the SymbolTable returned holds the map the loop filled (created empty by HashMap::new)", "src/asm.rs:%s" % nb.line)
    # ---- query normal forms
    ST = "asm::SymbolTable::"
    L = "\u03bb"
    nf.expect_deep(ck, F, "C23.3", "lookup_label", ST + "lookup_label", ["Option::map(HashMap::get(arg1.label_map, to_uppercase(arg2)), %s[arg2.addr]())" % L], "address lookup under the upper-cased name returns the entry's addr")
    nf.expect_deep(ck, F, "C23.3", "get_label_source", ST + "get_label_source", ["Option::map(HashMap::get(arg1.label_map, to_uppercase(arg2)), %s[SymbolData::span(arg2, @entry{arg2})](arg2))" % L],
                   "source lookup under the upper-cased name returns the entry's span with the length of the queried name")
    nf.expect_deep(ck, F, "C23.3", "SymbolData::span", "asm::SymbolData::span", ["Range(arg1.src_start, saturating_add(arg1.src_start, len(arg2)))"], "span = src_start .. src_start + len(name)")
    nf.expect_deep(ck, F, "C23.3", "Label::span", "ast::Label::span", ["Range(arg1.start, Add(String::len(arg1.name), arg1.start))"], "label span = start .. start + len(name)", file="src/ast.rs")
    nf.expect_deep(ck, F, "C23.3", "Label::new", "ast::Label::new", ["Label(arg1, arg2.start)"], "a label remembers where its token starts", file="src/ast.rs")
    f = "Iterator::find(HashMap::iter(arg1.label_map), %s[Eq(@entry{arg2}, arg2.1.addr)](arg2))" % L
    nf.expect_deep(ck, F, "C23.3", "rev_lookup_label", ST + "rev_lookup_label", ["[fail(%s)] => propagate(%s) ; [ok(%s)] => Option::Some(deref(try(%s).0))" % (f, f, f, f)], "reverse lookup = name of some entry with entry.addr == addr")
    nf.expect_deep(ck, F, "C23.3", "label_iter", ST + "label_iter", ["Iterator::map(HashMap::iter(arg1.label_map), %s[tuple(deref(arg2.0), arg2.1.addr, arg2.1.external)]())" % L], "listing maps every entry (no filter) to (name, addr, external)")
    ck.assume("str::to_uppercase is applied to both the declared and the queried name; for ASCII labels (the property's alphabet) it is the usual case folding")
    ck.assume("labels in files read from disk are the file's; assembler-written files hold the upper-cased keys (C17/C18 round trip)")
    ck.assume("'the address of the statement it labels' additionally needs C01.6 (labels bound to the location counter before the statement's shift)")
