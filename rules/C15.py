"""C15 - Initialization tracking of words is sound (R9: bit-parallel boolean domain; R4 for Add/Sub)."""
import itertools
from lib import panics, bits
from lib.panics import _unwrap_var, interval
import discharge

LEVEL = "proof"
ALL = 0xFFFF


class NotBitwise(Exception):
    pass


def bool_eval(e, env):
    """evaluate a bitwise expression tree on single-bit inputs (every operator acts bit-parallel)"""
    e0 = e
    while isinstance(e, tuple) and e and e[0] == "var":
        if e[1] in env:
            return env[e[1]]
        e = e[2]
    k = e[0]
    if k == "bin":
        a, b = bool_eval(e[2], env), bool_eval(e[3], env)
        if e[1] == "BitAnd":
            return a & b
        if e[1] == "BitOr":
            return a | b
        if e[1] == "BitXor":
            return a ^ b
        raise NotBitwise("operator %s is not bit-parallel" % e[1])
    if k == "un" and e[1] == "Not":
        return 1 - bool_eval(e[2], env)
    if k == "field":
        # self.data / self.init / rhs.data / rhs.init read directly
        base = _unwrap_var(e[1])
        who = base[2] if base[0] == "arg" else None
        key = {"self": "l", "rhs": "r"}.get(who, "?") + e[2]
        if key in env:
            return env[key]
    raise NotBitwise("node %s is not a bitwise term over the four inputs" % (k,))


def result_fields(b, single_path=True):
    """(data expr, init expr) of the Word aggregate returned by a body with a single return aggregate"""
    aggs = [(bi, s) for bi, si, s in b.stmts() if s["k"] == "assign" and s["rv"]["k"] == "agg" and s["rv"].get("adt") == "sim::mem::Word" and s["p"]["l"] == 0]
    if len(aggs) != 1:
        raise NotBitwise("%d Word aggregates assigned to the return place" % len(aggs))
    # every other way of producing the result (an early `return self`, a call) is a return path the truth table does not cover
    others = [(bi2, si2) for bi2, si2, rv in b.defs().get(0, []) if not (si2 != "term" and rv.get("k") == "agg")]
    others += [(bi2, "partial") for bi2, si2, st in b.defs().get(("partial", 0), [])]
    if others and single_path:
        raise NotBitwise("the result is also produced on %d other path(s) (blocks %s): a shortcut return bypasses the init-mask formula" % (len(others), [o[0] for o in others]))
    bi, s = aggs[0]
    d = dict(zip(s["rv"]["field_names"], s["rv"]["fields"]))
    return bi, b.expr_of_operand(d["data"], 16), b.expr_of_operand(d["init"], 16)


def run(ck, ctx):
    F = ctx.F
    panics.FACTS = F
    ck.rule("R9 (bit-parallel boolean functions): the data/init formulas of Word::bitand and Word::not are evaluated as truth tables over one bit of "
            "(ldata, linit, rdata, rinit): the init bit never depends on an uninitialised data bit, and whenever it is 1 the data bit is the same for "
            "all values of the uninitialised inputs; fully initialised inputs give an initialised result. R4: Word::add/sub report ALL_BITS iff both "
            "masks are ALL_BITS (else NO_BITS), compute wrapping_add/sub, and their early returns hand back an operand unchanged only when the OTHER "
            "operand is the fully initialised constant 0 (for sub: only the right operand); the *Assign impls delegate. R5: writers of Word.init")
    ck.explanation = "Truth tables of the extracted formulas (16 rows x completions) for the bitwise operators; dominator/provenance checks for the arithmetic ones."
    ck.trusted = ["rustc MIR construction", "mirfacts", "rules/C15.py truth-table evaluation"]
    W = "sim::mem::Word"
    # constants
    for cname, want in (("sim::mem::ALL_BITS", ALL), ("sim::mem::NO_BITS", 0)):
        c = F.consts.get(cname)
        ck.ob("C15.0", cname, bool(c) and c.get("val") == want, "%s = %s" % (cname, c and c.get("val")), "src/sim/mem.rs")

    # ---- bitand
    b = F.bodies.get("<sim::mem::Word as std::ops::BitAnd>::bitand")
    if ck.anchor("C15.1", "Word::bitand", b):
        where = "src/sim/mem.rs:%s" % b.line
        try:
            bi, de, ie = result_fields(b)
            rows = 0
            bad = []
            for ld, li, rd, ri in itertools.product((0, 1), repeat=4):
                env = {"ldata": ld, "linit": li, "rdata": rd, "rinit": ri}
                d0, i0 = bool_eval(de, env), bool_eval(ie, env)
                rows += 1
                # all completions of the uninitialised data bits
                for ld2 in ((ld,) if li else (0, 1)):
                    for rd2 in ((rd,) if ri else (0, 1)):
                        env2 = {"ldata": ld2, "linit": li, "rdata": rd2, "rinit": ri}
                        d2, i2 = bool_eval(de, env2), bool_eval(ie, env2)
                        if i2 != i0:
                            bad.append("init depends on an uninitialised data bit at %s" % (env,))
                        if i0 == 1 and d2 != d0:
                            bad.append("bit reported initialised but value differs: %s vs %s" % (env, env2))
                if li and ri and i0 != 1:
                    bad.append("initialised inputs give an uninitialised result at %s" % (env,))
                if li and ri and d0 != (ld & rd):
                    bad.append("data is not ldata & rdata at %s" % (env,))
            ck.ob("C15.1", "bitand:soundness", not bad and rows == 16, "; ".join(bad[:3]) or "16 rows x completions: init' is independent of uninitialised data bits, and init'=1 implies a determined data bit", where,
                  sample={"formula_init": repr(ie)[:300]})
            # data formula is exactly ldata & rdata on all rows
            data_ok = all(bool_eval(de, {"ldata": a, "linit": x, "rdata": c, "rinit": y}) == (a & c) for a, x, c, y in itertools.product((0, 1), repeat=4))
            ck.ob("C15.1", "bitand:data", data_ok, "data' = ldata & rdata", where)
        except NotBitwise as ex:
            ck.fail("C15.1", "bitand", "unanalysable: %s" % ex, where)

    # ---- not
    b = F.bodies.get("<sim::mem::Word as std::ops::Not>::not")
    if ck.anchor("C15.2", "Word::not", b):
        where = "src/sim/mem.rs:%s" % b.line
        try:
            bi, de, ie = result_fields(b)
            ok = all(bool_eval(de, {"data": d, "init": i}) == 1 - d and bool_eval(ie, {"data": d, "init": i}) == i for d in (0, 1) for i in (0, 1))
            ck.ob("C15.2", "not", ok, "data' = !data, init' = init", where)
        except NotBitwise as ex:
            ck.fail("C15.2", "not", "unanalysable: %s" % ex, where)

    # ---- add / sub
    for op, path, callee, early_allowed in (("add", "<sim::mem::Word as std::ops::Add>::add", "wrapping_add", {"self": "r", "rhs": "l"}),
                                            ("sub", "<sim::mem::Word as std::ops::Sub>::sub", "wrapping_sub", {"self": "r"})):
        b = F.bodies.get(path)
        if not ck.anchor("C15.3", "Word::" + op, b):
            continue
        where = "src/sim/mem.rs:%s" % b.line
        try:
            bi, de, ie = result_fields(b, single_path=False)
        except NotBitwise as ex:
            ck.fail("C15.3", op, "unanalysable: %s" % ex, where)
            continue
        d = _unwrap_var(de)
        data_ok = d[0] == "call" and (d[1] or "").endswith("<impl u16>::" + callee) and "'ldata'" in repr(d[2][0]) and "'rdata'" in repr(d[2][1])
        ck.ob("C15.3", op + ":data", data_ok, "data' = ldata.%s(rdata)" % callee, where)
        # init is a two-definition local: ALL_BITS on the edge linit == ALL && rinit == ALL, NO_BITS otherwise
        iu = _unwrap_var(ie)
        rows = {}
        phi = None
        if iu[0] == "local":
            for (bj, sj, rv) in b.defs().get(iu[1], []):
                if sj == "term" or rv["k"] != "use":
                    continue
                val = interval(b.expr_of_operand(rv["op"]))
                for ex, lo, hi in panics.dominating_conditions(b, bj):
                    u = _unwrap_var(ex)
                    if u[0] == "local" and lo is not None and lo == hi:
                        rows[val[0] if val else None] = lo
                        phi = u[1]
        mask_ok = rows == {ALL: 1, 0: 0} and phi is not None and _and_of_eq_all(b, phi)
        ck.ob("C15.3", op + ":mask", mask_ok, "init' = ALL_BITS iff linit == ALL_BITS && rinit == ALL_BITS, else NO_BITS (definitions by condition: %s)" % rows, where)
        # early returns
        earlies = []
        for (bj, sj, rv) in b.defs().get(0, []):
            if sj == "term" or rv["k"] != "use":
                continue
            src = _unwrap_var(b.expr_of_operand(rv["op"]))
            if src[0] != "arg":
                earlies.append(("?", repr(src)[:60], []))
                continue
            conds = panics.dominating_conditions(b, bj)
            facts = sorted(set(_cond_fact(ex, lo, hi) for ex, lo, hi in conds if _cond_fact(ex, lo, hi)))
            earlies.append((src[2], facts))
        bad = []
        for e in earlies:
            who = e[0]
            if who not in early_allowed:
                bad.append("returns %s early" % who)
                continue
            o = early_allowed[who]
            need = [o + "data==0", o + "init==ALL"]
            if not all(n in e[1] for n in need):
                bad.append("returns %s under %s (needs %s)" % (who, e[1], need))
        ck.ob("C15.3", op + ":early-returns", not bad and len(earlies) == len(early_allowed),
              "early returns: %s%s" % (earlies, "; " + "; ".join(bad) if bad else ""), where)
    # assign impls delegate
    for p, via in (("<sim::mem::Word as std::ops::AddAssign>::add_assign", "Add>::add"), ("<sim::mem::Word as std::ops::AddAssign<u16>>::add_assign", "Add>::add"),
                   ("<sim::mem::Word as std::ops::AddAssign<i16>>::add_assign", "Add>::add"), ("<sim::mem::Word as std::ops::SubAssign>::sub_assign", "Sub>::sub"),
                   ("<sim::mem::Word as std::ops::SubAssign<u16>>::sub_assign", "Sub>::sub"), ("<sim::mem::Word as std::ops::SubAssign<i16>>::sub_assign", "Sub>::sub"),
                   ("<sim::mem::Word as std::ops::BitAndAssign>::bitand_assign", "BitAnd>::bitand")):
        b = F.bodies.get(p)
        if ck.anchor("C15.3", p, b):
            calls = [(c or "") for _, _, c, _ in b.calls()]
            ok = any(c.endswith("Word as std::ops::" + via) for c in calls)
            # the value combined is built with new_init / From (fully initialised)
            ck.ob("C15.3", "delegates:" + p.split(">::")[-1] + "/" + p.split("<")[2].split(">")[0] if p.count("<") > 1 else "delegates:" + p, ok, "%s delegates to %s (calls: %s)" % (p, via, [c.split("::")[-1] for c in calls]), "src/sim/mem.rs:%s" % b.line)
    # ---- R5 writers of init
    w = discharge._field_writers(F, W, "init")
    allowed = {"sim::mem::Word::set", "sim::mem::Word::clear_init"}
    ck.ob("C15.4", "init-writers", w <= allowed, "functions storing into Word.init: %s (aggregates: new_uninit, new_init, operators)" % sorted(w), "src/sim/mem.rs")
    builders = set()
    for p, b in F.bodies.items():
        if b.light:
            continue
        for bi, si, s in b.stmts():
            if s["k"] == "assign" and s["rv"]["k"] == "agg" and s["rv"].get("adt") == W:
                builders.add(p)
    allowed_b = {"sim::mem::Word::new_uninit", "sim::mem::Word::new_init", "<sim::mem::Word as std::ops::Not>::not", "<sim::mem::Word as std::ops::Add>::add",
                 "<sim::mem::Word as std::ops::Sub>::sub", "<sim::mem::Word as std::ops::BitAnd>::bitand"}
    ck.ob("C15.4", "word-builders", builders == allowed_b, "functions building a Word: %s" % sorted(builders), "src/sim/mem.rs")
    ni = F.bodies.get("sim::mem::Word::new_init")
    if ni is not None:
        r = repr([ni.expr_of_rvalue(s["rv"]) for bi, si, s in ni.stmts() if s["k"] == "assign" and s["rv"]["k"] == "agg"])
        ck.ob("C15.4", "new_init", "ALL_BITS" in r or "65535" in r, "new_init builds a fully initialised word", "src/sim/mem.rs:%s" % ni.line)
    ck.assume("Add/Sub are sound because a result is reported initialised only when both operands are fully initialised (coarse but sound); "
              "the early returns are identities (x + 0, 0 + x, x - 0) on every bit")


def _and_of_eq_all(b, l):
    """local l is the boolean `linit == ALL_BITS && rinit == ALL_BITS` (short-circuit lowering: the constant false on
    the edge where the first mask is not ALL_BITS, otherwise the result of the second comparison)"""
    defs = [(bj, sj, rv) for (bj, sj, rv) in b.defs().get(l, []) if sj != "term"]
    if len(defs) != 2:
        return False
    seen = set()
    ok_false = ok_cmp = False
    for bj, sj, rv in defs:
        conds = panics.dominating_conditions(b, bj)
        names = {}
        for ex, lo, hi in conds:
            if isinstance(ex, tuple) and ex[0] == "var" and ex[1] in ("linit", "rinit"):
                names[ex[1]] = (lo, hi)
        if rv["k"] == "use" and interval(b.expr_of_operand(rv["op"])) == (0, 0):
            # taken when the first mask is not ALL_BITS
            first = [n for n, (lo, hi) in names.items() if hi is not None and hi < ALL]
            if len(first) == 1:
                ok_false = True
                seen.add(first[0])
        elif rv["k"] == "bin" and rv["op"] == "Eq":
            l_, r_ = b.expr_of_operand(rv["l"]), b.expr_of_operand(rv["r"])
            if isinstance(l_, tuple) and l_[0] == "var" and l_[1] in ("linit", "rinit") and interval(r_) == (ALL, ALL):
                other = [n for n, (lo, hi) in names.items() if lo == ALL and hi == ALL]
                if len(other) == 1 and other[0] != l_[1]:
                    ok_cmp = True
                    seen.add(l_[1])
                    seen.add(other[0])
    return ok_false and ok_cmp and seen == {"linit", "rinit"}


def _cond_fact(ex, lo, hi):
    """normalise a dominating condition to 'ldata==0', 'rinit==ALL', ... (only equalities that hold)"""
    if isinstance(ex, tuple) and ex[0] == "var" and ex[1] in ("ldata", "rdata", "linit", "rinit") and lo is not None and lo == hi:
        return "%s==%s" % (ex[1], "ALL" if lo == ALL else lo)
    return None
