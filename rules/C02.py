"""C02 - Assembler accepts exactly the well-formed programs: no-panic clause (R3) and the shape
of the guards that produce each error kind (R4, interval-normalised)."""
from lib import r3, panics, nf
from lib.mir import short
import discharge

LEVEL = "other"
ENTRIES = ["asm::assemble", "asm::assemble_debug"]
KINDS = ["UndetAddrLabel", "UndetAddrStmt", "UnclosedOrig", "UnopenedOrig", "OverlappingOrig", "OverlappingLabels",
         "WrappingBlock", "BlockInIO", "OverlappingBlocks", "OffsetNewErr", "OffsetExternal", "CouldNotFindLabel"]


def kind_sites(F, reach):
    """{variant: [(body, block)]} for every AsmErrKind aggregate in reachable bodies"""
    out = {}
    for p in reach:
        b = F.bodies[p]
        if b.light:
            continue
        for bb in [b] + list(b.promoted):
            for bi, si, s in bb.stmts():
                if s["k"] == "assign" and s["rv"]["k"] == "agg" and s["rv"].get("adt") == "asm::AsmErrKind":
                    out.setdefault(s["rv"]["variant"], []).append((bb, bi))
            # function items used as constructors (map_err(AsmErrKind::OffsetNewErr))
            for bi, t, callee, raw in bb.calls():
                for a in t.get("args", []):
                    if a.get("k") == "const" and (a.get("fn") or "").startswith("asm::AsmErrKind::"):
                        out.setdefault(a["fn"].split("::")[-1], []).append((bb, bi))
    return out


def run(ck, ctx):
    F = ctx.F
    ck.rule("R3 from assemble/assemble_debug; R4: for each AsmErrKind the dominating branch conditions of its construction "
            "sites, normalised to intervals, equal the bounds the property states")
    ck.explanation = ("No-panic clause by panic reachability with discharge; guard clauses by dominator analysis of "
                      "Cursor::shift, add_label, replace_pc_offset, ranges_overlap and the neighbour-overlap check.")
    reach, sites = r3.run(ck, F, "C02.1", ENTRIES, discharge.TABLE, scope="C02", floor_sites=24, floor_bodies=50)

    rule = "C02.2"
    ks = kind_sites(F, reach)
    for k in KINDS:
        ck.ob(rule, "kind:" + k, len(ks.get(k, [])) >= (2 if k == "UndetAddrStmt" else 1),
              "%d construction site(s) of AsmErrKind::%s reachable from assemble*" % (len(ks.get(k, [])), k), "src/asm.rs")

    # --- Cursor::shift
    sh = F.bodies.get("asm::SymbolTable::new::Cursor::shift")
    if ck.anchor(rule, "Cursor::shift", sh):
        io_ok = False
        detail = []
        for bb, bi in ks.get("BlockInIO", []):
            if bb is not sh:
                continue
            for ex, lo, hi in panics.dominating_conditions(sh, bi):
                if "checked_add" in repr(ex) and "'Some'" in repr(ex) and lo is not None and hi is None:
                    detail.append("new_lc >= x%04X" % lo)
                    io_ok = io_ok or lo == 0xFE01
        ck.ob(rule, "shift:BlockInIO-bound", io_ok, "BlockInIO is produced on the edge %s (required: new_lc > xFE00)" % (detail or "?"),
              "src/asm.rs:%s" % sh.line)
        # success store self.lc = new_lc only for new_lc <= xFE00
        st_ok = False
        for bi, si, s in sh.stmts():
            if s["k"] == "assign" and any(isinstance(e, dict) and e.get("name") == "lc" for e in s["p"]["proj"]) and s["rv"]["k"] == "use":
                src = repr(sh.expr_of_operand(s["rv"]["op"]))
                if "checked_add" in src:
                    for ex, lo, hi in panics.dominating_conditions(sh, bi):
                        if "checked_add" in repr(ex) and "'Some'" in repr(ex) and hi == 0xFE00:
                            st_ok = True
        ck.ob(rule, "shift:accept-bound", st_ok, "lc is advanced only on the edge new_lc <= xFE00", "src/asm.rs:%s" % sh.line)
        # n == 0 is the identity
        t0 = sh.blocks[0]["term"]
        d0 = panics._unwrap_var(sh.expr_of_operand(t0["discr"])) if t0["k"] == "switch" else None
        ck.ob(rule, "shift:zero-identity", bool(d0) and d0[0] == "bin" and d0[1] == "Eq" and d0[2][0] == "arg" and d0[3] == ("const", 0, "u16"),
              "the first test of shift is n == 0 (returns Ok without touching the cursor)", "src/asm.rs:%s" % sh.line)
        # overflowed cursor -> WrappingBlock
        wr = False
        for bb, bi in ks.get("WrappingBlock", []):
            if bb is sh:
                for ex, lo, hi in panics.dominating_conditions(sh, bi):
                    if "'overflowed'" in repr(ex) and lo == 1:
                        wr = True
        ck.ob(rule, "shift:overflowed-wraps", wr, "WrappingBlock is produced when the cursor has already overflowed", "src/asm.rs:%s" % sh.line)
        # exact-fit x10000 -> BlockInIO (lc == n.wrapping_neg())
        ex_ok = False
        for bi, t in sh.terms("switch"):
            d = panics._unwrap_var(sh.expr_of_operand(t["discr"]))
            if d[0] == "bin" and d[1] == "Eq" and "wrapping_neg" in repr(d[3]) and "std::mem::take" in repr(d[2]):
                ex_ok = True
        ck.ob(rule, "shift:exact-fit", ex_ok, "on u16 overflow the test lc == n.wrapping_neg() separates BlockInIO (ends at x10000) from WrappingBlock",
              "src/asm.rs:%s" % sh.line)

    # --- ranges_overlap: half-open
    ro = F.bodies.get("asm::ranges_overlap")
    if ck.anchor(rule, "ranges_overlap", ro):
        cmps = []
        for bi, t, callee, raw in ro.calls():
            if callee and callee.split("::")[-1] in ("lt", "le", "gt", "ge"):
                args = [panics._unwrap_var(ro.expr_of_operand(a)) for a in t["args"]]
                names = []
                for a in args:
                    r = repr(a)
                    nm = [n for n in ("a_start", "a_end", "b_start", "b_end") if "'%s'" % n in r]
                    names.append(nm[0] if len(nm) == 1 else "?")
                cmps.append((callee.split("::")[-1], tuple(names)))
        want = {("lt", ("a_start", "b_end")), ("lt", ("b_start", "a_end"))}
        ck.ob(rule, "ranges_overlap:half-open", set(cmps) == want and len(cmps) == 2,
              "comparisons: %s (required: a_start < b_end && b_start < a_end)" % sorted(cmps), "src/asm.rs:%s" % ro.line)

    # --- add_label: conflict iff occupied and address differs
    al = F.bodies.get("asm::SymbolTable::new::add_label")
    if ck.anchor(rule, "add_label", al):
        # complete path condition of the block that builds the error (every decision on every path, positive form):
        # entry occupied (discriminant 0) and not (occupied.addr == addr parameter) - whatever the spelling of the test
        ok = False
        conds = []
        E = "HashMap::entry(arg1, to_uppercase(deref(arg2.name)))"
        for bb, bi in ks.get("OverlappingLabels", []):
            if bb is al:
                c = nf.complete_conds(al, bi)
                conds.append(c)
                ok = c == "Eq(OccupiedEntry::get(%s as Occupied.0).addr, arg3)=0 & discr(%s)=0" % (E, E)
        ck.ob(rule, "add_label:conflict", ok and len(conds) == 1, "OverlappingLabels is produced exactly when the entry is occupied and occupied.addr != addr: %s" % conds, "src/asm.rs:%s" % al.line)
        key_ok = any(callee and callee.endswith("<impl str>::to_uppercase") for _, _, callee, _ in al.calls())
        ck.ob(rule, "add_label:key-uppercase", key_ok, "the map key is label.name.to_uppercase()", "src/asm.rs:%s" % al.line)

    # --- replace_pc_offset
    rp = F.bodies.get("asm::replace_pc_offset")
    if ck.anchor(rule, "replace_pc_offset", rp):
        ext_ok = False
        for bb, bi in ks.get("OffsetExternal", []):
            if bb is rp:
                for ex, lo, hi in panics.dominating_conditions(rp, bi):
                    if "'external'" in repr(ex) and lo == 1:
                        ext_ok = True
        ck.ob(rule, "replace_pc_offset:external", ext_ok, "OffsetExternal is produced on the edge symbol.external == true", "src/asm.rs:%s" % rp.line)
        new_ok = False
        for bi, t, callee, raw in rp.calls():
            if callee == "ast::Offset::<OFF, N>::new":
                e = panics._unwrap_var(rp.expr_of_operand(t["args"][0]))
                if e[0] == "cast" and e[1] == "i16":
                    inner = panics._unwrap_var(e[2])
                    if inner[0] == "call" and (inner[1] or "").endswith("<impl u16>::wrapping_sub"):
                        a0, a1 = repr(inner[2][0]), repr(inner[2][1])
                        if "'addr'" in a0 and "'pc'" in a1 and "'pc'" not in a0:
                            new_ok = True
        ck.ob(rule, "replace_pc_offset:offset", new_ok, "the offset is IOffset::new((addr.wrapping_sub(pc)) as i16), operands in that order", "src/asm.rs:%s" % rp.line)

    # --- neighbour overlap check uses predecessor and successor
    on = F.bodies.get("asm::ObjectFile::new")
    if ck.anchor(rule, "ObjectFile::new", on):
        rng = []
        for bi, t, callee, raw in on.calls():
            if callee and callee.endswith("BTreeMap::<K, V, A>::range"):
                an, _ = panics._agg_name(on.expr_of_operand(t["args"][1]))
                rng.append(an)
        nb = any(callee and callee.endswith("DoubleEndedIterator>::next_back") for _, _, callee, _ in on.calls())
        nx = any(callee and "btree_map::Range" in callee and callee.endswith("Iterator>::next") for _, _, callee, _ in on.calls())
        ck.ob(rule, "overlap:both-neighbours", sorted(r or "?" for r in rng) == ["std::ops::RangeFrom", "std::ops::RangeToInclusive"] and nb and nx,
              "neighbour lookups: %s, next_back=%s next=%s" % (rng, nb, nx), "src/asm.rs:%s" % on.line)
        empty_skip = any(callee and callee.endswith("Vec::<T, A>::is_empty") for _, _, callee, _ in on.calls())
        ck.ob(rule, "overlap:empty-skipped", empty_skip, "empty blocks are skipped before the overlap check", "src/asm.rs:%s" % on.line)

    ck.ob(rule, "pass2-after-pass1", discharge.pass2_after_pass1(F), "ObjectFile::new is only called after SymbolTable::new returned Ok (both assemble fns)", "src/asm.rs")
    ck.include("C23", ctx, "C02.3", {"C23.1", "C23.2"}, "a defined label is found exactly when every declaration and every use fold case the same way")
    ck.include("C01", ctx, "C02.4", {"C01.4"}, "pass 1 bounds a block by the sum of word_len: the bound (BlockInIO / WrappingBlock, no overflow in pass 2) holds only if word_len is exactly what pass 2 appends")
    ck.assume("`src` given to assemble_debug is the text the AST was parsed from")
    ck.assume("the program was produced by the parser (string literals < 65535 bytes, labels built by Label::new)")
    ck.assume("'exactly when' as a whole (completeness of the conjunction of conditions) is not decided; each guard is")
