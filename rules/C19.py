"""C19 - Reading untrusted object files never panics (R3 with the untrusted discipline)."""
from lib import r3
import discharge

LEVEL = "other"
ENTRIES = [
    "<asm::encoding::BinaryFormat as asm::encoding::ObjFileFormat>::deserialize",
    "<asm::encoding::BinaryFormat as asm::encoding::ObjFileFormat>::serialize",
    "<asm::encoding::TextFormat as asm::encoding::ObjFileFormat>::deserialize",
    "<asm::encoding::TextFormat as asm::encoding::ObjFileFormat>::serialize",
    "asm::ObjectFile::link",
    "sim::Simulator::load_obj_file",
]


def run(ck, ctx):
    F = ctx.F
    ck.rule("R3 from the two deserializers, the two serializers, ObjectFile::link and Simulator::load_obj_file; discharges may "
            "not rely on invariants that only the assembler establishes (table entries carry a scope for that)")
    ck.explanation = ("Panic reachability with discharge (see C16) from the functions that consume object files of arbitrary "
                      "origin. Every field of ObjectFile/SymbolTable/DebugSymbols can hold any value the readers accept.")
    r3.run(ck, F, "C19.1", ENTRIES, discharge.TABLE, scope="C19", floor_sites=38, floor_bodies=70)
    ck.assume("unescaper 0.1.5 (read by hand: its single expect is guarded by a preceding from_str_radix check), std and logos are trusted")
    ck.assume("allocation failure on absurd length fields is out of scope (take_slice bounds every length by the input size before allocating)")
    # the loader's slice arithmetic (copy_obj_block: `chunk.len() as u16`) is panic-free because no reader can produce a block
    # of more than 65535 words: both readers take the block length through a u16 field
    ck.include("C18", ctx, "C19.2", {"C18.3"}, "the text reader's .TEXT block length is parsed as u16 (a wider type lets a file describe a block the loader cannot copy)")
    ck.include("C17", ctx, "C19.3", {"C17.1"}, "the binary reader's block length is a 2-byte field")
