"""C32 - Memory-mapped I/O reaches exactly the mapped register or device."""
from lib import panics, simx
from lib.panics import _unwrap_var, interval, _agg_name
import discharge, C06

LEVEL = "other"
SPEC = C06.SPEC
MM = SPEC["memory_map"]
DH = "sim::device::DeviceHandler"


def run(ck, ctx):
    F = ctx.F
    panics.FACTS = F
    ck.rule("R1: the port table covers xFE00..=xFFFF (DEVICE_SLOTS = x10000 - IO_START) and the device register constants are the ISA's; R5: io_ports is "
            "touched only by get_dev_id/set_port/remove_device, set_port stores only into a free slot an id < devices.len(), remove_device stores 0 "
            "and skips the fixed ids; add_device fails unless every port maps to Some(0) and pushes exactly one device whose id is the pre-push length; "
            "devices never shrinks (ids are never reused); R4: in read_mem/write_mem the internal-register lookup precedes the device dispatch, the "
            "mirror word is written only on Some(data)/success; mmap_internal rejects addr < xFE00 and occupied entries")
    ck.explanation = "Constants against the ISA memory map; ownership of the port table; dominance/guard analysis of the dispatch order."
    for cname, want in (("sim::device::KBSR", MM["KBSR"]), ("sim::device::KBDR", MM["KBDR"]), ("sim::device::DSR", MM["DSR"]), ("sim::device::DDR", MM["DDR"]),
                        ("sim::IO_START", MM["io_start"]), ("sim::USER_START", MM["user_start"]), ("sim::PSR_ADDR", MM["PSR"]), ("sim::MCR_ADDR", MM["MCR"]),
                        ("sim::device::DEVICE_SLOTS", 0x10000 - MM["io_start"])):
        c = F.consts.get(cname)
        ck.ob("C32.0", cname, bool(c) and c.get("val") == want, "%s = %s (required %d)" % (cname, c and c.get("val"), want), "src/sim")
    adt = F.adts.get(DH)
    if ck.anchor("C32.0", DH, adt):
        tys = {f["name"]: f["ty"] for v in adt["variants"] for f in v["fields"]}
        ck.ob("C32.0", "port-table-size", tys.get("io_ports") in ("std::boxed::Box<[u16; %d]>" % (0x10000 - MM["io_start"]), "std::boxed::Box<[u16; DEVICE_SLOTS]>"), "io_ports: %s (DEVICE_SLOTS checked above)" % tys.get("io_ports"), "src/sim/device.rs")
    gd = F.bodies.get("sim::device::_get_dev_id")
    if ck.anchor("C32.0", "_get_dev_id", gd):
        r = repr([gd.expr_of_operand(a, 8) for _, t, c, _ in gd.calls() for a in t["args"]])
        cs = [(c or "").split("::")[-1] for _, _, c, _ in gd.calls()]
        ck.ob("C32.0", "_get_dev_id", "checked_sub" in cs and "get" in cs and "IO_START" in r or ("checked_sub" in cs and "get" in cs and str(MM["io_start"]) in r),
              "_get_dev_id(port) = ports.get(port.checked_sub(IO_START)?) (None below xFE00): %s" % cs, "src/sim/device.rs:%s" % gd.line)
    # ---- ownership and bounds of the port table / device list
    ck.ob("C32.1", "io_ports-bounded", discharge.io_ports_bounded(F), "io_ports users are get_dev_id/set_port/remove_device; set_port stores dev_id only under dev_id < devices.len(); remove_device stores 0", "src/sim/device.rs")
    ck.ob("C32.3", "devices-never-shrink", discharge.devices_never_shrink(F), "no shrinking Vec method is applied to DeviceHandler.devices (ids are never reused)", "src/sim/device.rs")
    sp = F.bodies.get(DH + "::set_port")
    if ck.anchor("C32.1", "set_port", sp):
        free_only = False
        for bi, si, s in sp.stmts():
            if s["k"] == "assign" and s["p"]["proj"] == ["deref"] and sp.local_ty(s["p"]["l"]).startswith("&mut u16"):
                for ex, lo, hi in panics.dominating_conditions(sp, bi):
                    u = _unwrap_var(ex)
                    if u[0] == "deref" and lo == 0 and hi == 0 and "get_dev_id_mut" in repr(u):
                        free_only = True
        ck.ob("C32.1", "set_port:free-slot-only", free_only, "set_port stores only when the slot currently holds 0 (free)", "src/sim/device.rs:%s" % sp.line)
    nw = F.bodies.get(DH + "::new")
    if ck.anchor("C32.1", "DeviceHandler::new", nw):
        rows = sorted((interval(nw.expr_of_operand(t["args"][1])), interval(nw.expr_of_operand(t["args"][2]))) for _, t, c, _ in nw.calls() if (c or "").endswith("DeviceHandler::set_port"))
        want = sorted([((MM["KBSR"],) * 2, (1, 1)), ((MM["KBDR"],) * 2, (1, 1)), ((MM["DSR"],) * 2, (2, 2)), ((MM["DDR"],) * 2, (2, 2))])
        ck.ob("C32.1", "reserved-ports", rows == want, "new() reserves %s" % rows, "src/sim/device.rs:%s" % nw.line)
    rd = F.bodies.get(DH + "::remove_device")
    if ck.anchor("C32.1", "remove_device", rd):
        it = [bi for bi, t, c, _ in rd.calls() if (c or "").endswith("<impl [T]>::iter_mut")]
        ok = False
        if it:
            for ex, lo, hi in panics.dominating_conditions(rd, it[0]):
                if "<impl [T]>::contains" in repr(ex) and "FIXED_DEVS" in repr(ex) and hi == 0:
                    ok = True
        fx = F.bodies.get(DH + "::FIXED_DEVS")
        taken = any((c or "").endswith("std::mem::take") for _, _, c, _ in rd.calls())
        ck.ob("C32.1", "remove_device", ok and taken, "remove_device replaces the device by Null (mem::take) and frees its ports only when the id is not one of FIXED_DEVS", "src/sim/device.rs:%s" % rd.line)
    ad = F.bodies.get(DH + "::add_device")
    if ck.anchor("C32.2", "add_device", ad):
        where = "src/sim/device.rs:%s" % ad.line
        pushes = [(bi, t) for bi, t, c, _ in ad.calls() if (c or "").endswith("Vec::<T, A>::push")]
        lens = [(bi, t) for bi, t, c, _ in ad.calls() if (c or "").endswith("Vec::<T, A>::len")]
        alls = [bi for bi, t, c, _ in ad.calls() if (c or "").endswith("Iterator::all")]
        ok_order = len(pushes) == 1 and len(lens) == 1 and len(alls) == 1 and ad.dominates(lens[0][0], pushes[0][0]) and ad.dominates(alls[0], pushes[0][0])
        # Err(dev) on the !all edge
        errs = [bi for bi, si, s in ad.stmts() if s["k"] == "assign" and s["rv"]["k"] == "agg" and s["rv"].get("variant") == "Err"]
        guard = False
        for e in errs:
            for ex, lo, hi in panics.dominating_conditions(ad, e):
                if "Iterator::all" in repr(ex) and hi == 0:
                    guard = True
        okv = [s for bi, si, s in ad.stmts() if s["k"] == "assign" and s["rv"]["k"] == "agg" and s["rv"].get("variant") == "Ok"]
        id_ok = len(okv) == 1 and "'dev_id'" in repr(ad.expr_of_operand(okv[0]["rv"]["fields"][0], 4)) and "Vec::<T, A>::len" in repr(ad.expr_of_operand(okv[0]["rv"]["fields"][0], 12))
        pred_ok = False
        for p in F.children.get(ad.path, []):
            bb = F.bodies[p]
            for bi, si, s in bb.stmts():
                if s["k"] == "assign" and s["rv"]["k"] == "bin" and s["rv"]["op"] == "Eq" and interval(bb.expr_of_operand(s["rv"]["r"])) == (0, 0):
                    pred_ok = True
        sets = [t for bi, t, c, _ in ad.calls() if (c or "").endswith("DeviceHandler::set_port")]
        set_ok = len(sets) == 1 and "'dev_id'" in repr(ad.expr_of_operand(sets[0]["args"][2], 4))
        ck.ob("C32.2", "add_device", ok_order and guard and id_ok and pred_ok and set_ok,
              "add_device: all(ports map to Some(0)) checked before the single push (order=%s, Err on failure=%s), id = devices.len() before the push (%s), slot predicate d == 0 (%s), ports bound to that id (%s)" % (ok_order, guard, id_ok, pred_ok, set_ok), where)
    # ---- dispatch order in read_mem / write_mem
    for name, devcall, mirror in (("read_mem", "io_read", "Word::set"), ("write_mem", "io_write", "Word::set_if_init")):
        b = F.bodies.get("sim::Simulator::" + name)
        if not ck.anchor("C32.4", name, b):
            continue
        where = "src/sim.rs:%s" % b.line
        gets = [bi for bi, t, c, _ in b.calls() if (c or "").endswith("HashMap::<K, V, S, A>::get") and "'ireg_mmap'" in repr(b.expr_of_operand(t["args"][0], 6))]
        devs = [bi for bi, t, c, _ in b.calls() if (c or "").endswith("DeviceHandler as sim::device::ExternalDevice>::" + devcall)]
        ok = len(gets) == 1 and len(devs) == 1 and b.dominates(gets[0], devs[0])
        none_edge = False
        if ok:
            for ex, lo, hi in panics.dominating_conditions(b, devs[0]):
                if "HashMap::<K, V, S, A>::get" in repr(ex) and _unwrap_var(ex)[0] == "discr" and hi == 0:
                    none_edge = True
        io_only = False
        if gets:
            for ex, lo, hi in panics.dominating_conditions(b, gets[0]):
                u = _unwrap_var(ex)
                if u[0] == "arg" and u[2] == "addr" and lo == MM["io_start"]:
                    io_only = True
        ck.ob("C32.4", name + ":ireg-before-device", ok and none_edge and io_only,
              "for addr >= xFE00 (%s) the ireg_mmap lookup comes first and the device is consulted only on its None edge (%s)" % (io_only, none_edge), where)
        if name == "read_mem":
            sets = [bi for bi, t, c, _ in b.calls() if (c or "").endswith("Word::set")]
            good = len(sets) == 2
            dev_set = False
            for sb in sets:
                for ex, lo, hi in panics.dominating_conditions(b, sb):
                    if "io_read" in repr(ex) and _unwrap_var(ex)[0] == "discr" and lo == 1:
                        dev_set = True
            ck.ob("C32.4", "read_mem:mirror-only-on-data", good and dev_set, "the mirror word is refreshed only when the register/device returned Some(data)", where)
    mi = F.bodies.get("sim::Simulator::mmap_internal")
    if ck.anchor("C32.4", "mmap_internal", mi):
        errs = {}
        for bi, si, s in mi.stmts():
            if s["k"] == "assign" and s["rv"]["k"] == "agg" and s["rv"].get("adt") == "sim::MMapInternalErr":
                errs[s["rv"]["variant"]] = [(repr(_unwrap_var(ex))[:60], lo, hi) for ex, lo, hi in panics.dominating_conditions(mi, bi)]
        rng_ok = any("contains" in d and hi == 0 for d, lo, hi in errs.get("NotInIORange", []))
        occ_ok = "AddrAlreadyMapped" in errs and any((c or "").endswith("HashMap::<K, V, S, A>::entry") for _, _, c, _ in mi.calls())
        ins = [bi for bi, t, c, _ in mi.calls() if (c or "").endswith("VacantEntry::<'a, K, V, A>::insert")]
        ck.ob("C32.4", "mmap_internal", rng_ok and occ_ok and len(ins) == 1, "mmap_internal rejects addresses outside (IO_START..) and occupied entries, inserts only into a vacant entry", "src/sim.rs:%s" % mi.line)
    ck.include("C33", ctx, "C32.5", {"C33.3"}, "the standard devices answer exactly their own registers")
    ck.assume("an address mapped both to an internal register and a device is served by the internal register (documented limitation of mmap_internal)")
