"""C06 - Instruction decoding is the exact inverse of encoding (R1 + R2 + R9 over extracted tables)."""
import json, os
from lib import tables, bits, panics
from lib.bits import BV
import discharge

LEVEL = "proof"
SPEC = json.load(open(os.path.join(os.path.dirname(os.path.dirname(os.path.abspath(__file__))), "spec", "lc3_isa.json")))


def row_key(variant, sub):
    if sub in ("Imm", "bit=1") and variant in ("ADD", "AND", "JSR"):
        return variant + ".imm"
    if sub in ("Reg", "bit=0") and variant in ("ADD", "AND", "JSR"):
        return variant + ".reg"
    return variant


def enc_facts(row):
    """(field set, const-bit map, covered bits) of one encoder row"""
    fields = set()
    consts = {}
    cover = []
    problems = []
    for src, lo, hi in row["fields"]:
        cover.extend(range(lo, hi))
        if src[0] == "opcode":
            fields.add(("opcode", lo, hi))
        elif src[0] == "const":
            if src[1] >> (hi - lo):
                problems.append("constant %d does not fit bits %d..%d" % (src[1], lo, hi))
            for i in range(lo, hi):
                consts[i] = (src[1] >> (i - lo)) & 1
        elif src[0] == "reg":
            fields.add(("reg", src[1], lo, hi))
            if hi - lo != 3:
                problems.append("register field %d..%d is not 3 bits wide" % (lo, hi))
        elif src[0] == "off":
            kind = "simm" if src[2] == "i16" else "uimm"
            fields.add((kind, src[1], lo, hi))
            if hi - lo != src[3]:
                problems.append("Offset<%s, %d> written into %d bits (%d..%d)" % (src[2], src[3], hi - lo, lo, hi))
        elif src[0] == "cc":
            fields.add(("cc", src[1], lo, hi))
            if hi - lo != 3:
                problems.append("condition-code field %d..%d is not 3 bits wide" % (lo, hi))
        else:
            problems.append("unrecognised field source %r" % (src,))
    if sorted(cover) != list(range(16)):
        problems.append("bit ranges do not partition 0..16: %s" % sorted(cover))
    return fields, consts, problems


def spec_facts(key):
    f = SPEC["formats"][key]
    fields = set((x["kind"], x["pos"], x["lo"], x["hi"]) for x in f["fields"])
    fields.add(("opcode", 12, 16))
    consts = {}
    for c in f.get("consts", []):
        for i in range(c["lo"], c["hi"]):
            consts[i] = (c["val"] >> (i - c["lo"])) & 1
    return fields, consts


def check_encoder(ck, F, rule, enc, ops):
    """R1: opcode table and encoder rows against the ISA; returns {row key: (fields, consts, row)}"""
    # ---- R1 opcode table
    for v, n in sorted(SPEC["opcodes"].items()):
        ck.ob(rule, "opcode:" + v, ops.get(v) == n, "opcode(%s) = %s (ISA: %d)" % (v, ops.get(v), n), "src/ast/sim.rs")
    ck.ob(rule, "opcode:set", set(ops) == set(SPEC["opcodes"]), "variants with an opcode: %s" % sorted(ops), "src/ast/sim.rs")

    # ---- R1 encoder rows vs ISA
    enc_by_key = {}
    for r in enc:
        key = row_key(r["variant"], r["sub"])
        where = "src/ast/sim.rs:%s" % r["line"]
        if key in enc_by_key:
            ck.fail(rule, "enc-dup:" + key, "two encoder rows for %s" % key, where)
        fields, consts, problems = enc_facts(r)
        enc_by_key[key] = (fields, consts, r)
        ck.ob(rule, "enc-shape:" + key, not problems, "; ".join(problems) or "ranges partition the word, widths match operand types", where)
        if key not in SPEC["formats"]:
            ck.fail(rule, "enc-spec:" + key, "row %s is not an ISA format" % key, where)
            continue
        sf, sc = spec_facts(key)
        ck.ob(rule, "enc-spec:" + key, fields == sf and consts == sc,
              "encoder fields %s consts %s vs ISA fields %s consts %s" % (sorted(fields), consts, sorted(sf), sc), where,
              sample={"row": key, "fields": sorted(map(list, fields)), "const_bits": consts})
    ck.ob(rule, "enc-rows:set", set(enc_by_key) == set(SPEC["formats"]), "encoder rows: %s" % sorted(enc_by_key), "src/ast/sim.rs")

    return enc_by_key


def run(ck, ctx):
    F = ctx.F
    panics.FACTS = F
    ck.rule("R1: every row of SimInstr::encode (bit ranges partition the word; widths equal the operand types' widths; row equals the "
            "ISA row) and the opcode table equal spec/lc3_isa.json. R2: per (variant, sub-case) the decoder reads the same ranges into "
            "the same constructor positions with types of the same width, and asserts/selects exactly the encoder's constant bits "
            "(decodes iff canonical). R9: join_bits' closure and DecodeUtils::slice decided for every range in the tables.")
    ck.explanation = ("Tables are extracted from MIR expression trees (arguments of join_bits calls per match arm of encode; slice/interpret/"
                      "assert_equals calls per opcode arm of decode) and compared as sets of facts. With the leaf functions decided by R9 and "
                      "the Offset invariant (C35) the table agreement gives decode(encode(i)) = i and encode(decode(w)) = w.")
    ck.trusted = ["rustc MIR construction", "mirfacts", "rules/lib/tables.py extraction", "rules/lib/bits.py", "spec/lc3_isa.json (hand-written from the ISA)"]
    try:
        enc = tables.encoder_rows(F)
        ops = tables.opcode_table(F)
        dec = tables.decoder_rows(F)
    except tables.TableError as ex:
        ck.fail("C06.0", "tables", "obligation not established: %s" % ex)
        return
    ck.floor("C06.1", "encoder rows", len(enc), 18)
    ck.floor("C06.1", "opcode rows", len(ops), 15)
    ck.floor("C06.2", "decoder arms", len(dec["arms"]), 15)

    enc_by_key = check_encoder(ck, F, "C06.1", enc, ops)

    # ---- R2 decoder vs encoder
    seen = set()
    ck.ob("C06.2", "reserved-opcode", SPEC["reserved_opcode"] not in dec["arms"] and dec["default_err"] == "IllegalOpcode",
          "opcode %d has no arm; default arm returns Err(%s)" % (SPEC["reserved_opcode"], dec["default_err"]), "src/ast/sim.rs:%s" % dec["switch_line"])
    for opc, arm in sorted(dec["arms"].items()):
        names = set(b["variant"] for b in arm["builds"])
        for v in names:
            ck.ob("C06.2", "dec-opcode:%s" % v, ops.get(v) == opc, "arm %d builds %s whose opcode is %s" % (opc, v, ops.get(v)), "src/ast/sim.rs")
        for bld in arm["builds"]:
            v = bld["variant"]
            subs = sorted(set(f["sub"] for f in bld["fields"] if f["sub"]))
            cases = subs or [None]
            for sub in cases:
                key = row_key(v, sub)
                seen.add(key)
                where = "src/ast/sim.rs:%s" % bld["line"]
                if key not in enc_by_key:
                    ck.fail("C06.2", "dec-row:" + key, "decoder builds %s but the encoder has no such row" % key, where)
                    continue
                efields, econsts, erow = enc_by_key[key]
                dfields = set([("opcode", 12, 16)])
                probs = []
                for f in bld["fields"]:
                    if f["sub"] not in (None, sub):
                        continue
                    t = f["as"]
                    if t == "ast::Reg":
                        dfields.add(("reg", f["pos"], f["lo"], f["hi"]))
                    elif t == "u8":
                        dfields.add(("cc", f["pos"], f["lo"], f["hi"]))
                    elif t.startswith("ast::Offset<i16, "):
                        n = int(t.split(", ")[1].rstrip(">"))
                        dfields.add(("simm", f["pos"], f["lo"], f["hi"]))
                        if n != f["hi"] - f["lo"]:
                            probs.append("%d-bit slice interpreted as %s" % (f["hi"] - f["lo"], t))
                    elif t.startswith("ast::Offset<u16, "):
                        n = int(t.split(", ")[1].rstrip(">"))
                        dfields.add(("uimm", f["pos"], f["lo"], f["hi"]))
                        if n != f["hi"] - f["lo"]:
                            probs.append("%d-bit slice interpreted as %s" % (f["hi"] - f["lo"], t))
                    else:
                        probs.append("unrecognised consumer %s" % t)
                    want_wrap = {"ADD.imm": "Imm", "ADD.reg": "Reg", "AND.imm": "Imm", "AND.reg": "Reg", "JSR.imm": "Imm", "JSR.reg": "Reg"}.get(key)
                    if f["wrap"] is not None and f["wrap"] != want_wrap:
                        probs.append("sub-case %s builds ImmOrReg::%s" % (key, f["wrap"]))
                # constant bits: asserts of this sub-case + the selecting bit
                dconsts = {}
                for a in arm["asserts"]:
                    if a["sub"] in (None, sub):
                        for i in range(a["lo"], a["hi"]):
                            dconsts[i] = (a["val"] >> (i - a["lo"])) & 1
                        if a["val"] >> (a["hi"] - a["lo"]):
                            probs.append("assert_equals constant %d wider than its slice" % a["val"])
                if sub:
                    if len(arm["selects"]) != 1 or arm["selects"][0]["hi"] - arm["selects"][0]["lo"] != 1:
                        probs.append("sub-case selection is not a single-bit test: %s" % arm["selects"])
                    else:
                        dconsts[arm["selects"][0]["lo"]] = 1 if sub == "bit=1" else 0
                ok = dfields == efields and dconsts == econsts and not probs
                ck.ob("C06.2", "dec-row:" + key, ok,
                      "decoder fields %s consts %s vs encoder fields %s consts %s %s" % (sorted(dfields), dconsts, sorted(efields), econsts, "; ".join(probs)), where)
    ck.ob("C06.2", "dec-rows:set", seen == set(enc_by_key), "decoder rows %s vs encoder rows %s" % (sorted(seen), sorted(enc_by_key)), "src/ast/sim.rs")

    # assert_equals -> InvalidInstrFormat on the unequal edge
    ae = F.bodies.get("ast::sim::DecodeUtils::assert_equals")
    if ck.anchor("C06.2", "DecodeUtils::assert_equals", ae):
        good = False
        for bi, si, s in ae.stmts():
            if s["k"] == "assign" and s["rv"]["k"] == "agg" and s["rv"].get("adt") == "sim::SimErr":
                for ex, lo, hi in panics.dominating_conditions(ae, bi):
                    if "PartialEq::eq" in repr(ex) or "'Eq'" in repr(ex):
                        good = s["rv"]["variant"] == "InvalidInstrFormat" and hi == 0
        ck.ob("C06.2", "assert_equals:error", good, "assert_equals returns Err(InvalidInstrFormat) exactly on the unequal edge", "src/ast/sim.rs:%s" % ae.line)

    # ---- R9 leaf functions
    jb = F.bodies.get("ast::sim::join_bits::{closure#0}")
    sl = F.bodies.get("<u16 as ast::sim::DecodeUtils>::slice")
    ranges = sorted(set((lo, hi) for r in enc for _, lo, hi in r["fields"]))
    if ck.anchor("C06.3", "join_bits::{closure#0}", jb):
        try:
            e = bits.ret_expr(jb)
            for lo, hi in ranges:
                r = bits.ev(e, {"val": BV.sym("v", "u16"), "start": BV.const(lo, "usize"), "end": BV.const(hi, "usize")})
                ok = all(r.bits[i] == (("x", "v", i - lo) if lo <= i < hi else 0) for i in range(16))
                ck.ob("C06.3", "join_bits|%d..%d" % (lo, hi), ok, "closure(v, %d..%d) = %r" % (lo, hi, r), "src/ast/sim.rs:%s" % jb.line)
        except bits.Unanalysable as ex:
            ck.fail("C06.3", "join_bits", "unanalysable: %s" % ex, "src/ast/sim.rs:%s" % jb.line)
    par = F.bodies.get("ast::sim::join_bits")
    if ck.anchor("C06.3", "join_bits", par):
        fold_ok = False
        for bi, t, callee, raw in par.calls():
            if (callee or "").endswith("Iterator>::fold") or (callee or "").endswith("Iterator::fold"):
                init = panics.interval(par.expr_of_operand(t["args"][1]))
                f = t["args"][2]
                fold_ok = init == (0, 0) and "BitOr" in ((f.get("resolved") or {}).get("path") or f.get("fn") or "") + f.get("ty", "")
        ck.ob("C06.3", "join_bits:fold-or", fold_ok, "the fields are combined with fold(0, BitOr::bitor)", "src/ast/sim.rs:%s" % par.line)
    dranges = set([(12, 16)])
    for arm in dec["arms"].values():
        for a in arm["asserts"]:
            dranges.add((a["lo"], a["hi"]))
        for s_ in arm["selects"]:
            dranges.add((s_["lo"], s_["hi"]))
        for bld in arm["builds"]:
            for f in bld["fields"]:
                dranges.add((f["lo"], f["hi"]))
    if ck.anchor("C06.3", "DecodeUtils::slice", sl):
        try:
            e = bits.ret_expr(sl)
            for lo, hi in sorted(dranges):
                r = bits.ev(e, {"self": BV.sym("w", "u16"), "range.start": BV.const(lo, "usize"), "range.end": BV.const(hi, "usize")})
                ok = all(r.bits[i] == (("x", "w", i + lo) if i < hi - lo else 0) for i in range(16))
                ck.ob("C06.3", "slice|%d..%d" % (lo, hi), ok, "w.slice(%d..%d) = %r" % (lo, hi, r), "src/ast/sim.rs:%s" % sl.line)
        except bits.Unanalysable as ex:
            ck.fail("C06.3", "slice", "unanalysable: %s" % ex, "src/ast/sim.rs:%s" % sl.line)
    # FromBits impls
    for path, want in (("<ast::Offset<i16, N> as ast::sim::FromBits>::from_bits", ("i16",)),
                       ("<ast::Offset<u16, N> as ast::sim::FromBits>::from_bits", ("u16",))):
        b = F.bodies.get(path)
        if not ck.anchor("C06.3", path, b):
            continue
        try:
            e = panics._unwrap_var(bits.ret_expr(b))
        except bits.Unanalysable as ex:
            ck.fail("C06.3", path, str(ex))
            continue
        ok = e[0] == "call" and (e[1] or "").endswith("::new_trunc")
        if ok:
            a = panics._unwrap_var(e[2][0])
            if want[0] == "i16":
                ok = a[0] == "cast" and a[1] == "i16" and a[2][0] == "arg"
            else:
                ok = a[0] == "arg"
        ck.ob("C06.3", "from_bits:" + want[0], ok, "from_bits(bits) = Offset::new_trunc(bits%s) (sign/zero extension of the low N bits by C35)" % (" as i16" if want[0] == "i16" else ""),
              "src/ast/sim.rs:%s" % b.line)
    ck.ob("C06.3", "from_bits:Reg", discharge.reg_from_bits_ok(F, None),
          "Reg::from_bits is only applied to 3-bit slices and Reg::try_from maps 0..=7 to R0..R7", "src/ast/sim.rs")
    tf = F.bodies.get("<ast::Reg as std::convert::TryFrom<u8>>::try_from")
    if ck.anchor("C06.3", "Reg::try_from", tf):
        names = tables.variant_names(F, "ast::Reg")
        rows = {}
        for bi, t in tf.terms("switch"):
            for v, tb in t["values"]:
                for s in tf.blocks[tb]["stmts"]:
                    if s["k"] == "assign" and s["rv"]["k"] == "agg" and s["rv"].get("variant") == "Ok":
                        an, fs = panics._agg_name(tf.expr_of_operand(s["rv"]["fields"][0]))
                        if an == "ast::Reg":
                            rows[v] = panics._unwrap_var(tf.expr_of_operand(s["rv"]["fields"][0]))[2][1]
        ck.ob("C06.3", "Reg::try_from:rows", rows == {i: "R%d" % i for i in range(8)}, "Reg::try_from rows: %s" % rows, "src/ast.rs:%s" % tf.line)
        adt = F.adts.get("ast::Reg")
        ck.ob("C06.3", "Reg:discriminants", [v["discr"] for v in adt["variants"]] == list(range(8)) and [v["name"] for v in adt["variants"]] == ["R%d" % i for i in range(8)],
              "Reg discriminants: %s" % [(v["name"], v["discr"]) for v in adt["variants"]], "src/ast.rs")
    ck.assume("offsets stored in instructions satisfy the Offset invariant value == truncate(value, N) (C35: Offset is only built by new/new_trunc)")
    ck.assume("`cc` of BR is the low 3 bits of a u8 (values above 7 are not representable instructions)")
