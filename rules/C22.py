"""C22 - Linked debug info still points at the right source text (rebase clauses of DebugSymbols::link / ObjectFile::link)."""
import re
from lib import panics, shape, nf

LEVEL = "other"
DL = "asm::DebugSymbols::link"
OL = "asm::ObjectFile::link"
ITEM = "next(into_iter(arg2.sym as Some.0.label_map)) as Some.0"


def sep_literal(F):
    """the string literal(s) concatenated between the two sources in DebugSymbols::link (leaves of the from_string argument)"""
    b = F.bodies.get(DL)
    out = []
    if b is None:
        return out

    def walk(e):
        if isinstance(e, tuple) and e:
            if e[0] == "str" and len(e) == 2:
                out.append(e[1])
            for x in e:
                walk(x)
    for bi, t, c, _ in b.calls():
        if (c or "").endswith("SourceInfo::from_string"):
            walk(nf.XB(b).expr_of_operand(t["args"][0], 20, (bi, "term")))
    return out


def run(ck, ctx):
    F = ctx.F
    panics.FACTS = F
    ck.rule("R2/R6 rebase clauses. DebugSymbols::link: the line count of A is read before A's source is replaced; B's line blocks are inserted under key + that count "
            "(checked add, all of them, A's untouched); the joined text is A + sep + B with sep containing exactly one newline. ObjectFile::link: the label shift is "
            "len(A.src) + len(sep) when both sides carry debug symbols and 0 otherwise, computed before A's debug symbols are consumed; every SymbolData that "
            "originates from B and is stored into the result's label map (vacant insert, external-resolution insert) has src_start rebased by exactly that shift; "
            "A's entries are stored unchanged; DebugSymbols::link gets (A's, B's) in that order")
    ck.explanation = ("lines(a + \"\\n\" + b) = lines(a) + lines(b) and every position of b moves by len(a) + 1, so line i of B becomes line count_lines(a) + i and a label of B at p "
                      "moves to len(a) + 1 + p. The rule checks that the code applies exactly these two shifts to everything that comes from B (position-aware provenance on MIR).")
    b = F.bodies.get(DL)
    sep = sep_literal(F)
    if ck.anchor("C22.1", DL, b):
        where = "src/asm.rs:%s" % b.line
        got = nf.deep(F, DL)
        want = "Result::Ok(with_src_info(arg1, SourceInfo::from_string(Add(Add(arg1.src_info.src, str%r), deref(arg2.src_info.src)))))" % (sep[0] if sep else "?")
        ck.ob("C22.1", "joined-text", got == want and len(sep) == 1, "joined source = A.src + sep + B.src rebuilt through from_string (line index recomputed): %s" % got, where)
        ck.ob("C22.1", "separator-one-newline", len(sep) == 1 and sep[0].count("\n") == 1, "separator literal %r contains exactly one newline" % (sep,), where)
        cl = [bi for bi, t, c, _ in b.calls() if (c or "").endswith("SourceInfo::count_lines")]
        stores = [bi for bi, si, s in b.stmts() if s["k"] == "assign" and any(isinstance(e, dict) and e.get("name") == "src_info" for e in s["p"]["proj"])]
        stores += [bi for bi, t in b.terms("call") if any(isinstance(e, dict) and e.get("name") == "src_info" for e in (t.get("dest") or {}).get("proj", []))]
        ok = len(cl) == 1 and stores and all(b.dominates(cl[0], s) and s != cl[0] for s in stores)
        arg = nf.arg_x(b, [t for bi, t, c, _ in b.calls() if bi == cl[0]][0], 0, cl[0]) if cl else None
        ck.ob("C22.1", "count-before-replace", ok and arg == "arg1.src_info", "count_lines(%s) is taken (block %s) before A's src_info is overwritten (blocks %s)" % (arg, cl, stores), where)
        ext = [(bi, t) for bi, t, c, _ in b.calls() if shape.short_callee(c) == "extend"]
        ok = False
        detail = "?"
        if len(ext) == 1:
            bi, t = ext[0]
            a0, a1 = nf.arg_x(b, t, 0, bi), nf.arg_x(b, t, 1, bi)
            cls = [c for c in F.children.get(DL, [])]
            inner = nf.deep(F, cls[0]) if len(cls) == 1 else "?"
            k = "checked_add(@entry{SourceInfo::count_lines(arg1.src_info)}, arg2.0)"
            want_inner = "[fail(%s)] => propagate(%s) ; [ok(%s)] => Option::Some(tuple(try(%s), arg2.1))" % (k, k, k, k)
            inner = inner.replace("local1.src_info", "arg1.src_info")
            ok = a0 == "arg1.line_map.0" and a1.startswith("Iterator::filter_map(into_iter(arg2.line_map.0), ") and inner == want_inner
            detail = "%s.extend(%s) with per-block map %s" % (a0, a1[:60], inner)
        ck.ob("C22.1", "line-blocks-shifted", ok, "every line block (k, v) of B is added to A's map as (k + count_lines(A), v): %s" % detail, where)
    # ---------------- ObjectFile::link
    lb = F.bodies.get(OL)
    if not ck.anchor("C22.2", OL, lb):
        return
    where = "src/asm.rs:%s" % lb.line
    D = 40
    # the shift
    sat = [(bi, t) for bi, t, c, _ in lb.calls() if (c or "").endswith("::saturating_add") or (c or "").endswith("::checked_add") or (c or "").endswith("::wrapping_add")]
    shifts = set()
    for bi, t in sat:
        a0 = nf.arg_x(lb, t, 0, bi, D)
        if a0 == ITEM + ".1.src_start":
            shifts.add(nf.arg_x(lb, t, 1, bi, D))
    shift = next(iter(shifts)) if len(shifts) == 1 else None
    both = "discr(arg2.sym as Some.0.debug_symbols) in [1,1] & discr(arg1.sym as Some.0.debug_symbols) in [1,1]"
    ok = False
    if shift:
        s2 = re.sub(r"local\d+\.debug_symbols", "arg1.sym as Some.0.debug_symbols", shift)
        m = re.match(r"^phi\{(.*)\}$", s2)
        alts = [a.strip() for a in m.group(1).split(" | ")] if m else []
        vals = {}
        for a in alts:
            c, _, v = a.rpartition(" => ")
            vals.setdefault(v, []).append(c)
        n = len(sep[0]) if len(sep) == 1 else None
        want_v = "Add(%s, String::len(arg1.sym as Some.0.debug_symbols as Some.0.src_info.src))" % n
        ok = set(vals) == {"0", want_v} and vals.get(want_v) == [both] and all(c == "else" or "[0,0]" in c for c in vals.get("0", []))
    ck.ob("C22.2", "shift-value", ok, "label shift = len(A.src) + len(sep) exactly when both files carry debug symbols, else 0: %s" % shift, where)
    ln = [bi for bi, t, c, _ in lb.calls() if (c or "").endswith("String::len")]
    dl = [(bi, t) for bi, t, c, _ in lb.calls() if (c or "") == DL]
    lna = [nf.arg_x(lb, t, 0, bi, D) for bi, t, c, _ in lb.calls() if (c or "").endswith("String::len")]
    ok = len(ln) == 1 and len(dl) == 1 and not lb.can_reach(dl[0][0], ln[0]) and ln[0] != dl[0][0] and lna == ["arg1.sym as Some.0.debug_symbols as Some.0.src_info.src"]
    ck.ob("C22.2", "shift-before-consume", ok, "len(%s) is read (block %s) from A's own source and never after DebugSymbols::link has consumed A's debug symbols (block %s)" % (lna, ln, [x[0] for x in dl]), where)
    if dl:
        a0, a1 = nf.arg_x(lb, dl[0][1], 0, dl[0][0], D), nf.arg_x(lb, dl[0][1], 1, dl[0][0], D)
        ck.ob("C22.2", "link-order", a0 == "arg1.sym as Some.0.debug_symbols as Some.0" and a1 == "arg2.sym as Some.0.debug_symbols as Some.0",
              "DebugSymbols::link(A's, B's): (%s, %s)" % (a0, a1), where)
    # every stored SymbolData that comes from B is rebased
    ins = [(bi, t, shape.short_callee(c)) for bi, t, c, _ in lb.calls() if shape.short_callee(c) in ("VacantEntry::insert", "OccupiedEntry::insert", "HashMap::insert")]
    ck.floor("C22.2", "label stores in link", len(ins), 2)
    for bi, t, sc in ins:
        v = nf.arg_x(lb, t, 1, bi, D)
        reb = "with_src_start(%s.1, saturating_add(%s.1.src_start, %s))" % (ITEM, ITEM, shift)
        # the same value spelled as a struct copy: SymbolData { src_start: <rebased>, ..b }
        reb2 = "SymbolData(%s.1.addr, saturating_add(%s.1.src_start, %s), %s.1.external)" % (ITEM, ITEM, shift, ITEM)
        rest = v.replace(reb, "REBASED(B)").replace(reb2, "REBASED(B)") if shift else v
        # A's own entry may be stored back unchanged
        rest2 = re.sub(r"OccupiedEntry::get\(HashMap::entry\([^|]*? as Occupied\.0\)(?![.\w])", "A-ENTRY", rest)
        leaked = ITEM + ".1" in re.sub(r"REBASED\(B\)\.\w+", "", rest).replace("REBASED(B)", "") or "with_" in rest.replace("with_debug_symbols", "").replace("with_rel_map", "")
        short = rest2 if len(rest2) < 400 else rest2[:400] + "..."
        ck.ob("C22.2", "rebased:%s@%s" % (sc, "vacant" if sc.startswith("Vacant") else "occupied"), shift is not None and not leaked and "REBASED(B)" in rest,
              "value stored by %s: %s" % (sc, short), "src/asm.rs:%s" % t["line"])
    ck.include("C25", ctx, "C22.3", {"C25.1"}, "count_lines/from_string/line spans of the joined source")
    ck.include("C24", ctx, "C22.4", {"C24.3", "C24.4"}, "line lookups on the merged line map")
    ck.assume("count_lines and from_string are C25's; that B's line numbers and label positions were right before the link is C24/C23")
    ck.assume("the text identity lines(a + sep + b) = lines(a) + lines(b) for a one-newline separator is the counting argument of DESIGN.md C22")
    ck.assume("labels resolved in favour of A's definition keep A's position (A's text is a prefix of the joined text)")
