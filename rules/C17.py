"""C17 - Binary object format round-trips every object file (R2: writer/reader codec tables)."""
import re
from lib import codec, panics, nf
from lib.panics import _unwrap_var, interval

LEVEL = "other"


def norm_int(e):
    w = {"u8": 1, "i8": 1, "u16": 2, "i16": 2, "u32": 4, "u64": 8, "usize": 8}.get(e["ty"])
    return ("int", e["ty"] if w != 1 else "byte", e["endian"] if w != 1 else "-")



def reader_rejections(b):
    """why a deserializer returns None: ('propagate', callee whose failure is propagated by `?`) and
    ('explicit', normal form of the nearest dominating test) for every `None` it builds itself"""
    xb = nf.XB(b)
    out = []
    order = lambda d: len(b.dominators().get(d, ()))
    for bi, si, s in b.stmts():
        if s["k"] == "assign" and s["p"]["l"] == 0 and not s["p"]["proj"] and s["rv"]["k"] == "agg" and s["rv"].get("variant") == "None":
            d0 = "?"
            for d in sorted(b.dominators().get(bi, ()), key=order, reverse=True):
                tt = b.blocks[d]["term"]
                if tt["k"] == "switch" and d != bi:
                    d0 = nf.anon_locals(nf.pp_x(xb.expr_of_operand(tt["discr"], 3, (d, "term"))))
                    break
            out.append(("explicit", d0))
    for bi, t, c, _ in b.calls():
        if (c or "").endswith("from_residual"):
            last = "?"
            for d in sorted(b.dominators().get(bi, ()), key=order):
                tt = b.blocks[d]["term"]
                if tt["k"] == "call" and (tt["func"].get("fn") or "").endswith("Try::branch"):
                    last = nf.pp_x(xb.expr_of_operand(tt["args"][0], 3, (d, "term"))).split("(")[0]
            out.append(("propagate", last))
    return out


def run(ck, ctx):
    F = ctx.F
    panics.FACTS = F
    ck.rule("R2: for each of the 5 chunk tags the ordered list of wire fields written by BinaryFormat::serialize equals the list read by "
            "deserialize: integer type, width and byte order per field; variable-length tails governed by the immediately preceding length "
            "field on both sides, with the reader's byte count computed in usize as K * len for K-byte records; record formats (xFF + u16 / "
            "000000; u16) agree; each wire field carries the same model field on both sides; every model field is written and rebuilt.")
    ck.explanation = ("Codec tables are extracted from MIR (calls on the output Vec in serialize ordered by dominance under each tag push; "
                      "take/from_*_bytes/take_slice/map_chunks calls per match arm of deserialize) and compared field by field.")
    try:
        wt, wb = codec.writer_table(F)
        rt, rb, sw = codec.reader_table(F)
    except codec.CodecError as ex:
        ck.fail("C17.0", "tables", "obligation not established: %s" % ex)
        return
    ck.floor("C17.1", "writer chunk tags", len(wt), 5)
    ck.floor("C17.1", "reader chunk tags", len(rt), 5)
    ck.ob("C17.1", "tags", set(wt) == set(rt) == {0, 1, 2, 3, 4}, "writer tags %s, reader tags %s" % (sorted(wt), sorted(rt)), "src/asm/encoding.rs")
    # unknown tag -> None
    # magic / version referenced on both sides
    wtxt = repr([wb.expr_of_operand(a) for _, t, c, _ in wb.calls() for a in t.get("args", [])])
    rtxt = repr([rb.expr_of_operand(a) for _, t, c, _ in rb.calls() for a in t.get("args", [])])
    for const in ("BFMT_MAGIC", "BFMT_VER"):
        ck.ob("C17.1", "header:" + const, ("asm::encoding::" + const) in wtxt and ("asm::encoding::" + const) in rtxt and "strip_prefix" in repr([c for _, _, c, _ in rb.calls()]),
              "%s is written first and stripped first" % const, "src/asm/encoding.rs")
    nfields = 0
    for tag in sorted(set(wt) & set(rt)):
        w, r = wt[tag], rt[tag]
        where = "src/asm/encoding.rs:%s" % w["line"]
        wf = w["fixed"]
        revents = r["events"]
        w_ints = [norm_int(e) for e in wf if e["kind"] == "int"]
        r_ints = [norm_int(e) for e in revents if e["kind"] == "int"]
        nfields += len(w_ints)
        ck.ob("C17.1", "tag%d:fixed-fields" % tag, w_ints == r_ints and all(e.get("from_take") for e in revents if e["kind"] == "int"),
              "writer %s vs reader %s" % (w_ints, r_ints), where,
              sample={"tag": tag, "writer": w_ints, "reader": r_ints})
        unknown = [e for e in wf + w["records"] if e["kind"] == "unknown"]
        ck.ob("C17.1", "tag%d:recognised" % tag, not unknown, "unrecognised writer emits: %s" % [e.get("what") for e in unknown], where)
        # order: every int precedes the tail on both sides
        w_tail = [e for e in wf if e["kind"] == "raw"]
        r_slices = [e for e in revents if e["kind"] == "slice"]
        r_recs = [e for e in revents if e["kind"] == "records"]
        last_int_w = [e for e in wf if e["kind"] == "int"][-1] if w_ints else None
        last_int_r_idx = max([i for i, e in enumerate(revents) if e["kind"] == "int"], default=None)
        has_tail = bool(w_tail) or bool(w["records"])
        ck.ob("C17.2", "tag%d:tail-present" % tag, has_tail == bool(r_slices) and len(r_slices) <= 1 and len(w_tail) <= 1,
              "writer tail: raw=%d records=%d; reader slices=%d" % (len(w_tail), len(w["records"]), len(r_slices)), where)
        if has_tail and r_slices and last_int_w is not None:
            # writer: the last fixed int is the length of the object the tail is taken from
            src = last_int_w.get("src")
            tail_src = w_tail[0]["src"] if w_tail else None
            w_ok = isinstance(src, tuple) and src[0] == "len" and (tail_src is None or src[1] == tail_src) and wf.index(last_int_w) == len([e for e in wf if e["kind"] == "int"]) - 1
            # reader: slice length = (K *) widen(last int), in usize
            ln = r_slices[0]["len"]
            k = None
            base = ln
            if ln[0] == "field" and ln[1][0] == "bin" and ln[1][1] == "MulWithOverflow" and ln[1][4] == "usize":
                kv = interval(ln[1][2])
                k = kv[0] if kv and kv[0] == kv[1] else None
                base = ln[1][3]
            elif ln[0] == "cast" and ln[1] == "usize":
                k = 1
            else:
                base = None
            idx = codec.event_index_of(rb, base, revents) if base is not None else None
            r_ok = idx is not None and idx == last_int_r_idx and revents.index(r_slices[0]) > idx
            ck.ob("C17.2", "tag%d:length-governs-tail" % tag, w_ok and r_ok,
                  "writer: last fixed field is %s, tail from %s; reader: slice length = %s x field #%s computed in usize (last int is #%s)" % (src, tail_src, k, idx, last_int_r_idx), where)
            # record size
            if w["records"]:
                alts = record_alternatives(wb, w["records"])
                sizes = set(sum(sz for _, sz in alt) for alt in alts)
                rsz = r_recs[0]["size"] if r_recs else None
                ck.ob("C17.2", "tag%d:record-size" % tag, len(sizes) == 1 and rsz in sizes and k == rsz,
                      "writer record alternatives %s; reader map_chunks::<_, %s> over %s x len bytes" % (alts, rsz, k), where)
                ck.ob("C17.2", "tag%d:record-format" % tag, record_format_ok(F, rb, alts, r_recs[0] if r_recs else None),
                      "writer record %s vs reader %s" % (alts, r_recs[0]["how"] if r_recs else None), where)
            else:
                ck.ob("C17.2", "tag%d:raw-bytes" % tag, k == 1 and not r_recs, "raw tail of exactly len bytes (reader K=%s)" % k, where)
        # semantic positions
        sem_ok, sem = semantics(rb, tag, w, r)
        ck.ob("C17.3", "tag%d:model-fields" % tag, sem_ok, sem, where)
    ck.floor("C17.1", "fixed wire fields", nfields, 11)

    # model coverage on the writer side: every model field is read by serialize (or recomputed by the reader)
    import discharge
    for adt, field, note in (("asm::ObjectFile", "sym", ""), ("asm::SymbolTable", "label_map", ""), ("asm::SymbolTable", "rel_map", ""),
                             ("asm::SymbolTable", "debug_symbols", ""), ("asm::DebugSymbols", "line_map", ""), ("asm::DebugSymbols", "src_info", ""),
                             ("asm::SourceInfo", "src", "")):
        users = discharge.field_users(F, adt, field)
        ck.ob("C17.4", "written:%s.%s" % (adt.split("::")[-1], field), codec.SER in users, "serialize reads %s.%s" % (adt, field), "src/asm/encoding.rs")
    ck.ob("C17.4", "written:ObjectFile.block_map", any((c or "").endswith("ObjectFile::block_iter") for _, _, c, _ in wb.calls()), "serialize iterates block_iter()", "src/asm/encoding.rs")
    # reader rebuilds: the final aggregates are built from the very maps the chunk arms fill
    def var_ids(e, acc):
        if isinstance(e, tuple):
            if e and e[0] == "var" and len(e) > 3:
                acc.add((e[1], e[3]))
            for x in e:
                if isinstance(x, tuple):
                    var_ids(x, acc)
    filled = {}
    for tag, r in rt.items():
        for bi, t, c in r["uses"]:
            acc = set()
            var_ids(rb.expr_of_operand(t["args"][0], 10), acc)
            filled[tag] = acc
    final = {}
    for bi, si, s in rb.stmts():
        if s["k"] == "assign" and s["rv"]["k"] == "agg" and (s["rv"].get("adt") or "") in ("asm::ObjectFile", "asm::SymbolTable", "asm::DebugSymbols"):
            d = {}
            for name, f in zip(s["rv"]["field_names"], s["rv"]["fields"]):
                acc = set()
                e = rb.expr_of_operand(f, 10)
                var_ids(e, acc)
                d[name] = (acc, repr(e)[:400])
            final[s["rv"]["adt"]] = d

    def same_var(adt, field, tag, also=None):
        got = final.get(adt, {}).get(field)
        if got is None:
            return False
        names = set(n for n, _ in filled.get(tag, set()))
        ok = bool(got[0] & filled.get(tag, set())) or (also is not None and also in got[1] and bool(set(n for n, _ in got[0]) & names))
        return ok
    checks = [("asm::ObjectFile", "block_map", 0, None), ("asm::SymbolTable", "label_map", 1, None), ("asm::SymbolTable", "rel_map", 4, None),
              ("asm::DebugSymbols", "line_map", 2, "asm::LineSymbolMap::from_blocks"), ("asm::DebugSymbols", "src_info", 3, "asm::SourceInfo::from_string")]
    for adt, field, tag, also in checks:
        got = final.get(adt, {}).get(field)
        r_ = got[1] if got else ""
        if also:
            ok = got is not None and also in r_ and "debug_sym" in r_
        else:
            ok = same_var(adt, field, tag)
        ck.ob("C17.4", "rebuilt:%s.%s" % (adt.split("::")[-1], field), ok,
              "%s.%s is rebuilt from what the tag-%d arm collects%s" % (adt, field, tag, " via " + also if also else ""), "src/asm/encoding.rs")
    for adt, fields in (("asm::ObjectFile", {"block_map", "sym"}), ("asm::SymbolTable", {"label_map", "rel_map", "debug_symbols"}), ("asm::DebugSymbols", {"line_map", "src_info"})):
        ck.ob("C17.4", "rebuilt-fields:" + adt.split("::")[-1], set(final.get(adt, {})) == fields, "%s built with fields %s" % (adt, sorted(final.get(adt, {}))), "src/asm/encoding.rs")
    ck.ob("C17.4", "nl_indices-recomputed", discharge.source_info_inv(F), "SourceInfo.nl_indices is never serialised; it is recomputed by from_string on both paths", "src/asm.rs")
    # C17.5: the reader may refuse input only for the reasons it has at the pinned commit - short input (take/take_slice),
    # a wrong magic/version, invalid UTF-8, an unknown block tag, an unsorted or overlapping line table.  Any further
    # refusal (a range check on a block, a length limit) rejects files the writer produces.
    db = F.bodies.get("<asm::encoding::BinaryFormat as asm::encoding::ObjFileFormat>::deserialize")
    if ck.anchor("C17.5", "BinaryFormat::deserialize", db):
        rj = reader_rejections(db)
        prop = set(k for t_, k in rj if t_ == "propagate")
        expl = sorted(k for t_, k in rj if t_ == "explicit")
        allowed = {"strip_prefix", "take", "take_slice", "Result::ok", "assert_sorted_no_dup", "LineSymbolMap::from_blocks"}
        ck.ob("C17.5", "reader-refusals", prop <= allowed and len(expl) == 1 and expl[0].startswith("split_first("),
              "the binary reader returns None only for: failures of %s and %d explicit None under %s (allowed: %s and the unknown-tag arm)" % (sorted(prop), len(expl), expl, sorted(allowed)),
              "src/asm/encoding.rs:%s" % db.line)
    ck.include("C24", ctx, "C17.4", {"C24.1", "C24.2"}, "the reader's strictly-increasing validator accepts what the producer records")
    ck.assume("an empty symbol table without debug symbols is read back as `sym: None` (not producible by assemble*/link of assembled files)")
    ck.assume("the reader's validators accept what producers emit: strictly increasing addresses per line block (C24)")
    ck.assume("HashMap/BTreeMap insertions with distinct keys reproduce the maps (keys are unique in a map by construction)")


def record_alternatives(wb, recs):
    """group in-loop emits by block-dominance into alternative branches; each alternative is a list of (kind, size)"""
    def sz(e):
        if e["kind"] == "const-byte":
            return 1
        if e["kind"] == "const-bytes":
            return len(e["val"] or [])
        if e["kind"] == "int":
            return {"u8": 1, "u16": 2, "u32": 4, "u64": 8}.get(e["ty"], 0)
        return 0
    recs = sorted(recs, key=lambda e: e["depth"])
    alts = []
    for e in recs:
        placed = False
        for alt in alts:
            if all(wb.dominates(x["block"], e["block"]) or wb.dominates(e["block"], x["block"]) for x, _ in alt):
                alt.append((e, sz(e)))
                placed = True
                break
        if not placed:
            alts.append([(e, sz(e))])
    out = []
    for alt in alts:
        out.append([(("byte=%s" % e["val"]) if e["kind"] == "const-byte" else ("bytes=%s" % e["val"]) if e["kind"] == "const-bytes" else "%s/%s" % (e["ty"], e["endian"]), s) for e, s in alt])
    return out


def record_format_ok(F, rb, alts, rrec):
    if rrec is None:
        return False
    how = rrec["how"]
    flat = sorted(map(str, alts))
    if how and how[0] == "fn":
        m = re.search(r"<impl (\w+)>::from_(le|be)_bytes$", how[1])
        return bool(m) and alts == [[("%s/%s" % (m.group(1), m.group(2)), rrec["size"])]]
    if how and how[0] == "closure":
        cl = F.bodies.get(how[1])
        if cl is None:
            return False
        marker = None
        marker_pos = None
        for bi, t, c, _ in cl.calls():
            if (c or "").endswith("<impl bool>::then"):
                d = _unwrap_var(cl.expr_of_operand(t["args"][0]))
                if d[0] == "bin" and d[1] == "Eq":
                    iv = interval(d[3])
                    lhs = _unwrap_var(d[2])
                    if iv and iv[0] == iv[1] and lhs[0] == "cindex":
                        marker, marker_pos = iv[0], lhs[2]
        inner = None
        for path, body in F.bodies.items():
            if path.startswith(how[1] + "::{closure"):
                for _, _, c, _ in body.calls():
                    m = re.search(r"<impl (\w+)>::from_(le|be)_bytes$", c or "")
                    if m:
                        inner = "%s/%s" % (m.group(1), m.group(2))
        if marker_pos != 0:
            return False
        if marker is None or inner is None:
            return False
        want_some = [("byte=%d" % marker, 1), (inner, 2)]
        some = [a for a in alts if a and a[0][0].startswith("byte=")]
        none = [a for a in alts if a and a[0][0].startswith("bytes=")]
        # the uninitialised record must not start with the marker
        none_ok = len(none) == 1 and ("bytes=[%s" % marker) not in none[0][0][0]
        return len(some) == 1 and some[0] == want_some and none_ok and len(alts) == 2
    return False


def semantics(rb, tag, w, r):
    """each wire field carries the same model field on both sides"""
    wf = [e for e in w["fixed"] if e["kind"] == "int"]
    ev = r["events"]
    msgs = []
    ok = True
    if tag == 1:
        agg = [s for (x, s) in r["aggs"] if s["rv"]["adt"] == "asm::SymbolData"]
        if len(agg) != 1:
            return False, "SymbolData aggregate not found in the reader arm"
        s = agg[0]
        for name, f in zip(s["rv"]["field_names"], s["rv"]["fields"]):
            idx = codec.event_index_of(rb, rb.expr_of_operand(f, 14), ev)
            wsrc = wf[idx]["src"] if idx is not None and idx < len(wf) else None
            good = wsrc == ("field", name)
            ok = ok and good
            msgs.append("SymbolData.%s <- wire field #%s (writer puts %s there)" % (name, idx, wsrc))
        raw = [e for e in w["fixed"] if e["kind"] == "raw"]
        ins = [(bi, t, c) for bi, t, c in r["uses"] if c.endswith("::insert")]
        key_ok = bool(raw) and raw[0]["src"] == ("item", 0) and len(ins) == 1 and "from_utf8" in repr(rb.expr_of_operand(ins[0][1]["args"][1], 14))
        ok = ok and key_ok
        msgs.append("map key <- the raw string (writer: %s)" % ((raw[0]["src"] if raw else None),))
        return ok, "; ".join(msgs)
    if tag in (0, 2, 4):
        ins = [(bi, t, c) for bi, t, c in r["uses"] if c.endswith("::insert")]
        if len(ins) != 1:
            return False, "expected exactly one map insert in the arm, found %d" % len(ins)
        t = ins[0][1]
        kidx = codec.event_index_of(rb, rb.expr_of_operand(t["args"][1], 14), ev)
        val = repr(rb.expr_of_operand(t["args"][2], 14))
        wkey = wf[0]["src"] if wf else None
        val_ok = ("map_chunks" in val) if tag in (0, 2) else ("from_utf8" in val)
        tail_src = None
        if tag == 4:
            raw = [e for e in w["fixed"] if e["kind"] == "raw"]
            tail_src = raw[0]["src"] if raw else None
            val_ok = val_ok and tail_src == ("item", 1)
        else:
            val_ok = val_ok and wf[-1]["src"] == ("len", ("item", 1))
        good = kidx == 0 and wkey == ("item", 0) and val_ok
        return good, "map key <- wire field #%s (writer: %s); value <- %s" % (kidx, wkey, "records" if tag != 4 else "raw string %s" % (tail_src,))
    if tag == 3:
        ps = [(bi, t, c) for bi, t, c in r["uses"] if c.endswith("push_str")]
        raw = [e for e in w["fixed"] if e["kind"] == "raw"]
        good = len(ps) == 1 and "from_utf8" in repr(rb.expr_of_operand(ps[0][1]["args"][1], 14)) and bool(raw) and raw[0]["src"] == ("field", "src")
        return good, "source text <- raw bytes (writer: %s)" % ((raw[0]["src"] if raw else None),)
    return False, "unknown tag"
