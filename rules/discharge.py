"""D-TABLE / D-INV: reviewed discharges of panic-capable sites that the automatic interval and
guard analysis (rules/lib/panics.py) cannot decide.  Key = `<function def-path>|<assert|call>|<what>`.

Every entry names how many sites with that key it covers (`n`), a one-line reason, and where
possible a `when` predicate that re-checks, on the current tree, the structural fact the reason
rests on (callers' argument shapes, the only writers of a field, a dominating guard).  An entry
without a predicate is a pure D-TABLE entry.  `scope` restricts an entry to properties whose
entry points only produce trusted (assembler-made) data.
"""
import os, re
from lib import panics, nf
from lib.mir import strip_generics, same_value

# --------------------------------------------------------------------------- helpers


def _all_callsites(F, pred):
    out = []
    for p, b in F.bodies.items():
        if b.light:
            continue
        for bb in [b] + list(b.promoted):
            for bi, t, callee, raw in bb.calls():
                if callee and (pred(callee) or (raw and pred(raw))):
                    out.append((bb, bi, t))
    return out


def _const_range(e):
    """(start, end) of a `std::ops::Range` aggregate of constants, else None"""
    an, fields = panics._agg_name(e)
    if an == "std::ops::Range" and len(fields) == 2:
        a, b = panics.interval(fields[0]), panics.interval(fields[1])
        if a and b and a[0] == a[1] and b[0] == b[1]:
            return (a[0], b[0])
    return None


def slice_callers_ok(F, site):
    """every call of DecodeUtils::slice passes a constant range lo..hi with 0 <= lo < hi <= 16
    and hi - lo <= 15 (so `1 << len`, `self >> lo` and the subtractions cannot overflow)."""
    cs = _all_callsites(F, lambda p: p.endswith("DecodeUtils>::slice") or p.endswith("DecodeUtils::slice"))
    if len(cs) < 40:
        return False
    for b, bi, t in cs:
        r = _const_range(b.expr_of_operand(t["args"][1]))
        if r is None or not (0 <= r[0] < r[1] <= 16 and r[1] - r[0] <= 15):
            return False
    return True


def join_bits_callers_ok(F, site):
    """every call of join_bits passes an array literal of (value, lo..hi) with constant ranges,
    0 <= lo < hi <= 16 and hi - lo <= 15."""
    cs = _all_callsites(F, lambda p: p.endswith("ast::sim::join_bits"))
    if len(cs) < 18:
        return False
    for b, bi, t in cs:
        an, elems = panics._agg_name(b.expr_of_operand(t["args"][0]))
        if an != "array" or not elems:
            return False
        for el in elems:
            n2, f2 = panics._agg_name(el)
            if n2 != "tuple" or len(f2) != 2:
                return False
            r = _const_range(f2[1])
            if r is None or not (0 <= r[0] < r[1] <= 16 and r[1] - r[0] <= 15):
                return False
    # and the closure is only used by join_bits
    return True


def offset_instantiations(F):
    """all (backing, N) with which ast::Offset is instantiated anywhere in the crate"""
    pat = re.compile(r"Offset<(i16|u16), (\d+)>")
    out = set()

    def scan(s):
        for m in pat.finditer(s or ""):
            out.add((m.group(1), int(m.group(2))))
    for b in F.bodies.values():
        for l in b.locals:
            scan(l["ty"])
        for bb in b.blocks:
            t = bb["term"]
            if t["k"] == "call":
                f = t["func"]
                scan(f.get("ty"))
                scan(f.get("fn_args"))
                scan((f.get("resolved") or {}).get("args"))
    for a in F.adts.values():
        for v in a["variants"]:
            for f in v["fields"]:
                scan(f["ty"])
    return out


def truncate_ok(F, site):
    """`truncate(self, bit_size)` is only called from Offset::new/new_trunc with bit_size = N, and
    every instantiation of Offset in the crate has 1 <= N <= 16 (so 16 - N is in 0..=15)."""
    cs = _all_callsites(F, lambda p: p.endswith("OffsetBacking>::truncate") or p.endswith("OffsetBacking::truncate"))
    if not cs:
        return False
    for b, bi, t in cs:
        owner = b.owner.path if b.owner else b.path
        if owner not in ("ast::Offset::<OFF, N>::new", "ast::Offset::<OFF, N>::new_trunc"):
            return False
        a = t["args"][1]
        if not (a.get("k") == "const" and a.get("txt") == "N"):
            return False
    inst = offset_instantiations(F)
    return len(inst) >= 6 and all(1 <= n <= 16 for _, n in inst)


def offset_assert_ok(F, site):
    """`assert!(N <= OFF::BITS)`: every instantiation has N <= 16 = BITS of both backings."""
    inst = offset_instantiations(F)
    return len(inst) >= 6 and all(1 <= n <= 16 for _, n in inst)


def reg_from_bits_ok(F, site):
    """`Reg::try_from(bits as u8).unwrap()`: every `interpret::<Reg>()` in the crate is applied to
    a 3-bit `slice(lo..lo+3)`, so the value is in 0..=7, all of which `Reg::try_from` accepts."""
    cs = _all_callsites(F, lambda p: p.endswith("DecodeUtils>::interpret") or p.endswith("DecodeUtils::interpret"))
    n = 0
    for b, bi, t in cs:
        f = t["func"]
        args = (f.get("resolved") or {}).get("args") or f.get("fn_args") or ""
        if "ast::Reg" not in args:
            continue
        n += 1
        recv = panics._unwrap_var(b.expr_of_operand(t["args"][0]))
        if recv[0] != "call" or not (recv[1] or "").endswith("::slice"):
            return False
        r = _const_range(recv[2][1])
        if r is None or r[1] - r[0] != 3:
            return False
    if n < 19:   # counted by hand: 19 register fields in SimInstr::decode
        return False
    # Reg::try_from accepts 0..=7: its switch has the eight values
    tf = F.bodies.get("<ast::Reg as std::convert::TryFrom<u8>>::try_from")
    if tf is None:
        return False
    vals = set()
    for bi, t in tf.terms("switch"):
        vals |= set(v for v, _ in t["values"])
    # from_bits callers: only interpret
    fb = _all_callsites(F, lambda p: p.endswith("FromBits>::from_bits") or p.endswith("FromBits::from_bits"))
    for b, bi, t in fb:
        owner = b.owner.path if b.owner else b.path
        if "DecodeUtils>::interpret" not in owner:
            return False
    return set(range(8)) <= vals


def reg_try_from_unreachable_ok(F, site):
    """`u8::try_from(256).map(|_| unreachable!())`: the mapped closure runs only on Ok, and the
    argument is the constant 256 which never fits a u8."""
    tf = F.bodies.get("<ast::Reg as std::convert::TryFrom<u8>>::try_from")
    if tf is None:
        return False
    for bi, t, callee, raw in tf.calls():
        if callee and "TryFrom<i32> for u8>::try_from" in callee:
            a = panics.interval(tf.expr_of_operand(t["args"][0]))
            return a is not None and a[0] == a[1] and a[0] > 255
    return False


def _field_writers(F, adt, field):
    """functions containing a store into `adt.field` (or a sub-place), or taking `&mut` of it"""
    out = set()
    for p, b in F.bodies.items():
        if b.light:
            continue
        for bi, si, s in b.stmts():
            if s["k"] != "assign":
                continue
            pl = s["p"]
            if any(isinstance(e, dict) and e.get("name") == field and e.get("adt") == adt for e in pl["proj"]):
                out.add(p)
            rv = s["rv"]
            if rv["k"] == "ref" and rv.get("mut"):
                if any(isinstance(e, dict) and e.get("name") == field and e.get("adt") == adt for e in rv["p"]["proj"]):
                    out.add(p)
    return out


def _places_of(x, acc):
    if isinstance(x, dict):
        if "proj" in x and "l" in x:
            acc.append(x)
        for v in x.values():
            _places_of(v, acc)
    elif isinstance(x, list):
        for v in x:
            _places_of(v, acc)


def field_users(F, adt, field):
    """every non-derive function that mentions the place `adt.field` (read, write or borrow)"""
    out = set()
    for p, b in F.bodies.items():
        if b.light:
            continue
        acc = []
        _places_of(b.blocks, acc)
        for pl in acc:
            if any(isinstance(e, dict) and e.get("name") == field and e.get("adt") == adt for e in pl["proj"]):
                out.add(p)
                break
    return out


VEC_SHRINKERS = ("remove", "pop", "truncate", "swap_remove", "clear", "drain", "split_off", "retain", "dedup", "set_len", "resize")


def devices_never_shrink(F, site=None):
    """`DeviceHandler.devices` starts with three elements and no function that can reach the
    field calls a shrinking Vec method on it (so len >= 3 and ids are never reused)."""
    users = _field_writers(F, "sim::device::DeviceHandler", "devices")
    new = F.bodies.get("sim::device::DeviceHandler::new")
    if new is None or not users:
        return False
    # `vec![Null, Null, Null]`: a boxed array of 3 SimDevice turned into a Vec
    three = any("[sim::device::internals::SimDevice; 3]" in l["ty"] for l in new.locals)
    if not three:
        return False
    for p in users:
        b = F.bodies[p]
        for bi, t, callee, raw in b.calls():
            if not callee:
                continue
            c = strip_generics(callee)
            if re.search(r"::Vec::(%s)$" % "|".join(VEC_SHRINKERS), c):
                # is the receiver the devices field?
                recv = b.expr_of_operand(t["args"][0]) if t.get("args") else None
                if recv is not None and "'devices'" in repr(recv):
                    return False
            if c.endswith("std::mem::take") or c.endswith("std::mem::replace") or c.endswith("std::mem::swap"):
                recv = b.expr_of_operand(t["args"][0]) if t.get("args") else None
                r = repr(recv)
                # taking an *element* is fine; taking the vector itself is not
                if "'devices'" in r and "index" not in r and "get_mut" not in r and "Some" not in r:
                    return False
    return True


def io_ports_bounded(F, site=None):
    """every value stored into `io_ports` is either the constant 0 or a `dev_id` that was compared
    `< devices.len()` on the dominating edge (set_port), and `devices` never shrinks."""
    if not devices_never_shrink(F):
        return False
    users = field_users(F, "sim::device::DeviceHandler", "io_ports")
    allowed = {"sim::device::DeviceHandler::get_dev_id", "sim::device::DeviceHandler::set_port", "sim::device::DeviceHandler::remove_device"}
    if not users or not users <= allowed:
        return False
    sp = F.bodies.get("sim::device::DeviceHandler::set_port")
    if sp is None:
        return False
    # the store `*d = dev_id` in set_port is dominated by `(dev_id as usize) < dev_len`
    ok_store = False
    for bi, si, s in sp.stmts():
        if s["k"] == "assign" and s["p"]["proj"] == ["deref"] and sp.local_ty(s["p"]["l"]).startswith("&mut u16"):
            conds = panics.dominating_conditions(sp, bi)
            good = False
            for ex, lo, hi in conds:
                r = repr(ex)
                if "dev_id" in r and hi is not None and lo is None:
                    good = True
            # the bound compared against must be devices.len()
            txt = repr([sp.expr_of_local(l) for l in range(len(sp.locals)) if sp.local_name(l) == "dev_len"])
            if good and "Vec::<T, A>::len" in txt and "'devices'" in txt:
                ok_store = True
            else:
                return False
    if not ok_store:
        return False
    # remove_device only stores the constant NULL_DEV (0) through the iterator closure
    for p in F.children.get("sim::device::DeviceHandler::remove_device", []):
        b = F.bodies[p]
        for bi, si, s in b.stmts():
            if s["k"] == "assign" and "deref" in s["p"]["proj"] and s["rv"]["k"] == "use":
                iv = panics.interval(b.expr_of_operand(s["rv"]["op"]))
                if b.local_ty(s["p"]["l"]).replace(" ", "") in ("&mutu16", "&mut&mutu16") and iv != (0, 0):
                    return False
    return True


def dominated_by_call(name_part):
    def pred(F, site):
        b = site.body
        for bi, t, callee, raw in b.calls():
            if callee and name_part in callee and b.dominates(bi, site.block) and bi != site.block:
                return True
        return False
    return pred


def parent_calls(*parts):
    """the enclosing function of the closure containing the site calls all of `parts`"""
    def pred(F, site):
        par = site.body.raw.get("parent") or (site.body.owner.raw.get("parent") if site.body.owner else None)
        pb = F.bodies.get(par)
        if pb is None:
            return False
        callees = [c or "" for _, _, c, _ in pb.calls()]
        return all(any(part in c for c in callees) for part in parts)
    return pred


def os_has_no_external(F, site):
    try:
        txt = open(os.path.join(F.repo, "src/os.asm")).read()
    except OSError:
        return False
    code = "\n".join(l.split(";")[0] for l in txt.splitlines())
    return ".external" not in code.lower() and len(code) > 2000


def const_arg_le(idx, bound, agg=None):
    def pred(F, site):
        e = site.body.expr_of_operand(site.ops[idx])
        if agg:
            an, fields = panics._agg_name(e)
            if an != agg or not fields:
                return False
            e = fields[0]
        iv = panics.interval(e)
        return iv is not None and 0 <= iv[0] and iv[1] <= bound
    return pred


def range_args_from_u16(F, site):
    """index ranges built from `usize::from(u16)` values into the 65 536-word array; a two-sided
    range additionally needs the dominating `start <= end` edge."""
    b = site.body
    an, fields = panics._agg_name(b.expr_of_operand(site.ops[1]))
    if an not in ("std::ops::Range", "std::ops::RangeFrom", "std::ops::RangeTo"):
        return False
    if "[sim::mem::Word; 65536]" not in repr(b.expr_of_operand(site.ops[0])):
        return False
    for f in fields:
        iv = panics.interval(f)
        if iv is None or iv[0] < 0 or iv[1] > 65535:
            return False
    if an == "std::ops::Range":
        # need the dominating true edge of `start <= end`, with no write to either local in between
        def src(f):
            f = panics._unwrap_var(f)
            if f[0] == "call" and f[2] and (f[1] or "").endswith("for usize>::from"):
                return f[2][0]
            return None
        xs = [src(f) for f in fields]
        if None in xs:
            return False
        mut_locals = set()
        for x in xs:
            panics._roots(x, mut_locals)
        for d in sorted(b.dominators().get(site.block, ())):
            t = b.blocks[d]["term"]
            if t["k"] != "switch" or d == site.block:
                continue
            discr = panics._unwrap_var(b.expr_of_operand(t["discr"]))
            if not (discr[0] == "bin" and discr[1] == "Le"):
                continue
            if not (same_value(discr[2], xs[0]) and same_value(discr[3], xs[1])):
                continue
            # the site must lie on the "true" edge only
            if not b.dominates(t["otherwise"], site.block) or any(tb == t["otherwise"] for v, tb in t["values"]):
                continue
            between = panics._blocks_between(b, t["otherwise"], site.block)
            defs = b.defs()
            if any(bi in between for l in mut_locals for (bi, si, rv) in defs.get(l, [])):
                continue
            return True
        return False
    return True


def from_elem_same_len(F, site):
    b = site.body
    r = repr(b.expr_of_operand(site.ops[0]))
    m = re.search(r"from_elem', \(\('const', 0, 'u16'\), \('const', (\d+), 'usize'\)\)", r)
    dst = [l["ty"] for l in b.locals if "Box<[u16; " in l["ty"]]
    return bool(m) and any("[u16; %s]" % m.group(1) in t for t in dst)


# --------------------------------------------------------------------------- lexer / parser

_lex_cache = {}


def _lex(F):
    from lib import lexattrs
    if F.repo not in _lex_cache:
        _lex_cache[F.repo] = lexattrs.load(F.repo)
    return _lex_cache[F.repo]


def regexes_of_callback(F, name=None, text=None):
    out = []
    for e in _lex(F):
        cb = e.get("callback") or ""
        if (name and cb == name) or (text and text in cb):
            out.append(e)
    return out


def ascii_prefix_for(name=None, text=None, floor=1, within=None):
    """every token regex bound to the callback starts with exactly one mandatory ASCII character
    (optionally from the set `within`), so `slice()[1..]` is on a char boundary / strip_prefix succeeds"""
    from lib import lexattrs

    def pred(F, site):
        es = regexes_of_callback(F, name, text)
        if len(es) < floor:
            return False
        for e in es:
            if not lexattrs.first_is_one_ascii_byte(e["atoms"]):
                return False
            if within is not None:
                allowed = lexattrs.set_of(within)
                if not all(any(lo >= a and hi <= b for a, b in allowed) for lo, hi in e["atoms"][0]["set"]):
                    return False
        # the indexing is `[1..]`
        if site.kind == "call" and site.what.endswith("index") and len(site.ops) == 2:
            an, fields = panics._agg_name(site.body.expr_of_operand(site.ops[1]))
            iv = panics.interval(fields[0]) if an == "std::ops::RangeFrom" and fields else None
            return iv == (1, 1)
        return True
    return pred


def after_starts_with_ascii(F, site):
    """`&s[1..]` on the true edge of `s.starts_with(<ASCII char>)`"""
    b = site.body
    an, fields = panics._agg_name(b.expr_of_operand(site.ops[1]))
    if an != "std::ops::RangeFrom" or panics.interval(fields[0]) != (1, 1):
        return False
    for d in sorted(b.dominators().get(site.block, ())):
        t = b.blocks[d]["term"]
        if t["k"] != "switch" or d == site.block:
            continue
        discr = panics._unwrap_var(b.expr_of_operand(t["discr"]))
        if discr[0] == "call" and (discr[1] or "").endswith("<impl str>::starts_with") and len(discr[2]) == 2:
            ch = panics.interval(discr[2][1])
            if ch and ch[0] == ch[1] and ch[0] < 0x80 and b.dominates(t["otherwise"], site.block) \
                    and all(tb != t["otherwise"] for v, tb in t["values"]):
                return True
    return False


def expect_on_infallible(F, site):
    tys = site.term.get("arg_tys") or []
    return bool(tys) and "std::convert::Infallible>" in tys[0]


def callers_within(target_suffix, allowed):
    def pred(F, site):
        cs = _all_callsites(F, lambda p: p.endswith(target_suffix))
        if not cs:
            return False
        for b, bi, t in cs:
            owner = b.owner.path if b.owner else b.path
            if not any(re.fullmatch(a, owner) for a in allowed):
                return False
        return True
    return pred


def index_from_find(F, site):
    """every index used in the range comes from `str::find` of single-byte patterns on the indexed
    string, through at most `+ 1` (find returns the byte offset of a match that is one byte long)"""
    b = site.body
    an, fields = panics._agg_name(b.expr_of_operand(site.ops[1]))
    if an not in ("std::ops::Range", "std::ops::RangeFrom", "std::ops::RangeTo") or not fields:
        return False
    for f in fields:
        r = repr(f)
        if "<impl str>::find" not in r:
            return False
        iv = panics.interval(f)
        if iv is None or iv[1] > 2**63 - 1:
            return False
    # the pattern given to find consists of ASCII chars only
    for bi, t, callee, raw in b.calls():
        if callee and callee.endswith("<impl str>::find"):
            an2, elems = panics._agg_name(b.expr_of_operand(t["args"][1]))
            if an2 == "array" and elems:
                cs = [panics.interval(x) for x in elems]
                if all(c and c[0] == c[1] and c[0] < 0x80 for c in cs):
                    return True
    return False


def parser_index_invariant(F, site=None):
    """Parser.index <= tokens.len(): `index` is stored only in `advance`, whose last store is
    `min(index, tokens.len())`, and `tokens` is never modified after construction"""
    P = "parse::Parser"
    w_idx = _field_writers(F, P, "index")
    w_tok = _field_writers(F, P, "tokens")
    if w_idx != {"parse::Parser::advance"} or w_tok:
        return False
    adv = F.bodies["parse::Parser::advance"]
    last = None
    for bi, si, s in adv.stmts():
        if s["k"] == "assign" and any(isinstance(e, dict) and e.get("name") == "index" for e in s["p"]["proj"]):
            last = (bi, si, s)
    if last is None:
        return False
    e = adv.expr_of_rvalue(last[2]["rv"])
    r = repr(e)
    return "Ord::min" in r.replace("std::cmp::", "") and "Vec::<T, A>::len" in r and "'tokens'" in r


def spans_balanced(F, site):
    users = field_users(F, "parse::Parser", "spans")
    if not users <= {"parse::Parser::spanned", "parse::Parser::advance", "parse::Parser::new"}:
        return False
    b = site.body
    for bi, t, callee, raw in b.calls():
        if callee and strip_generics(callee).endswith("::Vec::push") and b.dominates(bi, site.block):
            return True
    return False


# --------------------------------------------------------------------------- object-file readers

def map_chunks_callers_ok(F, site):
    """every call `map_chunks::<_, N>(take_slice(&mut v, N * x)?, f)` has N in {2, 3} and passes a
    slice whose length is that same N times something"""
    cs = _all_callsites(F, lambda p: p.endswith("asm::encoding::map_chunks"))
    if len(cs) < 2:
        return False
    for b, bi, t in cs:
        f = t["func"]
        m = re.search(r"(\d+)_usize", (f.get("fn_args") or ""))
        if not m:
            return False
        n = int(m.group(1))
        if n not in (2, 3):
            return False
        data = repr(b.expr_of_operand(t["args"][0]))
        # the data argument unwraps take_slice(.., Mul(n, ..))
        if "asm::encoding::take_slice" not in data:
            return False
        mm = re.search(r"'MulWithOverflow', \('const', (\d+), 'usize'\)", data)
        if not mm or int(mm.group(1)) != n:
            return False
    return True


def guarded_split_at(F, site):
    """split_at(n) on the false edge of `n > data.len()`"""
    b = site.body
    mid = b.expr_of_operand(site.ops[1])
    for d in sorted(b.dominators().get(site.block, ())):
        t = b.blocks[d]["term"]
        if t["k"] != "switch" or d == site.block:
            continue
        discr = panics._unwrap_var(b.expr_of_operand(t["discr"]))
        if discr[0] == "bin" and discr[1] == "Gt" and same_value(discr[2], mid):
            rhs = panics._unwrap_var(discr[3])
            if rhs[0] == "call" and (rhs[1] or "").endswith("<impl [T]>::len"):
                zero = [tb for v, tb in t["values"] if v == 0]
                if zero and b.dominates(zero[0], site.block) and zero[0] != t["otherwise"]:
                    return True
    return False


def arg_from(idx, part):
    def pred(F, site):
        return part in repr(site.body.expr_of_operand(site.ops[idx]))
    return pred


def adt_built_only_in(adt, allowed):
    def pred(F, site=None):
        builders = set()
        for p, b in F.bodies.items():
            if b.light:
                continue
            for bi, si, s in b.stmts():
                if s["k"] == "assign" and s["rv"]["k"] == "agg" and s["rv"].get("adt") == adt:
                    builders.add(p)
        return bool(builders) and builders <= set(allowed) and not _field_writers(F, adt, "nl_indices")
    return pred


source_info_inv = adt_built_only_in("asm::SourceInfo", ["asm::SourceInfo::from_string"])


# --------------------------------------------------------------------------- assembler

def pass2_after_pass1(F, site=None):
    """ObjectFile::new is only called from assemble/assemble_debug, after SymbolTable::new returned Ok"""
    cs = _all_callsites(F, lambda p: p == "asm::ObjectFile::new")
    if len(cs) < 2:
        return False
    for b, bi, t in cs:
        if b.path not in ("asm::assemble", "asm::assemble_debug"):
            return False
        ok = False
        for bj, t2, callee, raw in b.calls():
            if callee == "asm::SymbolTable::new" and b.dominates(bj, bi):
                # the sym argument of ObjectFile::new is the unwrapped Ok value of that call
                if "asm::SymbolTable::new" in repr(b.expr_of_operand(t["args"][1])):
                    ok = True
        if not ok:
            return False
    return True


def lexer_bounds_string_literals(F, site=None):
    """lex_str_literal returns Ok(buf) only on the edge buf.len() < u16::MAX, and Token::String is
    only produced by it (so a parsed .stringz has at most 65534 bytes and len + 1 fits a u16)"""
    b = F.bodies.get("parse::lex::lex_str_literal")
    if b is None:
        return False
    # every path to every Ok(..) aggregate passes the true edge of `len(<the returned string>) < K`, K <= 65535
    # (path conditions in positive form: `>=`/early-return spellings of the same test give the same atom)
    oks = [bj for bj, sj, s in b.stmts() if s["k"] == "assign" and s["rv"]["k"] == "agg" and s["rv"].get("variant") == "Ok"]
    if not oks:
        return False
    for o in oks:
        pcs = nf.path_conditions(b, o, lambda x: x.startswith("Lt(String::len("))
        if not pcs:
            return False
        for pc in pcs:
            good = False
            for d, lab in pc:
                m = re.fullmatch(r"Lt\(String::len\(.*\), \(?(\d+)(?: as usize\))?\)", d)
                if m and int(m.group(1)) <= 65535 and lab == "1":
                    good = True
            if not good:
                return False
    return True


def label_built_only_by_new(F, site=None):
    return adt_built_only_in("ast::Label", ["ast::Label::new"])(F) and \
        callers_within("ast::Label::new", [r"<ast::Label as parse::simple::DirectTokenParse>::match_"])(F, None)


def wrap_split_is_fresh(F, site):
    """`ch.split_at(start.wrapping_neg() as usize)`: the split point is computed from the value of
    `start` that is current at the split (no assignment to `start` on any path from the
    wrapping_neg call to the split), and `start` is the local the destination index is built from"""
    b = site.body
    mid = panics._unwrap_var(b.expr_of_operand(site.ops[1]))
    if not (mid[0] == "cast" and mid[1] == "usize"):
        return False
    inner = panics._unwrap_var(mid[2])
    if not (inner[0] == "call" and (inner[1] or "").endswith("<impl u16>::wrapping_neg")):
        return False
    calls = [(bi, t) for bi, t, callee, raw in b.calls() if (callee or "").endswith("<impl u16>::wrapping_neg")]
    if len(calls) != 1:
        return False
    x, t = calls[0]
    r = _root_read(b, t["args"][0], x)
    if r is None:
        return False
    loc, x = r            # the user variable that is read, and the block where it is read
    succ = b.succs(x)
    if len(succ) != 1:
        return False
    between = panics._blocks_between(b, succ[0], site.block, avoid={x})
    for (bi, si, rv) in b.defs().get(loc, []):
        if bi in between:
            return False
    # the same local feeds the destination start index (`si = usize::from(start)`)
    for bi, t2, callee, raw in b.calls():
        if (callee or "").endswith("From<u16> for usize>::from"):
            r2 = _root_read(b, t2["args"][0], bi)
            if r2 and r2[0] == loc:
                return True
    return False


def _root_read(b, op, block):
    """follow `tmp = copy x` chains of unnamed single-assignment temporaries back to a user
    variable; returns (local, block in which it is read)"""
    for _ in range(8):
        if op.get("k") not in ("copy", "move") or op["p"]["proj"]:
            return None
        l = op["p"]["l"]
        if b.local_name(l) is not None:
            return (l, block)
        ds = b.defs().get(l, [])
        if len(ds) != 1 or ds[0][1] == "term" or ds[0][2]["k"] != "use":
            return None
        block = ds[0][0]
        op = ds[0][2]["op"]
    return None


def parse_row_instantiations_small(F, site):
    """every instantiation of parse_row / parse_table has a column count N <= 8 (the `resize(N, "")` allocates N slots)"""
    ns = []
    for pred in (lambda p: p.endswith("asm::encoding::parse_table"),):
        for b, bi, t in _all_callsites(F, pred):
            m = re.search(r"(\d+)_usize", (t["func"].get("fn_args") or ""))
            if not m:
                return False
            ns.append(int(m.group(1)))
    inner = [t for b, bi, t in _all_callsites(F, lambda p: p.endswith("asm::encoding::parse_row"))]
    # parse_row is only called from parse_table (with the same N)
    callers = set(b.path.split("::{closure")[0] for b, bi, t in _all_callsites(F, lambda p: p.endswith("asm::encoding::parse_row")))
    return len(ns) >= 4 and all(1 <= n <= 8 for n in ns) and callers == {"asm::encoding::parse_table"}


def size_is_count_lines(F, site):
    """the allocation size is SourceInfo::count_lines() of the SourceInfo built from the same text (= number of newlines + 1 <= len + 1)"""
    b = site.body
    ops = [b.expr_of_operand(o) for o in site.ops]
    if len(ops) < 2:
        return False
    e = panics._unwrap_var(ops[1])
    cl = F.bodies.get("asm::SourceInfo::count_lines")
    if not (e[0] == "call" and (e[1] or "").endswith("asm::SourceInfo::count_lines") and cl is not None):
        return False
    # count_lines is Vec::len of nl_indices
    calls = [c for _, _, c, _ in cl.calls()]
    return len(calls) == 1 and calls[0].endswith("Vec::<T, A>::len")


def E(tag, why, n=1, when=None, scope=None):
    return dict(tag=tag, why=why, n=n, when=when, scope=scope)


TRUSTED = {"C02", "C16", "C29", "C26a"}   # properties whose object files come from the assembler

TABLE = {
    "asm::SymbolTable::new::{closure#0}|call|std::vec::from_elem": [
        E("D-INV", "vec![None; count_lines()]: the size is the number of newlines of the text + 1, i.e. bounded by the length of a string that already exists", when=size_is_count_lines)],
    "asm::encoding::parse_row|call|std::vec::Vec::resize": [
        E("D-TYPE", "segments.resize(N, \"\"): N is the column count of a table (2 or 3 in every instantiation)", when=parse_row_instantiations_small)],
    # ------------------------------------------------------------------ assembler (trusted input: a parsed program)
    "asm::SymbolTable::new|call|<std::vec::Vec<T, A> as std::ops::IndexMut<I>>::index_mut": [
        E("D-TABLE", "lines[get_line(stmt.span.start)]: a statement starts before the end of the source it was parsed from, so its line is < count_lines() (assumption: `src` is the text the AST was parsed from - the documented contract of assemble_debug)",
          scope={"C02", "C16", "C26", "C24"})],
    "asm::ObjectFile::new|call|core::panicking::panic": [
        E("D-INV", "debug_assert!(current.is_none()): pass 1 rejects a nested .orig (OverlappingOrig) and pass 2 only runs after pass 1 succeeded on the same AST", when=pass2_after_pass1)],
    "asm::<impl ast::asm::Directive>::word_len|assert|Overflow(Add)": [
        E("D-INV", "s.len() as u16 + 1: the lexer only yields string literals shorter than 65535 bytes", when=lexer_bounds_string_literals, scope={"C02", "C16", "C26", "C24"})],
    "asm::SymbolTable::new::{closure#4}::{closure#0}|call|std::rt::panic_fmt": [
        E("D-INV", "LineSymbolMap::new(lines) cannot fail: a run of consecutive recorded lines lies inside one .orig/.end block (their lines are never recorded), where the location counter only grows", scope={"C02", "C16", "C26", "C24"})],
    "ast::Label::span|assert|Overflow(Add)": [
        E("D-INV", "start + name.len(): a Label is only built by Label::new from a token span, whose end is start + len", when=label_built_only_by_new)],
    "asm::ObjectFile::new::ObjBlock::range|assert|Overflow(Add)": [
        E("D-INV", "start + words.len(): pass 1 (Cursor::shift) bounds every block end by xFE00 and pass 2 appends exactly word_len words per statement (C01.4)", when=pass2_after_pass1)],
    # ------------------------------------------------------------------ object-file formats, link
    "<asm::encoding::TextFormat as asm::encoding::ObjFileFormat>::deserialize|call|core::slice::<impl [T]>::split_at": [
        E("D-GUARD", "split_at(split_pos): split_pos is the result of position() over the same slice", when=arg_from(1, "Iterator::position"))],
    "<asm::encoding::TextFormat as asm::encoding::ObjFileFormat>::deserialize|call|std::result::Result::unwrap": [
        E("D-TYPE", "<String as fmt::Write>::write_str never fails", when=arg_from(0, "<std::string::String as std::fmt::Write>::write_str"))],
    "<asm::encoding::TextFormat as asm::encoding::ObjFileFormat>::serialize|call|std::result::Result::unwrap": [
        E("D-TABLE", "_ser only propagates errors of write!/writeln! into a String, which are infallible", when=arg_from(0, "serialize::_ser"))],
    "asm::encoding::map_chunks|assert|RemainderByZero": [E("D-TYPE", "N is 2 or 3 in every instantiation", when=map_chunks_callers_ok)],
    "asm::encoding::map_chunks|call|core::slice::<impl [T]>::chunks_exact": [E("D-TYPE", "N is 2 or 3 in every instantiation", when=map_chunks_callers_ok)],
    "asm::encoding::map_chunks|call|core::panicking::assert_failed": [
        E("D-GUARD", "assert_eq!(len % N, 0): every caller passes take_slice(.., N * x)", when=map_chunks_callers_ok)],
    "asm::encoding::map_chunks::{closure#0}|call|std::result::Result::unwrap": [
        E("D-TABLE", "chunks_exact(N) yields slices of length N, so <[_; N]>::try_from succeeds", when=parent_calls("chunks_exact"))],
    "asm::encoding::take::{closure#0}|call|std::result::Result::unwrap": [
        E("D-TABLE", "take_slice(data, N) returns a slice of length N, so <[_; N]>::try_from succeeds", when=parent_calls("take_slice"))],
    "asm::encoding::try_split_at|call|core::slice::<impl [T]>::split_at": [
        E("D-GUARD", "split_at(n) on the false edge of n > data.len()", when=guarded_split_at)],
    "asm::encoding::assert_sorted_no_dup::{closure#0}|call|std::result::Result::unwrap": [
        E("D-TABLE", "windows(2) yields slices of length 2", when=parent_calls("windows"))],
    "asm::LineSymbolMap::from_blocks::{closure#1}|call|core::panicking::panic": [
        E("D-TABLE", "let [a, b] = win: windows(2) yields slices of length 2", when=parent_calls("windows"))],
    "asm::LineSymbolMap::from_blocks::{closure#2}::{closure#0}|assert|BoundsCheck": [
        E("D-TABLE", "win[0], win[1]: windows(2) yields slices of length 2", n=2)],
    "asm::LineSymbolMap::new|assert|Overflow(Sub)": [
        E("D-TABLE", "i - bl.len(): bl holds the addresses of the bl.len() consecutive Some entries that end just before index i")],
    "asm::SourceInfo::raw_line_span|call|<std::vec::Vec<T, A> as std::ops::Index<I>>::index": [
        E("D-GUARD", "nl_indices[line - 1]: after the (0..count_lines()).contains(&line) guard and in the arm line != 0", when=dominated_by_call("::contains"))],
    "asm::SourceInfo::raw_line_span|assert|Overflow(Add)": [
        E("D-INV", "nl_indices holds byte offsets into src (only from_string builds a SourceInfo), so +1 cannot overflow", when=source_info_inv)],
    "asm::SourceInfo::raw_line_span|call|<&usize as std::ops::Add<usize>>::add": [
        E("D-INV", "nl_indices holds byte offsets into src (only from_string builds a SourceInfo), so +1 cannot overflow", when=source_info_inv)],
    # ------------------------------------------------------------------ lexer / parser
    "<parse::lex::Token as logos::Logos<'s>>::lex::goto_::callback|call|std::result::Result::expect": [
        E("D-TYPE", "expect on Result<Ident, Infallible>: the error type is uninhabited", n=2, when=expect_on_infallible)],
    "<parse::lex::Token as logos::Logos<'s>>::lex::goto_::callback|call|core::str::traits::<impl std::ops::Index<I> for str>::index": [
        E("D-INV", "slice()[1..] in the inline Directive callback: its token regex starts with one mandatory ASCII character", n=2,
          when=ascii_prefix_for(text="[1..]"))],
    "parse::lex::convert_int_error|call|std::rt::panic_fmt": [
        E("D-TABLE", "IntErrorKind::Zero is only produced when parsing NonZero types; the callers parse u16/i16",
          when=callers_within("parse::lex::convert_int_error", [r"parse::lex::lex_(un)?signed_(dec|hex)::\{closure#0\}"]))],
    "parse::lex::lex_unsigned_dec|call|core::str::traits::<impl std::ops::Index<I> for str>::index": [
        E("D-GUARD", "&s[1..] on the true edge of s.starts_with('#')", when=after_starts_with_ascii)],
    "parse::lex::lex_signed_dec|call|core::str::traits::<impl std::ops::Index<I> for str>::index": [
        E("D-GUARD", "&s[1..] on the true edge of s.starts_with('#')", when=after_starts_with_ascii)],
    "parse::lex::lex_unsigned_hex|call|std::rt::panic_fmt": [
        E("D-INV", "strip_prefix(['X','x']) cannot fail: every regex bound to this callback starts with a mandatory [Xx]",
          when=ascii_prefix_for(name="lex_unsigned_hex", within="Xx"))],
    "parse::lex::lex_signed_hex|call|std::rt::panic_fmt": [
        E("D-INV", "strip_prefix(['X','x']) cannot fail: every regex bound to this callback starts with a mandatory [Xx]",
          when=ascii_prefix_for(name="lex_signed_hex", within="Xx"))],
    "parse::lex::lex_reg|call|core::str::traits::<impl std::ops::Index<I> for str>::index": [
        E("D-INV", "slice()[1..]: every regex bound to lex_reg starts with one mandatory ASCII character", when=ascii_prefix_for(name="lex_reg"))],
    "parse::lex::lex_str_literal|call|core::str::traits::<impl std::ops::Index<I> for str>::index": [
        E("D-GUARD", "[..i], [i..i+1], [i+1..]: i is the offset returned by find() of one-byte ASCII patterns in the same string", n=3, when=index_from_find)],
    "parse::lex::lex_str_literal|call|std::rt::panic_fmt": [
        E("D-TABLE", "`mid` is the one-byte match of find(['\\\\', '\"']), so it is one of the two arms")],
    "parse::lex::lex_str_literal|assert|Overflow(Sub)": [
        E("D-TABLE", "rem.len() - remaining.len(): `remaining` is always a suffix of `rem` (only ever re-sliced from itself)")],
    "parse::Parser::peek|call|<std::vec::Vec<T, A> as std::ops::Index<I>>::index": [
        E("D-INV", "tokens[index..]: index <= tokens.len() (only advance() stores index, via min(index, len))", when=parser_index_invariant)],
    "parse::Parser::is_empty|call|<std::vec::Vec<T, A> as std::ops::Index<I>>::index": [
        E("D-INV", "tokens[index..]: index <= tokens.len() (only advance() stores index, via min(index, len))", when=parser_index_invariant)],
    "parse::Parser::advance|assert|Overflow(Add)": [
        E("D-INV", "index += 1 with index <= tokens.len() <= isize::MAX", when=parser_index_invariant)],
    "parse::Parser::spanned|call|std::option::Option::unwrap": [
        E("D-GUARD", "spans.pop() after the push in the same function; spans is only touched by spanned (push/pop pair) and advance (last_mut)", when=spans_balanced)],
    "ast::Label::new|assert|Overflow(Add)": [
        E("D-INV", "debug_assert_eq!(span.start + name.len(), span.end): only called with a logos token span and that token's text",
          when=callers_within("ast::Label::new", [r"<ast::Label as parse::simple::DirectTokenParse>::match_"]))],
    "ast::Label::new|call|core::panicking::assert_failed": [
        E("D-INV", "debug_assert_eq!(span.start + name.len(), span.end): only called with a logos token span and that token's text",
          when=callers_within("ast::Label::new", [r"<ast::Label as parse::simple::DirectTokenParse>::match_"]))],
    # ------------------------------------------------------------------ simulator
    "sim::mem::WordFiller::generate_boxed_array::{closure#1}|call|std::rt::panic_fmt": [
        E("D-GUARD", "repeat_with(..) is infinite and take(N) truncates it to exactly N elements, so the Box<[_]> -> Box<[_; N]> conversion cannot fail",
          when=parent_calls("repeat_with", "Iterator::take"))],
    "sim::mem::MemArray::copy_obj_block|assert|BoundsCheck": [
        E("D-TABLE", "chunk[0]: slices yielded by <[T]>::chunk_by are non-empty (std contract)", when=dominated_by_call("ChunkBy"))],
    "sim::mem::MemArray::copy_obj_block|call|core::slice::<impl [T]>::copy_from_slice": [
        E("D-TABLE", "destination ranges si..ei / si.. + ..ei have total length chunk.len(): end = start +w len, contiguous iff start <= end; len <= 65535 because block lengths are u16 (assembler: Cursor::shift; readers: u16 length fields)", n=3)],
    "sim::mem::MemArray::copy_obj_block|call|core::slice::<impl [T]>::split_at": [
        E("D-GUARD", "split_at(2^16 - start) with the current `start`: only on the wrapped edge (start > end = start +w len), where chunk.len() > 2^16 - start",
          when=wrap_split_is_fresh)],
    "sim::mem::MemArray::copy_obj_block|call|std::array::<impl std::ops::IndexMut<I> for [T; N]>::index_mut": [
        E("D-GUARD", "index ranges are built from u16 values into a 65 536-element array; si..ei only on the start <= end edge", n=6, when=range_args_from_u16)],
    "sim::mem::MemArray::copy_obj_block::{closure#1}|call|std::option::Option::unwrap": [
        E("D-TABLE", "chunk_by groups by is_some(), and this arm is entered only when chunk[0].is_some(): every element of the chunk is Some")],
    "sim::frame::FrameStack::push_frame|assert|Overflow(Add)": [
        E("D-TABLE", "frame_no: u64 += 1 needs 2^64 calls without a return")],
    "sim::device::timer::SampleRange::new|call|std::option::Option::expect": [
        E("D-TABLE", "documented host-side precondition of TimerDevice configuration: (Bound::Excluded(u32::MAX), _) is rejected; not reachable from machine state (assumption recorded)")],
    "sim::device::timer::TimerDevice::try_generate_time|call|rand::Rng::random_range": [
        E("D-TABLE", "random_range panics on an empty range: host-side configuration of the timer, not machine state (assumption: configured range non-empty)", n=2)],
    "sim::device::DeviceHandler::new|call|std::result::Result::expect": [
        E("D-TYPE", "vec![0; DEVICE_SLOTS] converted into Box<[u16; DEVICE_SLOTS]>: same constant on both sides", when=from_elem_same_len)],
    "sim::device::DeviceHandler::set_keyboard|call|<std::vec::Vec<T, A> as std::ops::IndexMut<I>>::index_mut": [
        E("D-INV", "devices[1]: devices has >= 3 elements from new() and never shrinks", when=lambda F, s: devices_never_shrink(F) and const_arg_le(1, 2)(F, s))],
    "sim::device::DeviceHandler::set_display|call|<std::vec::Vec<T, A> as std::ops::IndexMut<I>>::index_mut": [
        E("D-INV", "devices[2]: devices has >= 3 elements from new() and never shrinks", when=lambda F, s: devices_never_shrink(F) and const_arg_le(1, 2)(F, s))],
    "<sim::device::DeviceHandler as sim::device::ExternalDevice>::io_read|call|<std::vec::Vec<T, A> as std::ops::IndexMut<I>>::index_mut": [
        E("D-INV", "devices[dev_id]: io_ports only holds 0 or ids checked `< devices.len()` by set_port; devices never shrinks", when=io_ports_bounded)],
    "<sim::device::DeviceHandler as sim::device::ExternalDevice>::io_write|call|<std::vec::Vec<T, A> as std::ops::IndexMut<I>>::index_mut": [
        E("D-INV", "devices[dev_id]: io_ports only holds 0 or ids checked `< devices.len()` by set_port; devices never shrinks", when=io_ports_bounded)],
    "sim::_os_obj_file::{closure#0}|call|std::result::Result::unwrap": [
        E("D-TABLE", "parse_ast/assemble_debug of include_str!(\"os.asm\"): the input is a constant of the crate, not machine state; its assemblability is decided once (every Simulator construction in the test suite and doctests exercises it)", n=2)],
    "sim::Simulator::new_with_mcr|call|core::slice::index::<impl std::ops::IndexMut<I> for [T]>::index_mut": [
        E("D-TYPE", "as_slice_mut()[IO_START as usize..]: the slice has 65 536 elements and the start is a constant <= 65 536",
          when=const_arg_le(1, 65536, agg="std::ops::RangeFrom"))],
    "sim::Simulator::load_os::{closure#0}|call|std::rt::panic_fmt": [
        E("D-INV", "load_obj_file only fails with UnresolvedExternal; src/os.asm declares no .external", when=os_has_no_external)],
    "<u16 as ast::sim::DecodeUtils>::slice|assert|Overflow(Sub)": [
        E("D-INV", "all callers pass constant ranges lo..hi, 0 <= lo < hi <= 16, width <= 15", n=2, when=slice_callers_ok)],
    "<u16 as ast::sim::DecodeUtils>::slice|assert|Overflow(Shr)": [
        E("D-INV", "all callers pass constant ranges lo..hi, 0 <= lo < hi <= 16, width <= 15", when=slice_callers_ok)],
    "<u16 as ast::sim::DecodeUtils>::slice|assert|Overflow(Shl)": [
        E("D-INV", "all callers pass constant ranges lo..hi, 0 <= lo < hi <= 16, width <= 15", when=slice_callers_ok)],
    "ast::sim::join_bits::{closure#0}|assert|Overflow(Sub)": [
        E("D-INV", "all callers of join_bits pass array literals with constant ranges, width <= 15", n=2, when=join_bits_callers_ok)],
    "ast::sim::join_bits::{closure#0}|assert|Overflow(Shl)": [
        E("D-INV", "all callers of join_bits pass array literals with constant ranges, width <= 15, lo <= 15", n=2, when=join_bits_callers_ok)],
    "<ast::Reg as ast::sim::FromBits>::from_bits|call|std::result::Result::unwrap": [
        E("D-INV", "interpret::<Reg>() is only applied to 3-bit slices and Reg::try_from accepts 0..=7", when=reg_from_bits_ok)],
    "ast::Offset::<OFF, N>::new_trunc|call|std::rt::panic_fmt": [
        E("D-TYPE", "assert!(N <= BITS): every instantiation of Offset in the crate has N <= 16", when=offset_assert_ok)],
    "ast::Offset::<OFF, N>::new|call|std::rt::panic_fmt": [
        E("D-TYPE", "assert!(N <= BITS): every instantiation of Offset in the crate has N <= 16", when=offset_assert_ok)],
    "<ast::Reg as std::convert::TryFrom<u8>>::try_from::{closure#0}|call|std::rt::panic_fmt": [
        E("D-TYPE", "u8::try_from(256) is always Err, so the Ok-mapping closure never runs", when=reg_try_from_unreachable_ok)],
    "<u16 as ast::offset_base::OffsetBacking>::truncate|assert|Overflow(Sub)": [E("D-INV", "bit_size = N in 1..=16 for every instantiation", n=2, when=truncate_ok)],
    "<u16 as ast::offset_base::OffsetBacking>::truncate|assert|Overflow(Shl)": [E("D-INV", "16 - N in 0..=15", when=truncate_ok)],
    "<u16 as ast::offset_base::OffsetBacking>::truncate|assert|Overflow(Shr)": [E("D-INV", "16 - N in 0..=15", when=truncate_ok)],
    "<i16 as ast::offset_base::OffsetBacking>::truncate|assert|Overflow(Sub)": [E("D-INV", "bit_size = N in 1..=16 for every instantiation", n=2, when=truncate_ok)],
    "<i16 as ast::offset_base::OffsetBacking>::truncate|assert|Overflow(Shl)": [E("D-INV", "16 - N in 0..=15", when=truncate_ok)],
    "<i16 as ast::offset_base::OffsetBacking>::truncate|assert|Overflow(Shr)": [E("D-INV", "16 - N in 0..=15", when=truncate_ok)],
}
