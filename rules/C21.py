"""C21 - External references are never silently left unresolved (information-flow clauses of pass 1, ObjectFile::new, link, load)."""
import re
from lib import panics, shape, nf

LEVEL = "other"
ST_NEW = "asm::SymbolTable::new"
ON = "asm::ObjectFile::new"
OL = "asm::ObjectFile::link"
LOAD = "sim::Simulator::load_obj_file"
L = "λ"


def loop_blocks(b, head):
    """blocks of the natural loop whose header is the block of the iterator's `next` call"""
    body = {head}
    preds = b.preds()
    back = [p for p in preds[head] if b.dominates(head, p)]
    st = list(back)
    while st:
        x = st.pop()
        if x in body:
            continue
        body.add(x)
        st.extend(preds[x])
    return body


def run(ck, ctx):
    F = ctx.F
    panics.FACTS = F
    ck.rule("R6 order-free recording: inside the pass-1 statement loop the label map is only touched through add_label (no membership test); every .fill of a "
            "label inside a block pushes (cursor.lc, to_uppercase(name)) and the relocation map is that list filtered, after the loop, by `external` in the "
            "final label map. R4 external-ness reaches the load-time guard: load_obj_file returns UnresolvedExternal before any copy, from get_external_symbol = "
            "first external entry of ObjectFile.sym; wherever ObjectFile::new stores the symbol table it must not drop it while externals may exist. "
            "Resolution: link moves every relocation entry whose label equals the resolved key into the apply list with the *defined* symbol's address and "
            "the apply loop stores that address through get_mut (predecessor-or-equal block, offset addr - start) for every entry")
    ck.explanation = ("An unresolved external is only noticed through the symbol table's external flag, and only repaired through the relocation map. The rule follows "
                      "both pieces of information from where they are produced (pass 1) to where they are consumed (load, link) on the MIR.")
    # ------------------------------------------------------------------ C21.1 pass 1
    b = F.bodies.get(ST_NEW)
    if ck.anchor("C21.1", ST_NEW, b):
        where = "src/asm.rs:%s" % b.line
        nxt = [bi for bi, t, c, _ in b.calls() if (c or "").endswith("Iterator>::next") and "slice::Iter" in (c or "") and nf.arg_x(b, t, 0, bi).startswith("into_iter(arg1")]
        if not nxt:
            nxt = [bi for bi, t, c, _ in b.calls() if (c or "").endswith("Iterator>::next") and "arg1" in nf.arg_x(b, t, 0, bi)]
        head = min(nxt) if nxt else None
        lp = loop_blocks(b, head) if head is not None else set()
        ck.ob("C21.1", "statement-loop", head is not None and len(lp) > 20, "statement loop located: header block %s, %d blocks" % (head, len(lp)), where)
        inloop = []
        for bi, t, c, _ in b.calls():
            fa = t["func"].get("fn_args", "") if t["func"].get("k") == "const" else ""
            if bi in lp and "asm::SymbolData" in fa and any(x in (c or "") for x in ("HashMap", "hash_map")):
                inloop.append((shape.short_callee(c), t["line"]))
        ck.ob("C21.1", "no-membership-test-in-loop", not inloop,
              "label-map operations inside the statement loop other than through add_label: %s (labels may be declared after their use, so nothing in the loop may depend on the map under construction)" % inloop, where)
        pushes = [(bi, t) for bi, t, c, _ in b.calls() if (c or "").endswith("Vec::<T, A>::push")]
        ok = False
        detail = "?"
        if len(pushes) == 1:
            bi, t = pushes[0]
            v = nf.arg_x(b, t, 1, bi, 20)
            g = [(d, via) for d, via in shape.edge_conds(b, bi)]
            fill = [via for d, via in g if d.endswith("as Directive.0)")] == [("1",)] and [via for d, via in g if d.endswith("as Directive.0 as Fill.0)")] == [("1",)]
            names = [v2["name"] for v2 in F.adts["ast::asm::Directive"]["variants"]]
            others = [(d, via) for d, via in g if not (d.endswith(".nucleus)") or "Directive.0" in d or d.startswith("discr(next(") or d.startswith("discr(Option::"))]
            ok = bi in lp and fill and names[1] == "Fill" and re.match(r"^tuple\(.* as Some\.0\.lc, to_uppercase\(deref\(.* as Fill\.0 as Label\.0\.name\)\)\)$", v) is not None and not others
            detail = "push(%s) under %s" % (v[:120], [(d[-40:], via) for d, via in g])
        ck.ob("C21.1", "fill-sites-recorded", ok, "every `.fill LABEL` inside an open block records (cursor.lc, upper-cased name), guarded by nothing else: %s" % detail, where)
        # rel_map = filter(fill_sites) after the loop
        ctor = [s for bi, si, s in b.stmts() if s["k"] == "assign" and s["rv"]["k"] == "agg" and (s["rv"].get("adt") or "").endswith("asm::SymbolTable")]
        ok = False
        rel = "?"
        if len(ctor) == 1:
            bi = [bi for bi, si, s in b.stmts() if s is ctor[0]][0]
            d = dict(zip(ctor[0]["rv"].get("field_names", []), ctor[0]["rv"]["fields"]))
            si0 = [si for bi2, si, s2 in b.stmts() if s2 is ctor[0]][0]
            rel = nf.pp_x(nf.XB(b).expr_of_operand(d["rel_map"], 20, (bi, si0))) if "rel_map" in d else "?"
            m = re.match(r"^Iterator::collect\(Iterator::filter\(into_iter\(Vec::new\(\)\), \{closure#(\d+)\}\(HashMap::new\(\)\)\)\)$", rel)
            if m:
                cp = "%s::{closure#%s}" % (ST_NEW, m.group(1))
                pred = nf.deep(F, cp)
                want = "0 ; [HashMap::get(@entry{HashMap::new()}, arg2.1) as Some.0.external in [1,1] & discr(HashMap::get(@entry{HashMap::new()}, arg2.1)) in [1,1]] => 1"
                flt = [bi2 for bi2, t2, c2, _ in b.calls() if (c2 or "").endswith("Iterator::filter")]
                after = len(flt) == 1 and flt[0] not in lp and b.dominates(head, flt[0])
                ok = pred == want and after
                rel += "  predicate: " + pred + ("  (evaluated after the loop)" if after else "  (NOT after the loop)")
        ck.ob("C21.1", "relocations-from-final-map", ok, "rel_map = fill sites whose label is external in the completed label map: %s" % rel, where)
    # ------------------------------------------------------------------ C21.2 external-ness survives
    lf = F.bodies.get(LOAD)
    if ck.anchor("C21.2", LOAD, lf):
        where = "src/sim.rs:%s" % lf.line
        ges = [(bi, t) for bi, t, c, _ in lf.calls() if (c or "").endswith("ObjectFile::get_external_symbol")]
        cp = [bi for bi, t, c, _ in lf.calls() if (c or "").endswith("MemArray::copy_obj_block")]
        ext = [bi for bi, si, s in lf.stmts() if s["k"] == "assign" and s["rv"]["k"] == "agg" and s["rv"].get("variant") == "UnresolvedExternal"]
        ok = len(ges) == 1 and len(ext) == 1 and cp and all(lf.dominates(ges[0][0], c) and not lf.can_reach(c, ext[0]) for c in cp)
        g = shape.edge_conds(lf, ext[0]) if ext else []
        ok = ok and [via for d, via in g if "get_external_symbol(arg2)" in d] == [("1",)] and all("get_external_symbol(arg2)" in d and via == ("not{1}",) for d, via in shape.edge_conds(lf, cp[0])[:1])
        ck.ob("C21.2", "load-guard", ok, "load_obj_file returns UnresolvedExternal exactly on get_external_symbol(obj) == Some(_), before any copy_obj_block: guards %s" % g, where)
        nf.expect_deep(ck, F, "C21.2", "get_external_symbol", "asm::ObjectFile::get_external_symbol",
                       ["Option::map(Option::and_then(ObjectFile::symbol_table(arg1), %s[Iterator::find(HashMap::iter(arg2.label_map), %s[arg2.1.external]())]()), %s[String::as_str(arg2.0)]())" % (L, L, L)],
                       "the guard reads: some entry of the object's symbol table with external == true")
        nf.expect_deep(ck, F, "C21.2", "symbol_table", "asm::ObjectFile::symbol_table", ["Option::as_ref(arg1.sym)"], "symbol_table() is the stored table")
    on = F.bodies.get(ON)
    if ck.anchor("C21.2", ON, on):
        agg = [(bi, si, s) for bi, si, s in on.stmts() if s["k"] == "assign" and s["rv"]["k"] == "agg" and (s["rv"].get("adt") or "").endswith("asm::ObjectFile")]
        if ck.anchor("C21.2", "ObjectFile aggregate in ObjectFile::new", agg):
            for bi, si, s in agg:
                d = dict(zip(s["rv"].get("field_names", []), s["rv"]["fields"]))
                v = nf.inline_closures(F, ON, nf.pp_x(nf.XB(on).expr_of_operand(d["sym"], 20, (bi, si))))
                uncond = v in ("Option::Some(arg2)",)
                guarded = False
                any_ext = "Iterator::any(HashMap::values(arg2.label_map), %s[arg2.external]())" % L
                m = re.match(r"^then_some\((.*), arg2\)$", v)
                if not uncond and m:
                    # a conditional None is acceptable only if the condition is true whenever some label is external:
                    # every alternative of the condition is `true` or `any label is external`
                    c = m.group(1)
                    pm = re.match(r"^phi\{(.*)\}$", c)
                    alts = [a.rpartition(" => ")[2] for a in pm.group(1).split(" | ")] if pm else [c]
                    guarded = any_ext in alts and all(a in ("1", any_ext) for a in alts)
                ck.ob("C21.2", ON + "|sym-store|" + ("always-Some" if uncond else "conditional-None-with-external-guard" if guarded else "conditional-None-without-external-guard"),
                      uncond or guarded,
                      ("ObjectFile::new stores sym = %s: the table is dropped only when no label is external" % v) if (uncond or guarded) else
                      ("ObjectFile::new stores sym = %s: the symbol table (and with it every `external` flag and the relocation map) is dropped when the condition is false, "
                       "without a check that the program declares no external label" % v), "src/asm.rs:%s" % s["line"])
    link_resolution(ck, F, "C21.3")
    ck.assume("the relocation map and the external flags survive serialisation: C17/C18")
    ck.assume("ranges/blocks are those of C20; that the address queued is the .fill word's own address rests on C01.6/C24.2 (cursor.lc before the shift)")


def link_resolution(ck, F, rule):
    """shared with C20: how ObjectFile::link resolves an external label and applies the relocation entries"""
    D = 40
    # ------------------------------------------------------------------ C21.3 resolution in link
    lb = F.bodies.get(OL)
    if ck.anchor(rule, OL, lb):
        where = "src/asm.rs:%s" % lb.line
        part = [(bi, t) for bi, t, c, _ in lb.calls() if (c or "").endswith("Iterator::partition")]
        ok = False
        detail = "?"
        if len(part) == 1:
            bi, t = part[0]
            src = nf.arg_x(lb, t, 0, bi, D)
            cl = re.search(r"\{closure#(\d+)\}", nf.arg_x(lb, t, 1, bi, 6))
            pred = nf.deep(F, "%s::{closure#%s}" % (OL, cl.group(1))) if cl else "?"
            pred_ok = re.match(r"^eq\(arg2\.1, OccupiedEntry::key\(@entry\{HashMap::entry\(.*\) as Occupied\.0\}\)\)$", pred) is not None
            ok = src.startswith("into_iter(") and "rel_map" in src and pred_ok
            detail = "partition(%s...) by %s" % (src[:50], pred[:80])
        ck.ob(rule, "partition-by-label", ok, "the relocation map is split by `entry label == resolved key`: %s" % detail, where)
        # matching addresses go to the apply list with the defined symbol's address
        ext = [(bi, t) for bi, t, c, _ in lb.calls() if shape.short_callee(c) == "extend" and nf.arg_x(lb, t, 0, bi, 8).startswith("Vec::new()")]
        ok = False
        detail = "?"
        if len(ext) == 1:
            bi, t = ext[0]
            tree = panics._unwrap_var(nf.XB(lb).expr_of_operand(t["args"][1], D, (bi, "term")))
            inner, a_ext, a_def, chain_ok = "?", False, False, False
            if tree[0] == "call" and shape.short_callee(tree[1]) == "Iterator::map" and len(tree[2]) == 2:
                src = nf.pp_x(tree[2][0])
                chain_ok = src.startswith("HashMap::into_keys(Iterator::partition(")
                clo = panics._unwrap_var(tree[2][1])
                while clo[0] == "cast":
                    clo = panics._unwrap_var(clo[2])
                if clo[0] == "agg" and clo[1] == "closure":
                    inner = nf.deep(F, clo[2][0])
                    ups = [panics._unwrap_var(u) for u in clo[3]]
                    u0 = ups[0] if len(ups) == 1 else ("?",)
                    fld = None
                    while u0[0] in ("ref", "deref", "field", "var"):
                        if u0[0] == "field":
                            fld = u0[2]
                        u0 = panics._unwrap_var(u0[1]) if u0[0] != "var" else u0[2]
                    if u0[0] == "phi" and fld == "addr":
                        for conds, val in u0[1]:
                            cs = " & ".join(conds)
                            if "Occupied.0).external in [1,1]" in cs and (val.startswith("with_src_start(" + "next(into_iter(arg2.sym as Some.0.label_map)) as Some.0.1") or val.startswith("SymbolData(next(into_iter(arg2.sym")):
                                a_ext = True
                            if "Occupied.0).external in [0,0]" in cs and val.startswith("OccupiedEntry::get("):
                                a_def = True
            ok = chain_ok and re.match(r"^tuple\(arg2, @entry\{.*\.addr\}\)$", inner) is not None and a_ext and a_def
            detail = "extend(map(into_keys(matching), %s)) capturing phi{A external => B's data: %s | A defined => A's entry: %s}" % (inner[:80], a_ext, a_def)
        ck.ob(rule, "apply-list", ok, "each matching relocation address is queued with the *defined* symbol's address: %s" % detail, where)
        # exactly the one-external cases reach the partition (the arm is an or-pattern, so path conditions are enumerated)
        combos = None
        if part:
            pcs = nf.path_conditions(lb, part[0][0], lambda x: x.endswith(".external"))
            if pcs is not None:
                combos = set()
                for pc in pcs:
                    a = set(lab for d, lab in pc if "Occupied.0).external" in d)
                    bb = set(lab for d, lab in pc if "Occupied.0).external" not in d)
                    if len(a) == 1 and len(bb) == 1:          # (a path on which one flag has two values is infeasible)
                        combos.add((next(iter(a)), next(iter(bb))))
        ck.ob(rule, "one-external-cases", combos == {("1", "0"), ("0", "1")},
              "the resolution code runs exactly for (A.external, B.external) in %s (required: one of the two is external)" % sorted(combos or []), where)
        # B's relocation entries are merged before the label loop
        exr = [(bi, t) for bi, t, c, _ in lb.calls() if shape.short_callee(c) == "extend" and nf.arg_x(lb, t, 1, bi, 8) == "arg2.sym as Some.0.rel_map"]
        lab_next = [bi for bi, t, c, _ in lb.calls() if (c or "").endswith("Iterator>::next") and "label_map" in nf.arg_x(lb, t, 0, bi, 8)]
        ok = len(exr) == 1 and len(lab_next) == 1 and lb.dominates(exr[0][0], lab_next[0]) and ".rel_map" in nf.arg_x(lb, exr[0][1], 0, exr[0][0], 8) + ".rel_map"
        tgt = nf.arg_x(lb, exr[0][1], 0, exr[0][0], 6) if exr else "?"
        ck.ob(rule, "rel-maps-merged-first", ok, "B's relocation entries are added to A's (%s...) before the label loop, so a definition in either file resolves uses in either" % tgt[:60], where)
        # the apply loop
        gm = [(bi, t) for bi, t, c, _ in lb.calls() if (c or "").endswith("ObjectFile::get_mut")]
        rp = [(bi, t) for bi, t, c, _ in lb.calls() if (c or "").endswith("Option::<T>::replace") and "ObjectFile::get_mut" in nf.arg_x(lb, t, 0, bi, 10)]
        ok = False
        detail = "?"
        if len(gm) == 1 and len(rp) == 1:
            a_addr = nf.arg_x(lb, gm[0][1], 1, gm[0][0], 12)
            a_val = nf.arg_x(lb, rp[0][1], 1, rp[0][0], 12)
            g = shape.edge_conds(lb, rp[0][0])
            ok = a_addr == "next(into_iter(Vec::new())) as Some.0.0" and a_val == "next(into_iter(Vec::new())) as Some.0.1" and \
                [via for d, via in g if "get_mut" in d] == [("1",)]
            okret = [bi for bi, si, s in lb.stmts() if s["k"] == "assign" and s["p"]["l"] == 0 and s["rv"]["k"] == "agg" and s["rv"].get("variant") == "Ok"]
            loop_exit_dominates_ok = bool(okret) and all(lb.dominates([bi for bi, t, c, _ in lb.calls() if (c or "").endswith("Iterator>::next") and nf.arg_x(lb, t, 0, bi, 8) == "into_iter(Vec::new())"][0], r) for r in okret)
            ok = ok and loop_exit_dominates_ok and len(okret) == 1
            detail = "for (addr, linked) in relocations { get_mut(%s) -> replace(%s) }; the loop lies on every path to the single Ok: %s" % (a_addr, a_val, loop_exit_dominates_ok)
        ck.ob(rule, "apply-loop", ok, "every queued relocation is written into the block map before link returns Ok: %s" % detail, where)
    g = "next_back(BTreeMap::range_mut(arg1.block_map, RangeToInclusive(arg2)))"
    nf.expect_deep(ck, F, rule, "get_mut", "asm::ObjectFile::get_mut",
                   ["[fail(%s)] => propagate(%s) ; [ok(%s)] => get_mut(deref_mut(try(%s).1), (wrapping_sub(arg2, try(%s).0) as usize))" % (g, g, g, g, g)],
                   "the word at addr = element addr - start of the last block starting at or before addr")
    # pass 2 writes the placeholder through lookup_label (0 for an external)
    wd = F.bodies.get("asm::ObjectFile::new::ObjBlock::write_directive")
    if ck.anchor(rule, "write_directive", wd):
        pushes = [nf.arg_x(wd, t, 1, bi, 14) for bi, t, c, _ in wd.calls() if (c or "").endswith("ObjBlock::push")]
        ok = any("SymbolTable::lookup_label(arg3, deref(arg2 as Fill.0 as Label.0.name))" in p for p in pushes)
        ck.ob(rule, "fill-placeholder", ok, ".fill LABEL stores lookup_label(name) (an external's table address, 0) which the relocation later replaces: %s" % [p[:150] for p in pushes], "src/asm.rs:%s" % wd.line)
