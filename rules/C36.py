"""C36 - Printed statements reparse to the same statement (printer tables vs parser tables vs token languages)."""
import re
from lib import panics, shape, nf, fmtx, parsex, lexattrs, relang

LEVEL = "other"
L = "λ"


def token_langs(repo):
    by = {}
    for e in lexattrs.load(repo):
        if e["variant"]:
            by.setdefault(e["variant"], []).append(e["atoms"])
        elif e["kind"] == "skip":
            by.setdefault("<skip>", []).append(e["atoms"])
    return by


def run(ck, ctx):
    F = ctx.F
    panics.FACTS = F
    G = __import__("json").load(open(__import__("os").path.join(__import__("os").path.dirname(__import__("os").path.dirname(__import__("os").path.abspath(__file__))), "spec", "grammar.json")))
    ck.rule("R2 printer<->parser: for each of the 25 AsmInstr and 6 Directive variants the text written by Display (format templates decoded from MIR) is "
            "`MNEMONIC op0, op1, ..` with the variant's own fields in constructor order; the mnemonic, upper-cased, is a keyword row of Ident::from_str / a string "
            "pattern of the directive parser whose arm builds the same variant, filling field k from the k-th operand it parses with a Comma parse between "
            "operands; BR prints BR+n/z/p for the tested mask bits and every non-zero mask maps back to the parser arm carrying that mask, mask 0 is never built "
            "by the parser. Operand printers (Reg, Offset Display/UpperHex, PCOffset, ImmOrReg, Label) in normal form, and R10 language facts: what they print "
            "lies inside the token language their parser consumes. `.stringz` is printed with str's Debug and every escape Debug emits for the property's "
            "alphabet is an escape arm of the string lexer with the same meaning; Stmt prints each label followed by one space, then the nucleus")
    ck.explanation = ("The round trip print -> lex -> parse is a composition of finite tables (mnemonic, operand order, separators, numeric notation, escapes); each table is "
                      "recovered from the code on both sides and compared. logos' longest-match/priority resolution between overlapping token kinds is trusted.")
    # ---------------------------------------------------------------- tables
    kw_rows, default, ident_names = parsex.keyword_rows(F)
    kw = {k: v for k, v, s in kw_rows}
    irows, discr, arm_names = parsex.instr_parse_rows(F)
    by_ident = {}
    for r in irows:
        for a in r["arm"]:
            by_ident.setdefault(a, []).append(r)
    drows, dscr, dkws = parsex.directive_parse_rows(F)
    by_dir = {}
    for r in drows:
        for a in r["arm"]:
            by_dir.setdefault(a, []).append(r)
    disp, db = parsex.display_rows(F, parsex.ASM)
    ddisp, ddb = parsex.display_rows(F, parsex.DIRECTIVE)
    flds = parsex.fields_of(F, parsex.ASM)
    dflds = parsex.fields_of(F, parsex.DIRECTIVE)
    ck.floor("C36.1", "AsmInstr Display rows", len(disp), 25)
    ck.floor("C36.1", "parser arms", len(irows), 32)
    ck.floor("C36.1", "keyword rows", len(kw_rows), 32)
    ck.floor("C36.2", "Directive Display rows", len(ddisp), 6)

    def operands_of(segs, variant, mnemonic_sep=" "):
        """split 'MNEMONIC a, b, c' segments -> (mnemonic, [value segs], ok-separators)"""
        if not segs or segs[0][0] != "lit":
            return None, [], False
        head = segs[0][1]
        rest = segs[1:]
        if not rest:
            return head, [], " " not in head
        if not head.endswith(mnemonic_sep) or " " in head[:-1]:
            return head, [], False
        ops = []
        ok = True
        expect_val = True
        for s in rest:
            if expect_val:
                ok = ok and s[0] == "val"
                ops.append(s)
            else:
                ok = ok and s == ("lit", ", ")
            expect_val = not expect_val
        return head[:-1], ops, ok and not expect_val

    def parser_operand_positions(row):
        """for a parser row: [field index -> operand ordinal], and whether Commas separate consecutive operands"""
        seq = row["seq"]
        kinds = [("comma" if ty == "parse::simple::Comma" else "op") for k, ty, dom in seq if k == "parse" or (k == "match" and ty == "parse::simple::Comma")]
        alt = all(kinds[i] == ("op" if i % 2 == 0 else "comma") for i in range(len(kinds))) and (not kinds or kinds[-1] == "op")
        ordinal = {}
        n = 0
        for i, (k, ty, dom) in enumerate(seq):
            if k == "parse" and ty != "parse::simple::Comma":
                ordinal[i] = n
                n += 1
        pos = []
        for f in row["fields"]:
            if f[0] == "parse":
                pos.append(ordinal.get(f[2]))
            else:
                pos.append(f)
        return pos, alt

    # ---------------------------------------------------------------- C36.1 instructions
    for v, evs in sorted(disp.items()):
        where = "src/ast/asm.rs:%s" % (evs[0]["line"] if evs else db.line)
        if v == "BR":
            continue
        if len(evs) != 1 or evs[0]["segs"] is None or evs[0]["conds"]:
            ck.ob("C36.1", "instr:" + v, False, "obligation not established: %s is not printed by a single unconditional write (%s)" % (v, [fmtx.show(e["segs"]) for e in evs]), where)
            continue
        m, ops, sep_ok = operands_of(evs[0]["segs"], v)
        ident = kw.get((m or "").upper())
        prow = by_ident.get(ident, [])
        ok = False
        why = ""
        if ident is None:
            why = "mnemonic %r is not a keyword" % m
        elif len(prow) != 1:
            why = "%d parser rows for %s" % (len(prow), ident)
        else:
            pr = prow[0]
            pos, alt = parser_operand_positions(pr)
            printed = [re.match(r"^arg1 as %s\.(\d+)$" % re.escape(v), o[2]) for o in ops]
            printed_idx = [int(x.group(1)) if x else None for x in printed]
            n = len(flds[v])
            if v == "NOP":
                # the operand is optional for the parser; the printer always prints it
                pos_ok = len(pr["fields"]) == 1 and ("parse", "ast::PCOffset<i16, 9>", False) in [(k, ty, dom) for k, ty, dom in pr["seq"]] and "PCOffset::Offset(Offset::new_trunc(0))" in str(pr["fields"][0])
                alt = True
            else:
                pos_ok = pos == list(range(n))
            ok = pr["variant"] == v and sep_ok and printed_idx == list(range(n)) and pos_ok and alt
            why = "prints %r with fields %s; keyword %s -> parser arm builds %s from operands %s (commas between operands: %s)" % (m, printed_idx, ident, pr["variant"], pos if v != "NOP" else "optional", alt)
        ck.ob("C36.1", "instr:" + v, ok, why, where)
        # numeric notation of the operands
        for k, o in enumerate(ops):
            ty = flds[v][k] if k < len(flds[v]) else "?"
            want_hex = ty.startswith("ast::Offset<u16")
            tr_ok = (o[1] == "display" and not o[3].get("width")) or (o[1] == "upper_hex" and want_hex and o[3].get("zero"))
            ck.ob("C36.1", "instr:%s:op%d" % (v, k), tr_ok, "operand %d (%s) is printed with %s %s" % (k, ty, o[1], {a: b for a, b in o[3].items() if b}), where, nontrivial=False)
    # BR: which mask values print which text.  The path conditions of every write in the BR arm are evaluated for
    # each of the 8 mask values (a truth table), so any spelling of the tests (`cc != &0`, `cond == 0` with the arms
    # swapped, `cc & 4 != 0`, `cc & 4 == 4`) gives the same table; an atom the evaluator does not know fails closed.
    br = disp.get("BR", [])
    where = "src/ast/asm.rs:%s" % (br[0]["line"] if br else db.line)
    zero_const = [s2["rv"]["op"].get("val") for pb in db.promoted for blk in pb.blocks for s2 in blk["stmts"] if s2["k"] == "assign" and s2["rv"]["k"] == "use" and s2["rv"]["op"].get("k") == "const" and s2["rv"]["op"].get("ty") == "u8"]
    M = r"(?:deref\()?arg1 as BR\.0\)?"

    def atom_value(d, m):
        """value (0/1) of a rendered boolean atom for mask value m; None if the atom is not about the mask or unknown"""
        mm = re.fullmatch(r"Eq\((\d+), BitAnd\((\d+), %s\)\)" % M, d)
        if mm:
            return int((m & int(mm.group(2))) == int(mm.group(1)))
        mm = re.fullmatch(r"Eq\((\d+), %s\)" % M, d)
        if mm:
            return int(m == int(mm.group(1)))
        mm = re.fullmatch(r"Lt\((\d+), %s\)" % M, d)
        if mm:
            return int(int(mm.group(1)) < m)
        mm = re.fullmatch(r"(ne|eq)\(%s, promoted\[\d*\]\)" % M, d)
        if mm and zero_const == [0]:
            return int((m != 0) if mm.group(1) == "ne" else (m == 0))
        return None
    table = {}
    unknown = set()
    tail = None
    for e in br:
        segs = e["segs"]
        if not (segs and len(segs) == 1 and segs[0][0] == "lit"):
            tail = e
            continue
        txt = segs[0][1]
        pcs = nf.path_conditions(db, e["block"], lambda x: not x.startswith("discr("))
        on = set()
        for m in range(8):
            for pc in (pcs or []):
                vals = [(atom_value(d, m), lab) for d, lab in pc]
                unknown |= set(d for (d, lab), (v, _) in zip(pc, vals) if v is None and ("BR.0" in d))
                if all(v is None or str(v) == lab for v, lab in vals):
                    on.add(m)
                    break
        table.setdefault(txt, set()).update(on)
    order = [e["segs"][0][1] for e in sorted((x for x in br if x is not tail), key=lambda x: x["line"])]
    pos = {t: i for i, t in enumerate(order)}
    want = {"BR": {1, 2, 3, 4, 5, 6, 7}, "NOP": {0}, "n": {4, 5, 6, 7}, "z": {2, 3, 6, 7}, "p": {1, 3, 5, 7}}
    ok_base = not unknown and table.get("BR") == want["BR"] and table.get("NOP") == want["NOP"]
    ck.ob("C36.1", "BR:zero-test", ok_base, "'BR' is printed iff the mask != 0 and 'NOP' iff it is 0: masks printing BR %s, NOP %s%s" % (sorted(table.get("BR", [])), sorted(table.get("NOP", [])), " (unknown atoms %s)" % sorted(unknown) if unknown else ""), where)
    # letters follow 'BR' in the order n z p: each later write is reachable from the earlier one, not the other way round
    blk = {e["segs"][0][1]: e["block"] for e in br if e is not tail}
    seq_ok = all(t in blk for t in ("BR", "n", "z", "p")) and all(db.can_reach(blk[a], blk[b]) and not db.can_reach(blk[b], blk[a]) for a, b in (("BR", "n"), ("n", "z"), ("z", "p")))
    ok_flags = not unknown and set(table) == set(want) and all(table[t] == want[t] for t in want) and seq_ok
    ck.ob("C36.1", "BR:flags", ok_flags, "masks under which each text of the BR arm is printed: %s (required BR:1-7, NOP:0, n:bit 4, z:bit 2, p:bit 1; written in the order BR n z p: %s)" % ({t: sorted(v) for t, v in sorted(table.items())}, seq_ok), where)
    tail_pcs = nf.path_conditions(db, tail["block"], lambda x: "BR.0" in x) if tail else None
    tail_all = tail_pcs is not None and all(any(all(atom_value(d, m) is None or str(atom_value(d, m)) == lab for d, lab in pc) for pc in tail_pcs) for m in range(8))
    ok_tail = tail is not None and fmtx.show(tail["segs"]) == "' ' {arg1 as BR.1:}" and tail_all
    ck.ob("C36.1", "BR:offset", ok_tail, "then, for every mask value, one space and the offset field: %s" % (fmtx.show(tail["segs"]) if tail else None), where)
    masks = {}
    for m in range(1, 8):
        name = "BR" + "".join(ch for ch, bit in (("n", 4), ("z", 2), ("p", 1)) if m & bit)
        ident = kw.get(name.upper())
        rows = by_ident.get(ident, [])
        got = rows[0]["fields"][0] if len(rows) == 1 and rows[0]["variant"] == "BR" and rows[0]["fields"] else None
        masks[name] = (ident, got)
        ck.ob("C36.1", "BR:mask%d" % m, got == ("const", m), "mask %d prints %s; keyword %s -> parser arm builds BR with mask %s" % (m, name, ident, got), where)
    zero = [r for r in irows if r["variant"] == "BR" and r["fields"] and r["fields"][0] == ("const", 0)]
    ck.ob("C36.1", "BR:mask0-not-produced", not zero and len([r for r in irows if r["variant"] == "BR"]) == 8, "no parser arm builds BR with mask 0 (its printed form NOP reparses as the NOP variant)", where)
    # ---------------------------------------------------------------- C36.2 directives
    for v, evs in sorted(ddisp.items()):
        where = "src/ast/asm.rs:%s" % (evs[0]["line"] if evs else ddb.line)
        if len(evs) != 1 or evs[0]["segs"] is None or evs[0]["conds"]:
            ck.ob("C36.2", "directive:" + v, False, "obligation not established: %s is not printed by a single unconditional write" % v, where)
            continue
        m, ops, sep_ok = operands_of(evs[0]["segs"], v)
        name = (m or "")
        ok = name.startswith(".") and name[1:].upper() in by_dir and len(by_dir[name[1:].upper()]) == 1
        why = "directive %r" % m
        if ok:
            pr = by_dir[name[1:].upper()][0]
            n = len(dflds[v])
            printed_idx = [int(x.group(1)) if x else None for x in [re.match(r"^arg1 as %s\.(\d+)$" % re.escape(v), o[2]) for o in ops]]
            ok = pr["variant"] == v and sep_ok and printed_idx == list(range(n)) and len(pr["fields"]) == n
            tr = [(o[1], {a: b for a, b in o[3].items() if b}) for o in ops]
            want_tr = {"Orig": [("upper_hex", {"fill": " ", "zero": True, "width": 4})], "Fill": [("display", {"fill": " "})], "Blkw": [("display", {"fill": " "})],
                       "Stringz": [("debug", {"fill": " "})], "End": [], "External": [("display", {"fill": " "})]}.get(v)
            tr_n = [(a, {k2: v2 for k2, v2 in b.items() if k2 != "fill"} | {"fill": " "}) for a, b in tr]
            ok = ok and tr_n == want_tr
            why = "prints %r + fields %s as %s; pattern %s -> parser arm builds %s" % (m, printed_idx, tr, name[1:].upper(), pr["variant"])
        ck.ob("C36.2", "directive:" + v, ok, why, where)
    ck.ob("C36.2", "directive-case", all("to_uppercase(" in s for s in dscr) and len(dscr) == 1, "the directive name is matched after to_uppercase: %s" % dscr, "src/parse.rs")
    ck.ob("C36.1", "keyword-case", all(s == "deref(to_uppercase(arg1))" for k, v, s in kw_rows) and all(k == v for k, v, s in kw_rows),
          "every keyword row compares to_uppercase(text) with the variant's own name (%d rows)" % len(kw_rows), "src/parse/lex.rs")
    # ---------------------------------------------------------------- C36.3 operand printers
    def ex(key, path, accepted, what, file="src/ast.rs"):
        b = F.bodies.get(path)
        if not ck.anchor("C36.3", path, b):
            return
        evs = fmtx.write_events(F, b)
        got = " ; ".join("%s%s" % (fmtx.show(e["segs"]), "" if not e.get("error") else " !" + e["error"]) for e in sorted(evs, key=lambda e: (e["line"], e["block"])))
        got2 = nf.deep(F, path)
        ck.ob("C36.3", key, (got, got2) in accepted or got in [a for a in accepted if isinstance(a, str)], "%s: writes %s ; value %s" % (what, got, got2[:160]), "%s:%s" % (file, b.line))
    ex("Reg", "<ast::Reg as std::fmt::Display>::fmt", ["'R' {Reg::reg_no(arg1):}"], "a register prints R and its number")
    od = "<ast::Offset<OFF, N> as std::fmt::%s>::fmt"
    b = F.bodies.get(od % "Display")
    if ck.anchor("C36.3", od % "Display", b):
        got = nf.deep(F, od % "Display")
        ck.ob("C36.3", "Offset:Display", got in ("[fail(write_char(arg2, 35))] => propagate(write_char(arg2, 35)) ; [ok(write_char(arg2, 35))] => Display::fmt(arg1.0, arg2)", "Display::fmt(arg1.0, arg2)"),
              "an offset prints (optionally '#' and) its backing integer in decimal with the caller's options - both spellings are decimal literals of the lexer: %s" % got, "src/ast.rs:%s" % b.line)
    b = F.bodies.get(od % "UpperHex")
    if ck.anchor("C36.3", od % "UpperHex", b):
        got = nf.deep(F, od % "UpperHex")
        ck.ob("C36.3", "Offset:UpperHex", got == "[fail(write_char(arg2, 120))] => propagate(write_char(arg2, 120)) ; [ok(write_char(arg2, 120))] => UpperHex::fmt(arg1.0, arg2)", "{:X} of an offset prints 'x' then the backing integer in upper hex: %s" % got, "src/ast.rs:%s" % b.line)
    nf.expect_deep(ck, F, "C36.3", "PCOffset", "<ast::PCOffset<OFF, N> as std::fmt::Display>::fmt",
                   ["[discr(arg1) in [0,0]] => Display::fmt(arg1 as Offset.0, arg2) ; [discr(arg1) in [1,1]] => fmt(arg1 as Label.0, arg2)"], "an offset-or-label prints whichever it holds", file="src/ast.rs")
    nf.expect_deep(ck, F, "C36.3", "ImmOrReg", "<ast::ImmOrReg<N> as std::fmt::Display>::fmt",
                   ["[discr(arg1) in [0,0]] => fmt(arg1 as Imm.0, arg2) ; [discr(arg1) in [1,1]] => fmt(arg1 as Reg.0, arg2)"], "an immediate-or-register prints whichever it holds", file="src/ast.rs")
    nf.expect_deep(ck, F, "C36.3", "Label", "<ast::Label as std::fmt::Display>::fmt", ["fmt(arg1.name, arg2)"], "a label prints its name", file="src/ast.rs")
    nf.expect_deep(ck, F, "C36.3", "StmtKind", "<ast::asm::StmtKind as std::fmt::Display>::fmt",
                   ["[discr(arg1) in [0,0]] => fmt(arg1 as Instr.0, arg2) ; [discr(arg1) in [1,1]] => fmt(arg1 as Directive.0, arg2)"], "the nucleus prints the instruction or directive it holds", file="src/ast/asm.rs")
    sb = F.bodies.get("<ast::asm::Stmt as std::fmt::Display>::fmt")
    if ck.anchor("C36.3", "Display for Stmt", sb):
        calls = [(shape.short_callee(c), nf.arg_x(sb, t, 0, bi, 10), nf.arg_x(sb, t, 1, bi, 6) if len(t["args"]) > 1 else "") for bi, t, c, _ in sorted(sb.calls(), key=lambda x: x[1]["line"]) if shape.short_callee(c) in ("fmt", "write_char", "Write::write_char")]
        ok = len(calls) == 3 and calls[0][0] == "fmt" and calls[0][1].startswith("next(") and ".labels" in calls[0][1] and calls[1][0].endswith("write_char") and calls[1][2] == "32" and calls[2] == ("fmt", "arg1.nucleus", "arg2")
        ck.ob("C36.3", "Stmt", ok, "a statement prints every label followed by one space, then the nucleus: %s" % calls, "src/ast/asm.rs:%s" % sb.line)
    # ---------------------------------------------------------------- C36.4 language facts: printed forms lie in the consumed token language
    T = token_langs(ctx.repo)
    A = relang.atoms
    facts = [
        ("R[0-7] is a Reg token", [A("R[0-7]")], T.get("Reg", [])),
        ("#[0-9]+ is an Unsigned token", [A("#[0-9]+")], T.get("Unsigned", [])),
        ("#-[0-9]+ is a Signed token", [A("#-[0-9]+")], T.get("Signed", [])),
        ("[0-9]+ is an Unsigned token", [A("[0-9]+")], T.get("Unsigned", [])),
        ("-[0-9]+ is a Signed token", [A("-[0-9]+")], T.get("Signed", [])),
        ("x[0-9A-F]+ is an Unsigned token", [A("x[0-9A-F]+")], T.get("Unsigned", [])),
        ("[A-Z]+ (mnemonics) is an Ident token", [A("[A-Z]+")], T.get("Ident", [])),
        ("BRn?z?p? is an Ident token", [A("BRn?z?p?")], T.get("Ident", [])),
        (".[a-z]+ (directives) is a Directive token", [A(r"\.[a-z]+")], T.get("Directive", [])),
    ]
    for name, a, bpat in facts:
        ok, w = relang.included(a, bpat) if bpat else (False, "token kind missing")
        ck.ob("C36.4", "lang:" + name, ok, "%s%s" % (name, "" if ok else " - counterexample %r" % w), "src/parse/lex.rs")
    sk, w = relang.equal([A(r"[ \t]+")], T.get("<skip>", [[]])) if T.get("<skip>") else (False, "no skip pattern")
    ck.ob("C36.4", "lang:blank-skipped", sk, "the separators the printer writes (single spaces) are skipped by the lexer: skip = [ \\t]+%s" % ("" if sk else " - %r" % w), "src/parse/lex.rs")
    toks = dict((e["variant"], e) for e in lexattrs.load(ctx.repo) if e["kind"] == "token")
    ck.ob("C36.4", "lang:comma", "Comma" in toks and toks["Comma"]["pattern"] == "," and "Colon" in toks and toks["Colon"]["pattern"] == ":", "',' is the Comma token: %s" % {k: v["pattern"] for k, v in toks.items()}, "src/parse/lex.rs")
    # ---------------------------------------------------------------- C36.5 string literals
    lb = F.bodies.get("parse::lex::lex_str_literal")
    if ck.anchor("C36.5", "lex_str_literal", lb):
        where = "src/parse/lex.rs:%s" % lb.line
        # the escape switch: a switch on a `char` whose arms push a constant char
        esc = {}
        other = []
        for bi, t in lb.terms("switch"):
            if t.get("discr_ty") != "char":
                continue
            for v, tb in t["values"]:
                pushes = []
                x = tb
                seen = set()
                while x is not None and x not in seen:
                    seen.add(x)
                    tt = lb.blocks[x]["term"]
                    if tt["k"] == "call" and shape.short_callee((tt["func"].get("resolved") or {}).get("path") or tt["func"].get("fn")) == "String::push":
                        a = tt["args"][1]
                        pushes.append(a.get("val") if a.get("k") == "const" else None)
                        x = tt.get("target")
                    elif tt["k"] == "goto":
                        x = tt["target"]
                    else:
                        break
                esc[chr(v)] = pushes
            other.append(t["otherwise"])
        want = {k: [v] for k, v in G["string_escapes"].items()}
        ck.ob("C36.5", "escape-table", esc == want, "escape arms of the string lexer: %s (required: %s)" % ({k: v for k, v in sorted(esc.items())}, want), where)
        # str's Debug emits for the alphabet {printable ASCII, \t, \n, \r, \0}: \t \n \r \0 \\ \"   (core::char::methods::escape_debug_ext, trusted)
        dbg = {"t": 9, "n": 10, "r": 13, "0": 0, "\\": 92, "\"": 34}
        ck.ob("C36.5", "debug-escapes-covered", all(esc.get(k) == [v] for k, v in dbg.items()),
              "every escape str::fmt::Debug produces for printable ASCII, tab, newline, CR and NUL (\\t \\n \\r \\0 \\\\ \\\") is an escape arm with the same character", where)
        quote = [(bi, t) for bi, t, c, _ in lb.calls() if shape.short_callee(c) == "find"]
        pat = nf.arg_x(lb, quote[0][1], 1, quote[0][0], 6) if quote else "?"
        ck.ob("C36.5", "terminators", pat == "array(92, 34)", "the scanner stops at backslash and double quote only: find(%s)" % pat, where)
    sz = ddisp.get("Stringz", [])
    ok = len(sz) == 1 and sz[0]["segs"] and sz[0]["segs"][-1][0] == "val" and sz[0]["segs"][-1][1] == "debug" and dflds["Stringz"] == ["std::string::String"] and not sz[0]["segs"][-1][3].get("alt")
    ck.ob("C36.5", "stringz-debug", ok, ".stringz prints its String with {:?} (quotes added and escapes by core's Debug for str, no alternate flag)", "src/ast/asm.rs")
    ck.include("C05", ctx, "C36.6", {"C05.3", "C05.5"}, "printed numbers and registers are read back by the validators and field conversions")
    ck.assume("logos resolves overlaps between token kinds by longest match and priority (R5 lexes as a register, ADD as an instruction); pinned by the crate's lexer tests")
    ck.assume("core's Debug for str escapes exactly \\t \\n \\r \\0 \\\\ \\\" (and \\' never) within the property's alphabet; integer Display/UpperHex print canonical decimal / upper-case hex")
    ck.assume("labels produced by the parser are identifier tokens that are neither keywords, registers nor hex literals (they were lexed as Ident::Label)")
