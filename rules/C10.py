"""C10 - Interrupts are priority-gated and transparent to the interrupted program (gating, entry
sequence and the push/pop pairing; the transparency consequence over schedules is not decided)."""
from lib import simx, tables, panics, nf
from lib.panics import _unwrap_var, interval
import C06

LEVEL = "other"
SPEC = C06.SPEC


def order(b, blocks):
    """blocks form a chain under dominance, in the given order (consecutive entries may share a block
    only when flagged by the caller)"""
    return all(x is not None for x in blocks) and all(b.dominates(blocks[i], blocks[i + 1]) for i in range(len(blocks) - 1))


def run(ck, ctx):
    F = ctx.F
    panics.FACTS = F
    ck.rule("R4: device interrupts are polled only at the top of _step_inner, before the fetch; handle_interrupt(x100+vect, Some(p)) is reached only on "
            "the edge p > psr.priority() and re-checks p <= priority inside; R6: arbitration is max_by_key on the clamped priority; R4/R6: entry "
            "sequence of handle_interrupt (old PSR/PC read before the privilege change, stack swap iff user mode, pushes at SP-1/SP-2, SP -= 2, "
            "CC := Z, priority := p only for interrupts); R2: the RTI arm pops exactly what entry pushed (inverse offset pairs)")
    ck.explanation = "Dominance and provenance checks on the MIR of _step_inner, handle_interrupt, call_interrupt and DeviceHandler::poll_interrupt."
    try:
        b, swb, arms = simx.step_arms(F)
    except tables.TableError as ex:
        ck.fail("C10.0", "arms", "obligation not established: %s" % ex)
        return
    cv = lambda body, x: simx.classify_value(body.expr_of_operand(x, 30), 0, body)
    # ---- C10.1 boundary
    poll = [bi for bi, t, c, _ in b.calls() if (c or "").endswith("DeviceHandler as sim::device::ExternalDevice>::poll_interrupt")]
    fetch = [bi for bi, t, c, _ in b.calls() if (c or "").endswith("Simulator::read_mem") and cv(b, t["args"][1]) == ("pc",)]
    ck.ob("C10.1", "poll-before-fetch", len(poll) == 1 and len(fetch) == 1 and b.dominates(poll[0], fetch[0]) and b.dominates(poll[0], swb),
          "one poll_interrupt call (block %s) dominating the fetch (block %s) and the instruction match" % (poll, fetch), "src/sim.rs:%s" % b.line)
    pollers = sorted(p for p, bb in F.bodies.items() if not bb.light and any((c or "").endswith("DeviceHandler as sim::device::ExternalDevice>::poll_interrupt") for _, _, c, _ in bb.calls()))
    ck.ob("C10.1", "single-poller", pollers == [simx.STEP], "callers of DeviceHandler::poll_interrupt: %s" % pollers, "src/sim.rs")

    # ---- C10.2 gate
    his = [(bi, t) for bi, t, c, _ in b.calls() if (c or "").endswith("Simulator::handle_interrupt") and not any(b.dominates(tb, bi) for tb, _ in arms.values())]
    gate_ok = False
    vec_ok = False
    detail = ""
    if len(his) == 1:
        bi, t = his[0]
        # name-independent: arguments and complete path condition of the call, in normal form
        POLL = "poll_interrupt(arg1.device_handler) as Some.0.kind"
        a_vec, a_pri = nf.arg_x(b, t, 1, bi), nf.arg_x(b, t, 2, bi)
        vec_ok = a_vec == "Add((%s as Vectored.vect as u16), %d)" % (POLL, SPEC["vectors"]["interrupt_base"])
        some_p = a_pri == "Option::Some(%s as Vectored.priority)" % POLL
        pcs = nf.path_conditions(b, bi, lambda x: "poll_interrupt(" in x and "branch(" not in x)
        want_pc = {("Lt(PSR::priority(Simulator::psr(arg1)), %s as Vectored.priority)" % POLL, "1"), ("discr(%s)" % POLL, "0"), ("discr(poll_interrupt(arg1.device_handler))", "1")}
        gate_ok = some_p and pcs is not None and [set(pc) for pc in pcs] == [want_pc]
        detail = "vector %s, priority argument %s, path condition %s" % (a_vec, a_pri, sorted(sorted(pc) for pc in (pcs or [])))
    ck.ob("C10.2", "gate", gate_ok, "handle_interrupt for a device interrupt is reached exactly when a vectored interrupt is pending and psr.priority() < its priority (%s)" % detail, "src/sim.rs")
    ck.ob("C10.6", "vector-base", vec_ok, "interrupt vector = x0100 + u16::from(vect)", "src/sim.rs")
    ext = False
    for bi, si, s in b.stmts():
        if s["k"] == "assign" and s["rv"]["k"] == "agg" and s["rv"].get("adt") == "sim::SimErr" and s["rv"]["variant"] == "Interrupt":
            for ex, lo, hi in panics.dominating_conditions(b, bi):
                if _unwrap_var(ex)[0] == "discr" and "InterruptKind" in repr(ex) and lo == hi == 1:
                    ext = True
    ck.ob("C10.2", "external-kind", ext, "InterruptKind::External ends the step with SimErr::Interrupt", "src/sim.rs")
    hi_ = F.bodies.get("sim::Simulator::handle_interrupt")
    cl = F.bodies.get("sim::Simulator::handle_interrupt::{closure#0}")
    if ck.anchor("C10.2", "handle_interrupt", hi_) and ck.anchor("C10.2", "handle_interrupt::{closure#0}", cl):
        first = min((bi for bi, t, c, _ in hi_.calls()), default=None)
        early = any((c or "").endswith("Option::<T>::is_some_and") for bi, t, c, _ in hi_.calls() if bi == 0)
        le = False
        for bi, si, s in cl.stmts():
            if s["k"] == "assign" and s["rv"]["k"] == "bin" and s["rv"]["op"] == "Le":
                l, r = repr(cl.expr_of_operand(s["rv"]["l"])), repr(cl.expr_of_operand(s["rv"]["r"]))
                le = "'prio'" in l and "PSR::priority" in r
        ck.ob("C10.2", "inner-recheck", early and le, "handle_interrupt first returns Ok(()) when priority.is_some_and(|p| p <= psr.priority())", "src/sim.rs:%s" % hi_.line)

    # ---- C10.3 arbitration
    dp = F.bodies.get("<sim::device::DeviceHandler as sim::device::ExternalDevice>::poll_interrupt")
    if ck.anchor("C10.3", "DeviceHandler::poll_interrupt", dp):
        names = [(c or "").split("::")[-1] for _, _, c, _ in dp.calls()]
        kc = None
        for p in F.children.get(dp.path, []):
            bb = F.bodies[p]
            if any((c or "").endswith("Interrupt::priority") for _, _, c, _ in bb.calls()):
                for bi, t, c, _ in bb.calls():
                    if (c or "").endswith("Option::<T>::unwrap_or"):
                        kc = interval(bb.expr_of_operand(t["args"][1]))
        ck.ob("C10.3", "highest-wins", "max_by_key" in names and "min_by_key" not in names and "filter_map" in names and kc == (8, 8),
              "arbitration: %s with key priority().unwrap_or(%s)" % ([n for n in names if "by_key" in n or n == "filter_map"], kc), "src/sim/device.rs:%s" % dp.line)
    iv = F.bodies.get("sim::device::Interrupt::vectored")
    if ck.anchor("C10.3", "Interrupt::vectored", iv):
        cl_ = [(interval(iv.expr_of_operand(t["args"][1])), interval(iv.expr_of_operand(t["args"][2]))) for _, t, c, _ in iv.calls() if (c or "").endswith("::clamp")]
        ck.ob("C10.3", "priority-clamp", cl_ == [((0, 0), (7, 7))], "priority is clamped to %s" % cl_, "src/sim/device.rs:%s" % iv.line)
    ip = F.bodies.get("sim::device::Interrupt::priority")
    if ip is not None:
        r = repr([ip.expr_of_rvalue(rv, 10) for (_, si, rv) in ip.defs().get(0, []) if si != "term"])
        ck.ob("C10.3", "priority-accessor", "'BitAnd'" in r and "('const', 7, 'u8')" in r and "'None'" in r, "Interrupt::priority() is Some(p & 7) for vectored, None for external", "src/sim/device.rs:%s" % ip.line)
    for cname, want in (("sim::device::KB_INTV", SPEC["memory_map"]["kb_int_vect"]), ("sim::device::KB_INTP", SPEC["memory_map"]["kb_int_priority"])):
        c = F.consts.get(cname)
        ck.ob("C10.6", cname, bool(c) and c.get("val") == want, "%s = %s (ISA: %d)" % (cname, c and c.get("val"), want), "src/sim/device.rs")

    # ---- C10.4 entry sequence
    if hi_ is not None:
        def call_block(suffix, pred=None):
            xs = [bi for bi, t, c, _ in hi_.calls() if (c or "").endswith(suffix) and (pred is None or pred(t))]
            return xs[0] if len(xs) == 1 else None

        def stmt_block(pred):
            xs = [bi for bi, si, s in hi_.stmts() if pred(s)]
            return xs[0] if xs else None
        get_psr = call_block("PSR::get")
        read_pc = stmt_block(lambda s: s["k"] == "assign" and s["rv"]["k"] == "use" and s["rv"]["op"].get("k") == "copy" and any(isinstance(e, dict) and e.get("name") == "pc" for e in s["rv"]["op"]["p"]["proj"]) and hi_.local_name(s["p"]["l"]) == "old_pc")
        set_priv = call_block("PSR::set_privileged", lambda t: interval(hi_.expr_of_operand(t["args"][1])) == (1, 1))
        swap = call_block("std::mem::swap")
        sp_read = call_block("Word::get_if_init")
        sub2 = call_block("Word as std::ops::SubAssign<u16>>::sub_assign", lambda t: interval(hi_.expr_of_operand(t["args"][1])) == (2, 2))
        writes = [(bi, t) for bi, t, c, _ in hi_.calls() if (c or "").endswith("Simulator::write_mem")]
        ccz = call_block("PSR::set_cc_z")
        setp = call_block("PSR::set_priority")
        ci = call_block("Simulator::call_interrupt")
        ck.ob("C10.4", "old-state-before-privilege", order(hi_, [get_psr, set_priv]) and order(hi_, [read_pc, set_priv]) and get_psr != set_priv,
              "old PSR and old PC are read before set_privileged(true)", "src/sim.rs:%s" % hi_.line)
        sw_ok = False
        if swap is not None:
            for ex, lo, hi in panics.dominating_conditions(hi_, swap):
                if "PSR::privileged" in repr(ex) and hi == 0:
                    sw_ok = True
            t = [t for bi, t, c, _ in hi_.calls() if bi == swap][0]
            a0, a1 = repr(hi_.expr_of_operand(t["args"][0], 12)), cv(hi_, t["args"][1])
            sw_ok = sw_ok and "'saved_sp'" in a0 and a1 == ("reg", "R6")
            # the swap is guarded by exactly one test: psr.privileged() == false
            lg = simx.local_guards(hi_, swap, sp_read) if sp_read is not None else []
            sw_ok = sw_ok and len(lg) == 1 and "PSR::privileged" in repr(lg[0][1]) and lg[0][2] == "=[0]"
        ck.ob("C10.4", "stack-swap", sw_ok and order(hi_, [get_psr, swap]) is not None and swap is not None and sp_read is not None and hi_.can_reach(swap, sp_read) and not hi_.can_reach(sp_read, swap),
              "saved_sp <-> R6 are swapped exactly when the old mode was user, before SP is read", "src/sim.rs:%s" % hi_.line)
        pw = sorted(((cv(hi_, t["args"][1]), cv(hi_, t["args"][2])) for bi, t in writes), key=repr)
        SP = ("val", ("reg", "R6"))
        want = sorted([(("-", SP, ("const", 1)), ("val", ("field", "psr"))), (("-", SP, ("const", 2)), ("field", "pc"))], key=repr)
        # data provenance: old_psr = psr.get(); old_pc = self.pc
        got = []
        for bi, t in writes:
            a = cv(hi_, t["args"][1])
            d = repr(hi_.expr_of_operand(t["args"][2], 30))
            what = "old_psr" if "'old_psr'" in d and "PSR::get" in d else "old_pc" if "'old_pc'" in d else "?"
            got.append((a, what))
        want2 = sorted([(("-", SP, ("const", 1)), "old_psr"), (("-", SP, ("const", 2)), "old_pc")], key=repr)
        ck.ob("C10.4", "pushes", sorted(got, key=repr) == want2, "pushes: %s (ISA: PSR at SP-1, PC at SP-2)" % got, "src/sim.rs:%s" % hi_.line)
        ctxs = [simx.classify_ctx(hi_.expr_of_operand(t["args"][3], 30)) for bi, t in writes]
        ck.ob("C10.4", "push-context", ctxs == ["default", "default"], "push contexts: %s" % ctxs, "src/sim.rs:%s" % hi_.line)
        ck.ob("C10.4", "sp-minus-2", sub2 is not None and sp_read is not None and order(hi_, [sp_read, sub2]), "R6 -= 2 after SP was read", "src/sim.rs:%s" % hi_.line)
        pr_ok = False
        if setp is not None:
            for ex, lo, hi in panics.dominating_conditions(hi_, setp):
                if _unwrap_var(ex)[0] == "discr" and "'priority'" in repr(ex) and lo == hi == 1:
                    pr_ok = True
        ck.ob("C10.4", "priority-only-for-interrupts", pr_ok and ccz is not None, "CC := Z always; priority := p only under Some(p)", "src/sim.rs:%s" % hi_.line)
        ft_ok = False
        if ci is not None:
            t = [t for bi, t, c, _ in hi_.calls() if bi == ci][0]
            ft = simx.classify_value(hi_.expr_of_operand(t["args"][2], 20), 0, hi_)
            fl = hi_.expr_of_operand(t["args"][2], 0)
            rows = {}
            u = _unwrap_var(fl)
            if u[0] == "local":
                for (bj, sj, rv) in simx.leaf_defs(hi_, u[1]):
                    if sj != "term" and rv["k"] == "agg":
                        for ex, lo, hi in panics.dominating_conditions(hi_, bj):
                            if "is_some" in repr(ex) and lo is not None and lo == hi:
                                rows[lo] = rv.get("variant")
            ft_ok = rows == {1: "Interrupt", 0: "Trap"} and cv(hi_, t["args"][1]) == ("arg", "vect")
        ck.ob("C10.4", "frame-type", ft_ok, "call_interrupt(vect, Interrupt iff a priority was given)", "src/sim.rs:%s" % hi_.line)
    cib = F.bodies.get("sim::Simulator::call_interrupt")
    if ck.anchor("C10.4", "call_interrupt", cib):
        rd = [cv(cib, t["args"][1]) for _, t, c, _ in cib.calls() if (c or "").endswith("Simulator::read_mem")]
        sp = [cv(cib, t["args"][1]) for _, t, c, _ in cib.calls() if (c or "").endswith("Simulator::set_pc")]
        ck.ob("C10.4", "vector-fetch", rd == [("arg", "vect")] and sp == [("val", ("mem", ("arg", "vect")))], "new PC = mem[vect] read through read_mem: reads %s, set_pc %s" % (rd, sp), "src/sim.rs:%s" % cib.line)

    # ---- C10.5 RTI mirrors entry
    tb, blocks = arms["RTI"]
    reads = [(bi, cv(b, t["args"][1])) for bi, t, c in simx.calls_in(b, blocks, ["Simulator::read_mem"])]
    SP = ("val", ("reg", "R6"))
    setpc = [(bi, cv(b, t["args"][1])) for bi, t, c in simx.calls_in(b, blocks, ["Simulator::set_pc"])]
    psr_store = None
    psr_src = None
    for x in blocks:
        for s in b.blocks[x]["stmts"]:
            if s["k"] == "assign" and s["p"]["proj"] and isinstance(s["p"]["proj"][-1], dict) and s["p"]["proj"][-1].get("name") == "psr":
                an, fs = panics._agg_name(b.expr_of_rvalue(s["rv"], 30))
                psr_store = x
                psr_src = simx.classify_value(fs[0], 0, b) if fs else None
    pops_ok = [r for _, r in reads] == [SP, ("+", SP, ("const", 1))] and [r for _, r in setpc] == [("val", ("mem", SP))] and psr_src == ("val", ("mem", ("+", SP, ("const", 1))))
    ck.ob("C10.5", "pops-inverse-of-pushes", pops_ok,
          "RTI pops PC from SP+0 and PSR from SP+1 (entry pushed PSR at SP-1, PC at SP-2, then SP -= 2): reads %s, set_pc %s, psr <- %s" % ([r for _, r in reads], [r for _, r in setpc], psr_src), "src/sim.rs")
    swaps = simx.calls_in(b, blocks, ["std::mem::swap"])
    sw_ok = False
    if len(swaps) == 1 and psr_store is not None:
        sbi = swaps[0][0]
        for ex, lo, hi in panics.dominating_conditions(b, sbi):
            if "PSR::privileged" in repr(ex) and hi == 0:
                sw_ok = b.dominates(psr_store, sbi)
        # the privileged() tested must be evaluated after the PSR store
        pcs = [bi for bi, t, c in simx.calls_in(b, blocks, ["PSR::privileged"]) if b.dominates(psr_store, bi)]
        sw_ok = sw_ok and len(pcs) == 1 and b.dominates(pcs[0], sbi)
        pops = simx.calls_in(b, blocks, ["FrameStack::pop_frame"])
        lg = simx.local_guards(b, sbi, pops[0][0]) if pops else []
        sw_ok = sw_ok and len(lg) == 1 and "PSR::privileged" in repr(lg[0][1]) and lg[0][2] == "=[0]"
    ck.ob("C10.5", "swap-back", sw_ok, "after restoring the PSR, saved_sp <-> R6 are swapped iff the restored mode is user", "src/sim.rs")
    ck.include("C33", ctx, "C10.7", {"C33.2", "C33.3"}, "the keyboard raises its interrupt from ready && interrupt-enable; the register semantics the handlers rely on")
    ck.include("C09", ctx, "C10.8", {"C09.3", "C09.4"}, "the entry sequence stores through the supervisor context; RTI is privileged")
    ck.assume("handler transparency (equal final state for every interrupt schedule) depends on the handler program and is not decided")
    ck.assume("nesting behaviour follows from the same entry/exit pair; not separately decided")
