"""C18 - Text object format: the writer's and the reader's tables agree (sections, headers, cell formats, escaping)."""
import re
from lib import panics, shape, nf, fmtx

LEVEL = "other"
SER = "<asm::encoding::TextFormat as asm::encoding::ObjFileFormat>::serialize::_ser"
DE = "<asm::encoding::TextFormat as asm::encoding::ObjFileFormat>::deserialize"
ENC = "asm::encoding::"


def lines_of(events):
    """group the write events (in source order) into output lines: a line ends with a literal ending in '\\n'.
    -> [ {first_line, segs} ]  (segments of one output line, trailing newline removed)"""
    out = []
    cur = []
    start = None
    for ev in sorted(events, key=lambda e: (e["line"], e["block"])):
        if ev["segs"] is None:
            return None
        if start is None:
            start = ev["line"]
        for s in ev["segs"]:
            if s[0] == "lit":
                parts = s[1].split("\n")
                for i, p in enumerate(parts):
                    if p:
                        cur.append(("lit", p))
                    if i < len(parts) - 1:
                        out.append({"line": start, "segs": cur})
                        cur = []
                        start = ev["line"]
            else:
                cur.append(s)
    if cur:
        out.append({"line": start, "segs": cur})
    return out


def cells(segs, div):
    """split a line's segments at the divider literal -> list of cells (each a list of segments)"""
    out = [[]]
    for s in segs:
        if s[0] == "lit" and div in s[1]:
            parts = s[1].split(div)
            for i, p in enumerate(parts):
                if p:
                    out[-1].append(("lit", p))
                if i < len(parts) - 1:
                    out.append([])
        else:
            out[-1].append(s)
    return [fmtx.merge(c) for c in out]


def cell_kind(cell):
    """what a writer cell prints"""
    if len(cell) == 1 and cell[0][0] == "lit":
        return ("lit", cell[0][1])
    if len(cell) == 1 and cell[0][0] == "val":
        _, tr, val, o = cell[0]
        if tr == "upper_hex" and o.get("zero") and o.get("width") == 4:
            return ("hex4", val)
        if tr == "display":
            return ("display", val, o.get("width"), o.get("zero"), o.get("align"))
        return (tr, val, o.get("width"), o.get("zero"))
    return ("mixed", fmtx.show(cell))


def run(ck, ctx):
    F = ctx.F
    panics.FACTS = F
    ck.rule("R2 sibling agreement of the text codec, both sides extracted from MIR. Writer: every write!/writeln! of TextFormat::serialize is decoded from the "
            "format_args! template bytes and its Argument constructors into literal pieces and (trait, value, width/zero/align) cells, grouped into output lines and "
            "split at the TABLE_DIV literal. Reader: section names (string patterns), parse_table column arrays, trim flags and the per-column consumers of each row "
            "closure (hex2u16 / maybe_hex2u16 / parse::<T> / text) in normal form. Obligations: same magic line, same section set, same column headers per table, "
            "same number of cells per row, each writer cell is accepted by its reader consumer ({:04X} <-> exactly-4-digit radix-16, '????' <-> the reader's uninit "
            "literal, decimal <-> parse::<T> after trim, label <-> text), the source column is escape_default'ed last, read untrimmed and unescape'd after "
            "concatenation, the dividers written are the ones the reader strips, no data line can look like a comment/section/divider line, and every model field is written and restored")
    ck.explanation = ("The round trip needs the two sides to agree on a finite table of line shapes; that table is recovered from both functions and compared. "
                      "That escape_default and unescaper::unescape are inverse for every character is a property of the two libraries and is not decided.")
    sb = F.bodies.get(SER)
    db = F.bodies.get(DE)
    if not (ck.anchor("C18.1", SER, sb) and ck.anchor("C18.1", DE, db)):
        return
    sw = "src/asm/encoding.rs:%s" % sb.line
    dw = "src/asm/encoding.rs:%s" % db.line
    C = lambda n: (F.consts.get(ENC + n) or {}).get("str")
    MAGIC, UNINIT, DIV = C("TFMT_MAGIC"), C("TFMT_UNINIT"), C("TABLE_DIV")
    ck.ob("C18.1", "constants", all(x is not None for x in (MAGIC, UNINIT, DIV)) and "\n" not in DIV + UNINIT + MAGIC and not UNINIT.startswith("#"),
          "TFMT_MAGIC=%r TFMT_UNINIT=%r TABLE_DIV=%r evaluated from the crate" % (MAGIC, UNINIT, DIV), sw)
    evs = fmtx.write_events(F, sb)
    bad = [(e["line"], e["error"]) for e in evs if e["segs"] is None]
    ck.ob("C18.1", "writer-decoded", not bad and len(evs) >= 30, "%d write sites of the text writer decoded from their format templates; undecoded: %s" % (len(evs), bad), sw)
    ck.floor("C18.1", "writer write sites", len(evs), 30)
    L = lines_of(evs) if not bad else None
    if not ck.anchor("C18.1", "writer lines", L):
        return
    # ------------------------------------------------------------------ reader side
    D = 30
    # section names compared by the reader
    sec_r = []
    for bi, t, c, _ in db.calls():
        if shape.short_callee(c) in ("eq", "PartialEq::eq") and len(t["args"]) == 2:
            s = fmtx.const_str(F, db, nf.XB(db).expr_of_operand(t["args"][1], 8, (bi, "term")))
            if s is not None and s.startswith("."):
                sec_r.append(s)
    # parse_table call sites
    tables = []
    for bi, t, c, _ in db.calls():
        if (c or "").endswith("encoding::parse_table"):
            cols_e = panics._unwrap_var(nf.XB(db).expr_of_operand(t["args"][1], 12, (bi, "term")))
            cols = [fmtx.const_str(F, db, x) for x in cols_e[3]] if cols_e[0] == "agg" else None
            clo = re.search(r"\{closure#(\d+)\}", nf.arg_x(db, t, 2, bi, 6))
            trim = nf.arg_x(db, t, 3, bi, 6)
            pcs = nf.path_conditions(db, bi, lambda x: x.startswith("eq(") and "str'." in x)
            secs = set()
            for pc in pcs or []:
                secs |= set(re.search(r"str'(\.[A-Z_]+)'", d).group(1) for d, lab in pc if lab == "1")
            row = nf.render(nf.cases_x(F, "%s::{closure#%s}" % (DE, clo.group(1)))) if clo else "?"
            tables.append({"block": bi, "line": t["line"], "cols": cols, "trim": trim, "section": sorted(secs), "row": row})
    ck.floor("C18.2", "reader tables", len(tables), 4)

    def consumers(row):
        """{column index (negative = from the end): (consumer, trimmed by the closure itself)} from the success case of a row closure"""
        cons = {}
        for alt in row.split(" ; "):
            if "=> Option::Some(" not in alt:
                continue
            rest = alt
            pat = r"(hex2u16|maybe_hex2u16|parse_\w+)\((?:(map)\(arg2(?:\[[^\]]*\])?, fn:trim\)|arg2)\[(-?)(\d+)\]\)"
            for fn, trimmed, neg, idx in re.findall(pat, alt):
                cons[-int(idx) if neg else int(idx)] = (fn, bool(trimmed))
            rest = re.sub(pat, "_", alt)
            for neg, idx in re.findall(r"(?<!\w)arg2\[(-?)(\d+)\]", rest):
                cons.setdefault(-int(idx) if neg else int(idx), ("text", False))
        return cons
    # ------------------------------------------------------------------ C18.1 magic + sections
    first = L[0]["segs"] if L else []
    mg = [(bi, t) for bi, t, c, _ in db.calls() if shape.short_callee(c) in ("PartialEq::ne", "ne")]
    rmagic = None
    if mg:
        a1 = panics._unwrap_var(nf.XB(db).expr_of_operand(mg[0][1]["args"][1], 10, (mg[0][0], "term")))
        # &Option<&str> promoted: Some(TFMT_MAGIC)
        rmagic = None
        while a1[0] in ("ref", "deref"):
            a1 = panics._unwrap_var(a1[1])
        if a1[0] == "promoted" and a1[1] < len(db.promoted):
            for blk in db.promoted[a1[1]].blocks:
                for s in blk["stmts"]:
                    if s["k"] == "assign" and s["rv"]["k"] == "use" and s["rv"]["op"].get("uneval") in F.consts:
                        rmagic = F.consts[s["rv"]["op"]["uneval"]].get("str")
                    if s["k"] == "assign" and s["rv"]["k"] == "agg":
                        for f in s["rv"]["fields"]:
                            if f.get("uneval") in F.consts:
                                rmagic = F.consts[f["uneval"]].get("str")
        first_arg = nf.arg_x(db, mg[0][1], 0, mg[0][0], 12)
    ck.ob("C18.1", "magic", first == [("lit", MAGIC)] and rmagic == MAGIC and mg and first_arg.startswith("next(Iterator::filter("),
          "first line written = %r; the reader compares its first kept line with %r" % (first, rmagic), sw)
    sec_w = [l["segs"][0][1] for l in L if len(l["segs"]) == 1 and l["segs"][0][0] == "lit" and re.match(r"^\.[A-Z_]+$", l["segs"][0][1])]
    ck.ob("C18.1", "sections", sorted(sec_w) == sorted(sec_r) and len(sec_w) == 4 == len(set(sec_w)), "sections written %s = sections the reader has arms for %s" % (sec_w, sec_r), sw)
    # split writer lines by section
    by_sec = {}
    cur = None
    for l in L[1:]:
        if len(l["segs"]) == 1 and l["segs"][0][0] == "lit" and l["segs"][0][1] in sec_w:
            cur = l["segs"][0][1]
            by_sec[cur] = []
        elif cur is not None and l["segs"]:
            by_sec[cur].append(l)
    # ------------------------------------------------------------------ C18.2 tables
    def check_table(key, sec, wlines, rt, source_last=False):
        """wlines: [header line, row line] of the writer; rt: reader table"""
        where = "src/asm/encoding.rs:%s" % (wlines[0]["line"] if wlines else sb.line)
        if not (wlines and len(wlines) == 2 and rt):
            ck.ob("C18.2", key + ":found", False, "obligation not established: writer lines %s / reader table %s" % (len(wlines or []), bool(rt)), where)
            return
        hdr = [cell_kind(c) for c in cells(wlines[0]["segs"], DIV)]
        hdr_names = [h[1] if h[0] == "lit" else (h[1][1] if h[0] == "display" and isinstance(h[1], tuple) else None) for h in hdr]
        ck.ob("C18.2", key + ":header", hdr_names == rt["cols"] and rt["section"] == [sec],
              "%s header written %s (split at %r) = columns the reader requires %s in section %s" % (sec, hdr_names, DIV, rt["cols"], rt["section"]), where)
        row = [cell_kind(c) for c in cells(wlines[1]["segs"], DIV)]
        cons = consumers(rt["row"])
        n = len(rt["cols"] or [])
        ck.ob("C18.2", key + ":arity", len(row) == n and len(hdr) == n, "%d cells per row written, %d columns read" % (len(row), n), where)
        for i, cell in enumerate(row):
            cn = cons.get(i) or cons.get(i - n)
            trim_ok = rt["trim"] == "1" or (cn and cn[1])
            ok = False
            why = ""
            if cell[0] == "hex4":
                ok = cn is not None and cn[0] in ("hex2u16", "maybe_hex2u16")
                why = "{:04X} read by %s" % (cn,)
            elif cell[0] == "display" and isinstance(cell[1], str) and cell[1].startswith("escape_default("):
                ok = source_last and i == n - 1 and cn == ("text", False) and rt["trim"] == "0"
                why = "escape_default(..) in the last column, read untrimmed as text: %s trim=%s" % (cn, rt["trim"])
            elif cell[0] == "display" and isinstance(cell[1], str) and (cell[1].startswith("from(") or re.search(r"\.(0|1|2)$", cell[1]) or "Some.0" in cell[1]):
                if cn is not None and cn[0].startswith("parse_"):
                    ok = trim_ok and not cell[3]
                    why = "decimal (width %s) read by %s after trim=%s" % (cell[2], cn[0], trim_ok)
                elif cn is not None and cn[0] == "text":
                    ok = trim_ok or cell[2] is None
                    why = "text (width %s) read as text, trimmed=%s" % (cell[2], trim_ok)
            elif cell[0] == "display" and isinstance(cell[1], str) and cell[1].startswith("escape_default("):
                ok = source_last and i == n - 1 and cn == ("text", False) and rt["trim"] == "0"
                why = "escape_default(..) in the last column, read untrimmed as text: %s trim=%s" % (cn, rt["trim"])
            elif cell[0] == "mixed":
                # addr cell of the line table: {:04X} or the uninit literal, decided per line
                why = "mixed cell %s" % (cell[1],)
            ck.ob("C18.2", "%s:cell%d" % (key, i), ok, "%s column %d: %s" % (sec, i, why or cell), where)
    tb = {tuple(t["cols"] or []): t for t in tables}

    def row_value(cols, want, what):
        rt = tb.get(cols)
        got = [a.split("=> Option::Some(", 1)[1][:-1] for a in (rt["row"].split(" ; ") if rt else []) if "=> Option::Some(" in a]
        ck.ob("C18.2", "row-value:" + "/".join(cols), got == [want], "%s: %s" % (what, got), "src/asm/encoding.rs:%s" % (rt["line"] if rt else db.line))
    row_value(("ADDR", "EXT", "LABEL"), "tuple(try(hex2u16(arg2[0])), Ne(0, try(Result::ok(parse_u8(arg2[1])))), arg2[2])", "a .SYMBOL row is (address, flag != 0, label) - the writer prints u8::from(external)")
    row_value(("ADDR", "LABEL"), "tuple(try(hex2u16(arg2[0])), to_string(arg2[1]))", "a .LINKER_INFO row is (address, label)")
    row_value(("LABEL", "INDEX"), "tuple(arg2[0], try(Result::ok(parse_usize(arg2[1]))))", "a .DEBUG label row is (label, index)")
    row_value(("LINE", "ADDR", "SOURCE"), "tuple(try(maybe_hex2u16(map(arg2[0..2], fn:trim)[1])), arg2[2])", "a line row is (address or uninit, source text)")
    # what the reader stores from the rows
    stores = {}
    xb = nf.XB(db)
    for bi, si, s in db.stmts():
        if s["k"] == "assign":
            for e in s["p"]["proj"]:
                if isinstance(e, dict) and e.get("adt", "").endswith("asm::SymbolData"):
                    stores[e.get("name")] = nf.pp_x(xb.expr_of_rvalue(s["rv"], 16, (bi, si)))
    w = {"addr": r"^next\(into_iter\(try\(parse_table\(.*\)\)\)\) as Some\.0\.0$", "external": r"^next\(into_iter\(try\(parse_table\(.*\)\)\)\) as Some\.0\.1$", "src_start": r"^next\(into_iter\(try\(parse_table\(.*\)\)\)\) as Some\.0\.1$"}
    okst = set(stores) == set(w) and all(re.match(w[k], stores[k]) for k in w) and "'EXT'" in stores.get("external", "") + stores.get("addr", "") and "'INDEX'" in stores.get("src_start", "")
    ck.ob("C18.5", "row-stores", okst, "the reader stores row.0 -> addr, row.1 -> external (symbol table) and row.1 -> src_start (debug label table): %s" % {k: v[-60:] for k, v in stores.items()}, dw)
    ent = sorted(nf.arg_x(db, t, 1, bi, 16) for bi, t, c, _ in db.calls() if shape.short_callee(c) == "HashMap::entry")
    key_ok = len(ent) == 2 and all(e.startswith("to_string(next(into_iter(try(parse_table(") for e in ent) and \
        any("'EXT'" in e and e.endswith("as Some.0.2)") for e in ent) and any("'INDEX'" in e and e.endswith("as Some.0.0)") for e in ent)
    ent = [e[-44:] for e in ent]
    ck.ob("C18.5", "row-keys", key_ok,
          "label-map entries are keyed by the LABEL column of their table: %s" % ent, dw)
    sym = by_sec.get(".SYMBOL", [])
    check_table("symbol", ".SYMBOL", sym[:2], tb.get(("ADDR", "EXT", "LABEL")))
    lnk = by_sec.get(".LINKER_INFO", [])
    check_table("linker", ".LINKER_INFO", lnk[:2], tb.get(("ADDR", "LABEL")))
    dbg = by_sec.get(".DEBUG", [])
    # .DEBUG: comment line, label header, label row, divider, line header, line rows (two alternatives for ADDR), divider
    dl = [l for l in dbg if not (len(l["segs"]) == 1 and l["segs"][0][0] == "lit" and (l["segs"][0][1].startswith("#") or l["segs"][0][1].startswith("=")))]
    check_table("debug-labels", ".DEBUG", dl[:2], tb.get(("LABEL", "INDEX")))
    # the line-table row is written piecewise with two alternatives for the address cell: normalise
    rest = dl[2:]
    if rest:
        hdr_line = rest[0]
        row_segs = [s for l in rest[1:] for s in l["segs"]]
        alts = [s for s in row_segs if (s[0] == "val" and s[1] == "upper_hex") or (s[0] == "lit" and s[1] == UNINIT)]
        ok_alt = len(alts) == 2 and any(a[0] == "lit" for a in alts) and any(a[0] == "val" and a[3].get("zero") and a[3].get("width") == 4 for a in alts)
        rt = tb.get(("LINE", "ADDR", "SOURCE"))
        cn = consumers(rt["row"]) if rt else {}
        ck.ob("C18.2", "debug-lines:addr", ok_alt and cn.get(1, ("?",))[0] == "maybe_hex2u16",
              "the ADDR cell is written as {:04X} or the literal %r and read by %s" % (UNINIT, cn.get(1)), "src/asm/encoding.rs:%s" % hdr_line["line"])
        one = [s for s in row_segs if not (s[0] == "lit" and s[1] == UNINIT)]
        check_table("debug-lines", ".DEBUG", [hdr_line, {"line": rest[1]["line"] if len(rest) > 1 else hdr_line["line"], "segs": fmtx.merge(one)}], rt, source_last=True)
    mh = nf.deep(F, ENC + "maybe_hex2u16")
    ck.ob("C18.2", "uninit-literal", mh == "[eq(arg1, str%r) in [0,0]] => Option::map(hex2u16(arg1), fn:Some) ; [eq(arg1, str%r) in [1,1]] => Option::Some(Option::None())" % (UNINIT, UNINIT),
          "maybe_hex2u16 maps exactly the writer's uninit literal to None and everything else through hex2u16: %s" % mh, dw)
    hx = nf.deep(F, ENC + "hex2u16")
    ck.ob("C18.2", "hex4", hx == "Option::None() ; [len(arg1) in [4,4]] => Result::ok(u16_from_str_radix(arg1, 16))", "hex2u16 accepts exactly 4 characters in radix 16: %s" % hx, dw)
    ph = nf.deep(F, ENC + "parse_header")
    ck.ob("C18.2", "header-split", ph == "then_some(Iterator::eq(Iterator::map(splitn(arg1, len(arg2), str%r), fn:trim), Iterator::copied(iter(arg2))), tuple())" % DIV,
          "parse_header splits at the writer's divider into exactly len(columns) parts: %s" % ph, dw)
    pr = nf.deep(F, ENC + "parse_row")
    ck.ob("C18.2", "row-split", ("splitn(arg1, N, str%r)" % DIV) in pr and "rsplitn" not in pr, "parse_row splits at the writer's divider into at most N parts from the left (later dividers stay in the last column): %s" % pr[:120], dw)
    # ------------------------------------------------------------------ C18.3 .TEXT
    txt = by_sec.get(".TEXT", [])
    kinds = [[cell_kind(c) for c in cells(l["segs"], DIV)] for l in txt]
    flat = [k[0] for k in kinds if len(k) == 1]
    want = flat[:4]
    ok = len(flat) >= 4 and flat[0][0] == "hex4" and flat[1][0] == "display" and flat[1][1].startswith("len(") and not flat[1][2] and flat[2][0] == "hex4" and flat[3] == ("lit", UNINIT)
    tr = []
    for bi, t, c, _ in db.calls():
        sc = shape.short_callee(c)
        pcs = None
        if sc in ("hex2u16", "parse", "Iterator::map"):
            pcs = nf.path_conditions(db, bi, lambda x: x.startswith("eq(") and "str'." in x)
            secs = set()
            for pc in pcs or []:
                secs |= set(re.search(r"str'(\.[A-Z_]+)'", d).group(1) for d, lab in pc if lab == "1")
            if secs == {".TEXT"}:
                tr.append((sc, nf.pp_x(nf.XB(db).expr_of_call(t, 6, db.local_ty(t["dest"]["l"]) if t.get("dest") and not t["dest"]["proj"] else None, (bi, "term")))[:40] if sc == "parse" else nf.arg_x(db, t, len(t["args"]) - 1, bi, 4)))
    names = sorted(x[0] + ":" + (x[1] if x[0] != "hex2u16" else "") for x in tr)
    ok_r = any(x[0] == "hex2u16" for x in tr) and any(x[0] == "parse" and x[1].startswith("parse_u16(") for x in tr) and any(x[0] == "Iterator::map" and x[1] == "fn:maybe_hex2u16" for x in tr)
    ck.ob("C18.3", "text-section", ok and ok_r, ".TEXT lines written: %s; read by %s (required: {:04X} origin <-> hex2u16, decimal length <-> parse::<u16>, words {:04X}|uninit <-> maybe_hex2u16)" % (want, names), sw)
    # ------------------------------------------------------------------ C18.4 dividers / comment filter / escaping
    divs = [l for l in dbg if len(l["segs"]) == 1 and l["segs"][0][0] == "lit" and l["segs"][0][1].startswith("=")]
    pos = [c for c in F.children.get(DE, []) if nf.deep(F, c) == "starts_with(arg2, 61)"]
    lastchk = [bi for bi, t, c, _ in db.calls() if shape.short_callee(c) == "starts_with" and nf.arg_x(db, t, 1, bi, 4) == "61" and "last(" in nf.arg_x(db, t, 0, bi, 12)]
    ck.ob("C18.4", "dividers", len(divs) == 2 and len(pos) == 1 and len(lastchk) == 1,
          "the writer emits %d divider lines starting with '=' (label table end, line table end); the reader splits at the first such line and requires the last line to be one" % len(divs), sw)
    filt = sorted(nf.deep(F, c) for c in F.children.get(DE, []) if nf.deep(F, c) in ("Not(starts_with(arg2, 35))", "Not(is_empty(trim(arg2)))"))
    # no data line may start with '#', '.', '=' or be blank: every data line starts with a value cell of a safe kind or a known literal
    unsafe = []
    for sec, ls in by_sec.items():
        for l in ls:
            s0 = l["segs"][0]
            if s0[0] == "lit":
                if s0[1][:1] in ("#", "=") or s0[1][:1] == "." or not s0[1].strip():
                    if not (s0[1].startswith("# ") or s0[1].startswith("====")):
                        unsafe.append((sec, s0[1][:20]))
            elif s0[0] == "val":
                k = cell_kind([s0])
                if not (k[0] == "hex4" or (k[0] == "display" and not str(k[1]).startswith("escape_default("))):
                    unsafe.append((sec, fmtx.show([s0])[:40]))
    ck.ob("C18.4", "line-classes", filt == ["Not(is_empty(trim(arg2)))", "Not(starts_with(arg2, 35))"] and not unsafe,
          "the reader drops '#' lines and blank lines; every data line the writer emits starts with a hex/decimal/label cell or a fixed keyword (never with the escaped source): suspicious %s" % unsafe, sw)
    esc = [nf.arg_x(sb, t, 0, bi, 12) for bi, t, c, _ in sb.calls() if shape.short_callee(c) in ("escape_default", "escape_debug", "escape_unicode")]
    escn = [shape.short_callee(c) for bi, t, c, _ in sb.calls() if "escape" in (c or "") and "::fmt" not in (c or "")]
    une = [(bi, t) for bi, t, c, _ in db.calls() if shape.short_callee(c) == "unescape" and "unescaper" in (c or "")]
    ws = [(bi, t) for bi, t, c, _ in db.calls() if shape.short_callee(c) == "write_str"]
    ok = escn == ["escape_default"] and len(une) == 1 and len(ws) == 1 and db.can_reach(ws[0][0], une[0][0])
    if ok:
        # the unescape is outside (after) the innermost loop that appends the rows
        import C21
        heads = [bi for bi, t, c, _ in db.calls() if (c or "").endswith("Iterator>::next") and db.dominates(bi, ws[0][0]) and ws[0][0] in C21.loop_blocks(db, bi)]
        inner = [h for h in heads if all(db.dominates(h2, h) for h2 in heads)]
        ok = len(inner) == 1 and une[0][0] not in C21.loop_blocks(db, inner[0]) and db.dominates(inner[0], une[0][0])
    src_expr = esc[0] if esc else "?"
    ok = ok and "SourceInfo::raw_line_span(" in src_expr
    ck.ob("C18.4", "escaping", ok, "the source column is str::escape_default(raw line incl. its newline) and the reader applies unescaper::unescape once to the concatenation of all rows: writer %s(%s), reader unescape after the row loop" % (escn, src_expr[:80]), sw)
    # ------------------------------------------------------------------ C18.5 model coverage on the reader side
    st = set()
    for bi, si, s in db.stmts():
        if s["k"] == "assign":
            for e in s["p"]["proj"]:
                if isinstance(e, dict) and e.get("adt", "").endswith("asm::SymbolData"):
                    st.add(e.get("name"))
    ck.ob("C18.5", "symbol-fields-restored", st == {"addr", "external", "src_start"}, "SymbolData fields stored by the reader: %s (addr/external from .SYMBOL, src_start from .DEBUG)" % sorted(st), dw)
    agg = [s for bi, si, s in db.stmts() if s["k"] == "assign" and s["rv"]["k"] == "agg" and (s["rv"].get("adt") or "").endswith(("asm::SymbolTable", "asm::ObjectFile", "asm::DebugSymbols"))]
    names = sorted((s["rv"]["adt"].split("::")[-1], tuple(s["rv"].get("field_names", []))) for s in agg)
    ck.ob("C18.5", "aggregates", names == [("DebugSymbols", ("line_map", "src_info")), ("ObjectFile", ("block_map", "sym")), ("SymbolTable", ("label_map", "rel_map", "debug_symbols"))],
          "the reader rebuilds %s" % names, dw)
    # C18.8 writer completeness: the symbol, linker and label-index tables are written from a Vec of ALL entries of the
    # label map / relocation map (collected, then only sorted).  Collecting them into a keyed collection first (a map by
    # address, a set) silently drops entries that share a key - two labels on one statement, several .external labels at
    # the placeholder address 0.
    sb = F.bodies.get("<asm::encoding::TextFormat as asm::encoding::ObjFileFormat>::serialize::_ser")
    if ck.anchor("C18.8", "TextFormat::serialize::_ser", sb):
        bad, n = [], 0
        for bi, t, c, _ in sb.calls():
            if (c or "").endswith("Iterator::collect") or "FromIterator" in (c or ""):
                src = nf.arg_x(sb, t, 0, bi)
                if "label_iter(" in src or ".label_map" in src or ".rel_map" in src:
                    n += 1
                    tgt = (t["func"].get("fn_args") or "").rstrip("]").split(", std::")[-1] if "FromIterator" not in (c or "") else (c or "")
                    fa = t["func"].get("fn_args") or ""
                    is_vec = re.search(r", std::vec::Vec<[^\[\]]*>\]$", fa) is not None and "FromIterator" not in (c or "")
                    if not is_vec:
                        bad.append("line %s: %s collected into %s" % (t.get("line"), src[:60], fa[-70:]))
        ck.ob("C18.8", "tables-from-all-entries", n >= 3 and not bad,
              "%d label/relocation tables are collected into a Vec (every entry kept) before sorting and writing%s" % (n, ("; keyed/deduplicating: " + "; ".join(bad)) if bad else ""),
              "src/asm/encoding.rs:%s" % sb.line)
    ck.include("C24", ctx, "C18.6", {"C24.1", "C24.2"}, "LineSymbolMap::new (used by the reader) accepts what the producer records")
    ck.include("C25", ctx, "C18.7", {"C25.1"}, "the line table is written from raw_line_span/nl_indices and the source re-indexed by from_string")
    ck.assume("str::escape_default followed by unescaper::unescape is the identity on every string (library behaviour; unescaper 0.1.5 read by hand)")
    ck.assume("labels contain no divider, no leading '#', '.', '=' and no surrounding blanks (identifier tokens, C03/C05)")
    ck.assume("the empty-symbol-table-without-debug case is the one lossy spot (not producible by assemble*, see C17)")
