"""C35 - Bounded offsets accept exactly the representable values."""
from lib import bits, panics
from lib.bits import BV

LEVEL = "proof"


def run(ck, ctx):
    F = ctx.F
    panics.FACTS = F
    ck.rule("R9: OffsetBacking::truncate evaluated in the bit-provenance domain for both backings and every N in 1..=16 "
            "(symbolic 16-bit input): result bits 0..N are the input's, bits N..16 are 0 (u16) or copies of input bit N-1 (i16). "
            "R4: Offset::new returns Ok(Offset(n)) exactly on the edge n == truncate(n, N) and Err(does_not_fit_error(N)) otherwise; "
            "new_trunc stores truncate(n, N). R5: Offset values are only built by those two functions.")
    ck.explanation = ("Abstract interpretation of the MIR expression tree of truncate (one obligation per backing and N), plus "
                      "dominator checks on the 11-block CFG of Offset::new. For an N-bit field, n == zero/sign-extension of its "
                      "low N bits is exactly 'n is representable in N bits'.")
    ck.trusted = ["rustc MIR construction", "mirfacts", "rules/lib/bits.py transfer functions (<<, >> logical/arithmetic, &, |, casts)"]
    # --- R9
    for ty in ("u16", "i16"):
        p = "<%s as ast::offset_base::OffsetBacking>::truncate" % ty
        b = F.bodies.get(p)
        if not ck.anchor("C35.1", p, b):
            continue
        try:
            e = bits.ret_expr(b)
        except bits.Unanalysable as ex:
            ck.fail("C35.1", p, "unanalysable: %s" % ex, "src/ast.rs:%s" % b.line)
            continue
        for n in range(1, 17):
            key = "%s|N=%d" % (ty, n)
            try:
                r = bits.ev(e, {"self": BV.sym("x", ty), "bit_size": BV.const(n, "u32")})
            except bits.Unanalysable as ex:
                ck.fail("C35.1", key, "unanalysable instance: %s" % ex, "src/ast.rs:%s" % b.line)
                continue
            low_ok = all(r.bits[i] == ("x", "x", i) for i in range(n))
            ext = ("x", "x", n - 1) if ty == "i16" else 0
            high_ok = all(r.bits[i] == ext for i in range(n, 16))
            ck.ob("C35.1", key, low_ok and high_ok and r.w == 16, "truncate(x, %d) = %r" % (n, r), "src/ast.rs:%s" % b.line,
                  sample={"instance": key, "result_bits_msb_first": repr(r)} if n in (1, 5, 9, 16) else None)
    # --- Offset::new / new_trunc
    new = F.bodies.get("ast::Offset::<OFF, N>::new")
    nt = F.bodies.get("ast::Offset::<OFF, N>::new_trunc")
    if ck.anchor("C35.2", "Offset::new", new):
        ok_edge = err_edge = stores_n = False
        for bi, si, s in new.stmts():
            if s["k"] == "assign" and s["rv"]["k"] == "agg" and s["rv"].get("variant") == "Ok":
                conds = panics.dominating_conditions(new, bi)
                for ex, lo, hi in conds:
                    e = panics._unwrap_var(ex)
                    if e[0] == "call" and (e[1] or "").endswith("PartialEq::eq") and lo == 1:
                        a0, a1 = repr(e[2][0]), repr(e[2][1])
                        if "'n'" in a0 and "truncate" in a1 and "'n'" in a1 and "'N'" in repr(e[2][1]) or "truncate" in a1:
                            ok_edge = True
                inner = new.expr_of_operand(s["rv"]["fields"][0])
                an, fs = panics._agg_name(inner)
                stores_n = an == "ast::Offset" and len(fs) == 1 and fs[0][0] == "arg" and fs[0][2] == "n"
            if s["k"] == "assign" and s["rv"]["k"] == "agg" and s["rv"].get("variant") == "Err":
                conds = panics.dominating_conditions(new, bi)
                for ex, lo, hi in conds:
                    e = panics._unwrap_var(ex)
                    if e[0] == "call" and (e[1] or "").endswith("PartialEq::eq") and hi == 0:
                        err_edge = "does_not_fit_error" in repr(new.expr_of_operand(s["rv"]["fields"][0]))
        ck.ob("C35.2", "new:Ok-edge", ok_edge and stores_n, "Ok(Offset(n)) is built on the edge n == n.truncate(N) and stores the argument n", "src/ast.rs:%s" % new.line)
        ck.ob("C35.2", "new:Err-edge", err_edge, "Err(OFF::does_not_fit_error(N)) is built on the other edge", "src/ast.rs:%s" % new.line)
        # truncate is called with (n, N)
        for name, body in (("new", new), ("new_trunc", nt)):
            if body is None:
                ck.fail("C35.2", "anchor:" + name, "obligation not established: anchor not found")
                continue
            good = False
            for bi, t, callee, raw in body.calls():
                if callee and callee.endswith("OffsetBacking::truncate"):
                    a0 = body.expr_of_operand(t["args"][0])
                    a1 = t["args"][1]
                    good = a0[0] == "arg" and a0[2] == "n" and a1.get("txt") == "N"
            ck.ob("C35.2", name + ":truncate-args", good, "%s calls n.truncate(N)" % name, "src/ast.rs:%s" % body.line)
        if nt is not None:
            e = bits_ret(nt)
            an, fs = panics._agg_name(e) if e else (None, None)
            ck.ob("C35.2", "new_trunc:stores-truncated", an == "ast::Offset" and fs and "truncate" in repr(fs[0]),
                  "new_trunc returns Offset(n.truncate(N))", "src/ast.rs:%s" % nt.line)
    # does_not_fit_error rows
    for ty, var in (("u16", "CannotFitUnsigned"), ("i16", "CannotFitSigned")):
        b = F.bodies.get("<%s as ast::offset_base::OffsetBacking>::does_not_fit_error" % ty)
        if ck.anchor("C35.2", "does_not_fit_error<%s>" % ty, b):
            e = bits_ret(b)
            ok = bool(e) and e[0] == "agg" and e[2] == ("ast::OffsetNewErr", var) and e[3] and e[3][0][0] == "arg"
            ck.ob("C35.2", "error-kind:" + ty, ok, "%s backing reports %s(bit_size)" % (ty, var), "src/ast.rs:%s" % b.line)
    # --- R5: who builds Offset
    builders = set()
    for p, b in F.bodies.items():
        if b.light:
            continue
        for bi, si, s in b.stmts():
            if s["k"] == "assign" and s["rv"]["k"] == "agg" and s["rv"].get("adt") == "ast::Offset":
                builders.add(p)
    ck.ob("C35.3", "builders", builders == {"ast::Offset::<OFF, N>::new", "ast::Offset::<OFF, N>::new_trunc"},
          "Offset aggregates are built in %s" % sorted(builders), "src/ast.rs")
    adt = F.adts.get("ast::Offset")
    priv = bool(adt) and all("Restricted" in f["vis"] for v in adt["variants"] for f in v["fields"])
    ck.ob("C35.3", "field-private", priv, "the tuple field of Offset is private (vis=%s)" % ([f["vis"] for v in (adt or {"variants": []})["variants"] for f in v["fields"]]), "src/ast.rs")
    ck.assume("the `==` used by Offset::new is the derived/primitive integer equality of the backing type")
    ck.assume("N = 0 (outside the property's 1..=16) is not considered")


def bits_ret(body):
    try:
        return bits.ret_expr(body)
    except bits.Unanalysable:
        return None
