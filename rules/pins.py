"""Pinned normal forms of the small functions that several properties rest on but that no property-specific rule looks at.

tools/coverage.py lists the functions no rule inspects; the behaviour-relevant ones among them are pinned here,
each with the properties whose behaviour depends on it.  A property's check evaluates the pins assigned to it
(`pins.check(ck, F, "Cxx")`), reported as rule `Cxx.P`.  A pin is a name-/layout-independent normal form (rules/lib/nf.py,
closures inlined), so renaming or reformatting is silent and a changed computation is reported with both forms.
Debug/Display of errors, help texts and pure constructors of host-side configuration are deliberately not pinned.
"""
from lib import nf, subst

L = "λ"
CUSTOM = "*const dyn sim::device::ExternalDevice + std::marker::Send + std::marker::Sync"


def _sd(method, args):
    a = ", ".join(["{0}"] + args)
    return (" ; ".join([
        "[discr(arg1) in [0,0]] => %s(%s)" % (method, ", ".join(["NullDevice()"] + args)),
        "[discr(arg1) in [1,1]] => %s(%s)" % (method, ", ".join(["arg1 as Keyboard.0"] + args)),
        "[discr(arg1) in [2,2]] => %s(%s)" % (method, ", ".join(["arg1 as Display.0"] + args)),
        "[discr(arg1) in [3,3]] => ExternalDevice::%s(%s)" % (method, ", ".join(["(arg1 as Custom.0.0.pointer as %s)" % CUSTOM] + args)),
    ]))


def _lockdev(lock, call, method):
    g = "resolve_lock(%s(deref(arg1)))" % lock
    if method == "io_read":
        return "[fail(%s)] => propagate(%s) ; [ok(%s)] => ExternalDevice::io_read(deref_mut(try(%s)), arg2, arg3)" % (g, g, g, g)
    if method == "io_write":
        return "Option::is_some_and(%s, %s[ExternalDevice::io_write(deref_mut(arg2), @entry{arg2}, @entry{arg3})](arg2, arg3))" % (g, L)
    return "Option::and_then(%s, %s[ExternalDevice::poll_interrupt(deref_mut(arg2))]())" % (g, L)


PINS = [
    # ---------------- assembler entry points and observers
    ("asm::assemble", "[fail(SymbolTable::new(deref(arg1), Option::None()))] => propagate(SymbolTable::new(deref(arg1), Option::None())) ; [ok(SymbolTable::new(deref(arg1), Option::None()))] => ObjectFile::new(arg1, try(SymbolTable::new(deref(arg1), Option::None())), 0)",
     "assemble = pass 1 without source, then pass 2 with debug = false", "src/asm.rs", {"C01", "C02", "C21"}),
    ("asm::assemble_debug", "[fail(SymbolTable::new(deref(arg1), Option::Some(arg2)))] => propagate(SymbolTable::new(deref(arg1), Option::Some(arg2))) ; [ok(SymbolTable::new(deref(arg1), Option::Some(arg2)))] => ObjectFile::new(arg1, try(SymbolTable::new(deref(arg1), Option::Some(arg2))), 1)",
     "assemble_debug = pass 1 with the source, then pass 2 with debug = true", "src/asm.rs", {"C01", "C02", "C21", "C24"}),
    ("asm::ObjectFile::new::ObjBlock::range", "Range(arg1.start, Add((Vec::len(arg1.words) as u16), arg1.start))", "a block occupies start .. start + number of words", "src/asm.rs", {"C01", "C02"}),
    ("asm::ObjectFile::block_iter", "Iterator::map(BTreeMap::iter(arg1.block_map), %s[tuple(arg2.0, Vec::as_slice(arg2.1))]())" % L, "block_iter lists every block as (start, words)", "src/asm.rs", {"C01", "C17", "C18", "C29", "C20"}),
    ("asm::ObjectFile::addr_iter", "Iterator::flat_map(ObjectFile::block_iter(arg1), %s[Iterator::map(Iterator::enumerate(iter(arg2.1)), %s[tuple(wrapping_add((arg2.0 as u16), arg1.0), arg2.1)](arg2.0))]())" % (L, L),
     "addr_iter lists every word as (start + index, value)", "src/asm.rs", {"C01", "C20", "C21"}),
    ("asm::ObjectFile::empty", "ObjectFile(BTreeMap::new(), Option::None())", "the empty object file has no block and no symbol table", "src/asm.rs", {"C20"}),
    ("asm::SymbolTable::source_info", "Option::map(Option::as_ref(arg1.debug_symbols), %s[arg2.src_info]())" % L, "source_info is the debug symbols' source", "src/asm.rs", {"C22", "C25", "C24"}),
    ("asm::SymbolTable::new::Cursor::new", "Cursor(arg1, 0, arg2)", "a fresh cursor starts at the .orig address, not overflowed", "src/asm.rs", {"C01", "C02"}),
    ("asm::AsmErr::new", "AsmErr(arg1, Into::into(arg2))", "AsmErr::new keeps kind and spans", "src/asm.rs", {"C26", "C02"}),
    ("asm::LineSymbolMap::from_blocks",
     "[Iterator::all(windows(deref(Iterator::collect(IntoIterator::into_iter(arg1))), 2), {l}[[PtrMetadata(arg2) in [2,2]] => Option::is_some_and(checked_add(Vec::len(arg2[0].1), arg2[0].0), {l}[Le(arg2, arg1.0)](arg2[1].0))]()) in [0,0]] => Option::None() ; "
     "[Iterator::all(windows(deref(Iterator::collect(IntoIterator::into_iter(arg1))), 2), {l}[[PtrMetadata(arg2) in [2,2]] => Option::is_some_and(checked_add(Vec::len(arg2[0].1), arg2[0].0), {l}[Le(arg2, arg1.0)](arg2[1].0))]()) in [1,1]] => "
     "then(all(iter(deref(Iterator::collect(IntoIterator::into_iter(arg1)))), {l}[Iterator::all(windows(deref(arg2.1), 2), {l}[Le(index[arg2, 0], index[arg2, 1])]())]()), {l}[LineSymbolMap(Iterator::collect(into_iter(@entry{{Iterator::collect(IntoIterator::into_iter(arg1))}})))](Iterator::collect(IntoIterator::into_iter(arg1))))".format(l=L),
     "from_blocks accepts exactly line blocks that do not overlap (start + len <= next start) and whose addresses are non-decreasing", "src/asm.rs", {"C24", "C17", "C18", "C22"}),
    # ---------------- binary reader primitives
    ("asm::encoding::take", "Option::map(take_slice(arg1, N), %s[Result::unwrap(try_from(arg2))]())" % L, "take::<N> = the next N bytes as an array", "src/asm/encoding.rs", {"C17", "C19"}),
    ("asm::encoding::take_slice", "[fail(try_split_at(arg1, arg2))] => propagate(try_split_at(arg1, arg2)) ; [ok(try_split_at(arg1, arg2))] => Option::Some(try(try_split_at(arg1, arg2)).0)",
     "take_slice returns the first n bytes (and advances past them) or None", "src/asm/encoding.rs", {"C17", "C19"}),
    ("asm::encoding::map_chunks", "Iterator::collect(Iterator::map(Iterator::map(chunks_exact(arg1, N), %s[Result::unwrap(try_from(arg2))]()), arg2))" % L, "map_chunks decodes consecutive N-byte records in order", "src/asm/encoding.rs", {"C17"}),
    ("asm::encoding::assert_sorted_no_dup", "then_some(Iterator::all(Iterator::map(windows(arg1, 2), %s[Result::unwrap(try_from(arg2))]()), %s[lt(arg2[0], arg2[1])]()), tuple())" % (L, L),
     "the reader's validator requires strictly increasing neighbours", "src/asm/encoding.rs", {"C17", "C24"}),
    ("asm::encoding::count_digits", "(Add(1, Option::unwrap_or(checked_ilog10(arg1), 0)) as usize)", "count_digits = decimal length (column widths only)", "src/asm/encoding.rs", {"C18"}),
    # ---------------- operands / decode helpers
    ("ast::Offset::<OFF, N>::get", "arg1.0", "Offset::get returns the stored value", "src/ast.rs", {"C01", "C06", "C35", "C36", "C05", "C07"}),
    ("ast::asm::disassemble", "Iterator::collect(Iterator::map(Iterator::copied(iter(arg1)), fn:disassemble_line))", "disassemble maps disassemble_line over the words in order", "src/ast/asm.rs", {"C07"}),
    ("<u16 as ast::sim::DecodeUtils>::interpret", "FromBits::from_bits(arg1)", "interpret::<T> is T::from_bits", "src/ast/sim.rs", {"C06"}),
    ("<ast::Reg as ast::sim::FromBits>::from_bits", "Result::unwrap(try_from((arg1 as u8)))", "a register field is decoded through Reg::try_from", "src/ast/sim.rs", {"C06"}),
    # ---------------- parser plumbing
    ("parse::Parser::match_", "[discr(Parser::advance_if(arg1, fn:TokenParse::match_)) in [0,0]] => Result::map(TokenParse::convert(Parser::advance_if(arg1, fn:TokenParse::match_) as Ok.0, Parser::cursor(arg1)), fn:Some) ; [discr(Parser::advance_if(arg1, fn:TokenParse::match_)) in [1,1]] => Result::Ok(Option::None())",
     "match_ consumes the token iff it matches, converts it, and otherwise yields None without consuming", "src/parse.rs", {"C03", "C05"}),
    ("<T as parse::simple::TokenParse>::match_", "DirectTokenParse::match_(arg1, arg2)", "one-token components delegate to their own matcher", "src/parse.rs", {"C03"}),
    ("<T as parse::simple::TokenParse>::convert", "Result::Ok(arg1)", "one-token components need no conversion", "src/parse.rs", {"C03"}),
    ("<parse::simple::Either<L, R> as parse::simple::TokenParse>::convert", "[discr(arg1) in [0,0]] => Result::map(TokenParse::convert(arg1 as Left.0, arg2), fn:Either::Left) ; [discr(arg1) in [1,1]] => Result::map(TokenParse::convert(arg1 as Right.0, arg2), fn:Either::Right)",
     "Either converts the side that matched", "src/parse.rs", {"C03", "C05"}),
    ("parse::ParseErr::new", "ParseErr(ParseErrKind::Parse(Into::into(arg1)), Cow::Borrowed(str''), arg2)", "ParseErr::new keeps the span it is given", "src/parse.rs", {"C04"}),
    ("parse::ParseErr::wrap", "ParseErr(Into::into(arg1), Cow::Borrowed(str''), arg2)", "ParseErr::wrap keeps the span it is given", "src/parse.rs", {"C04"}),
    ("<parse::ParseErr as err::Error>::span", "Option::Some(from(clone(arg1.span)))", "the reported span is the stored one", "src/parse.rs", {"C04"}),
    # ---------------- simulator accessors
    ("sim::InternalRegister::default_mmap", "from_iter(array(tuple(65532, InternalRegister::PSR()), tuple(65534, InternalRegister::MCR())))", "PSR is mapped at xFFFC and MCR at xFFFE", "src/sim.rs", {"C32", "C08", "C09"}),
    ("sim::InternalRegister::read", "[discr(arg1) in [0,0]] => arg2.pc ; [discr(arg1) in [1,1]] => PSR::get(arg2.psr) ; [discr(arg1) in [2,2]] => Shl((Atomic::load(deref(arg2.mcr), Ordering::Relaxed()) as u16), 15) ; [discr(arg1) in [3,3]] => Word::get(arg2.saved_sp)",
     "reading a mapped internal register yields PC / PSR / MCR bit 15 / saved SP", "src/sim.rs", {"C32", "C08"}),
    ("sim::InternalRegister::write", "[discr(arg1) in [0,0]] => () ; [discr(arg1) in [1,1]] => PSR::set(arg2.psr, arg3) ; [discr(arg1) in [2,2]] => Atomic::store(deref(arg2.mcr), Lt((arg3 as i16), 0), Ordering::Relaxed()) ; [discr(arg1) in [3,3]] => Word::set(arg2.saved_sp, arg3)",
     "writing a mapped internal register: PC ignored, PSR through its masking setter, MCR = bit 15, saved SP", "src/sim.rs", {"C32", "C08", "C09", "C12"}),
    ("sim::Simulator::new", "Simulator::new_with_mcr(arg1, default())", "new builds the machine with a fresh MCR", "src/sim.rs", {"C29", "C30", "C31"}),
    ("sim::Simulator::munmap_internal", "Option::is_some(HashMap::remove(arg1.ireg_mmap, arg2))", "munmap removes exactly that mapping", "src/sim.rs", {"C32"}),
    ("sim::Simulator::prefetch_pc", "wrapping_sub(arg1.pc, (Not(arg1.prefetch) as u16))", "prefetch_pc = address of the instruction being executed", "src/sim.rs", {"C27", "C08", "C13"}),
    ("sim::PSR::is_n", "Ne(0, BitAnd(4, PSR::cc(arg1)))", "N is bit 2 of the condition codes", "src/sim.rs", {"C08"}),
    ("sim::PSR::is_z", "Ne(0, BitAnd(2, PSR::cc(arg1)))", "Z is bit 1", "src/sim.rs", {"C08"}),
    ("sim::PSR::is_p", "Ne(0, BitAnd(1, PSR::cc(arg1)))", "P is bit 0", "src/sim.rs", {"C08"}),
    ("sim::PSR::set_cc_n", "PSR::set_cc(arg1, 4)", "set_cc_n sets N only", "src/sim.rs", {"C08"}),
    ("sim::PSR::set_cc_z", "PSR::set_cc(arg1, 2)", "set_cc_z sets Z only", "src/sim.rs", {"C08", "C10"}),
    ("sim::PSR::set_cc_p", "PSR::set_cc(arg1, 1)", "set_cc_p sets P only", "src/sim.rs", {"C08"}),
    ("<sim::PSR as std::default::Default>::default", "PSR::new()", "the default PSR is the reset PSR", "src/sim.rs", {"C08", "C30"}),
    ("<sim::StepBreak as std::convert::From<sim::SimErr>>::from", "StepBreak::Err(arg1)", "an error stops the step as that error", "src/sim.rs", {"C08", "C12", "C13"}),
    ("<sim::mem::Word as std::convert::From<u16>>::from", "Word::new_init(arg1)", "a u16 becomes an initialised word", "src/sim/mem.rs", {"C15", "C08"}),
    ("<sim::mem::Word as std::convert::From<i16>>::from", "Word::new_init((arg1 as u16))", "an i16 becomes an initialised word with the same bits", "src/sim/mem.rs", {"C15", "C08"}),
    ("sim::mem::WordFiller::generate_array", "from_fn(%s[Word::new_uninit(@entry{arg1})](arg1))" % L, "registers are drawn one by one from the filler", "src/sim/mem.rs", {"C31", "C29"}),
    ("sim::mem::WordFiller::generate_boxed_array", "Result::unwrap_or_else(try_into(Iterator::collect(Iterator::take(repeat_with(%s[Word::new_uninit(@entry{arg1})](arg1)), N))), %s[]())" % (L, L), "memory words are drawn one by one from the filler", "src/sim/mem.rs", {"C31", "C29"}),
    ("sim::mem::MemArray::as_slice_mut", "((arg1.0.0.pointer as *const [sim::mem::Word; 65536]) as &mut [sim::mem::Word])", "as_slice_mut is the whole memory", "src/sim/mem.rs", {"C29", "C09"}),
    # ---------------- devices
    ("sim::device::_get_dev_id", "[fail(checked_sub(arg2, 65024))] => propagate(checked_sub(arg2, 65024)) ; [ok(checked_sub(arg2, 65024))] => Option::copied(get(arg1, (try(checked_sub(arg2, 65024)) as usize)))",
     "the device of an address is the port-table entry at addr - xFE00 (none below xFE00)", "src/sim/device.rs", {"C32", "C16"}),
    ("sim::device::DeviceHandler::get_dev_id", "_get_dev_id(((arg1.io_ports.0.pointer as *const [u16; 512]) as &[u16]), arg2)", "get_dev_id looks the address up in the handler's own port table", "src/sim/device.rs", {"C32"}),
    ("sim::device::DeviceHandler::set_port::get_dev_id_mut", "[fail(checked_sub(arg2, 65024))] => propagate(checked_sub(arg2, 65024)) ; [ok(checked_sub(arg2, 65024))] => get_mut(arg1, (try(checked_sub(arg2, 65024)) as usize))",
     "set_port addresses the same slot (addr - xFE00)", "src/sim/device.rs", {"C32"}),
    ("<sim::device::DeviceHandler as sim::device::ExternalDevice>::io_reset", "for_each(iter_mut(deref_mut(arg1.devices)), fn:io_reset)", "io_reset resets every device", "src/sim/device.rs", {"C30", "C32"}),
    ("sim::device::Interrupt::vectored", "Interrupt(InterruptKind::Vectored(arg1, clamp(arg2, 0, 7)))", "a vectored interrupt keeps its vector and clamps the priority to 0..=7", "src/sim/device.rs", {"C10", "C34"}),
    ("sim::device::Interrupt::priority", "[discr(arg1.kind) in [0,0]] => Option::Some(BitAnd(7, arg1.kind as Vectored.priority)) ; [discr(arg1.kind) in [1,1]] => Option::None()", "only vectored interrupts have a priority", "src/sim/device.rs", {"C10"}),
    ("<sim::device::internals::SimDevice as sim::device::ExternalDevice>::poll_interrupt", _sd("poll_interrupt", []), "SimDevice forwards poll_interrupt to the device it holds", "src/sim/device.rs", {"C10", "C34", "C32"}),
    ("<sim::device::internals::SimDevice as sim::device::ExternalDevice>::io_reset", _sd("io_reset", []), "SimDevice forwards io_reset", "src/sim/device.rs", {"C30"}),
    ("<sim::device::internals::SimDevice as sim::device::ExternalDevice>::io_read", _sd("io_read", ["arg2", "arg3"]), "SimDevice forwards io_read with the same address and effect flag", "src/sim/device.rs", {"C32", "C33", "C11"}),
    ("<sim::device::internals::SimDevice as sim::device::ExternalDevice>::io_write", _sd("io_write", ["arg2", "arg3"]), "SimDevice forwards io_write with the same address and data", "src/sim/device.rs", {"C32", "C33", "C11"}),
    ("<sim::device::NullDevice as sim::device::ExternalDevice>::io_read", "Option::None()", "the null device has no registers", "src/sim/device.rs", {"C32"}),
    ("<sim::device::NullDevice as sim::device::ExternalDevice>::io_write", "0", "the null device accepts no write", "src/sim/device.rs", {"C32"}),
    ("<sim::device::NullDevice as sim::device::ExternalDevice>::poll_interrupt", "Option::None()", "the null device never interrupts", "src/sim/device.rs", {"C10"}),
    ("<sim::device::InterruptFromFn as sim::device::ExternalDevice>::poll_interrupt", "call_mut(arg1.0, tuple())", "InterruptFromFn raises what its function returns", "src/sim/device.rs", {"C10"}),
    ("<std::sync::Arc<std::sync::RwLock<D>> as sim::device::ExternalDevice>::io_read", _lockdev("RwLock::try_write", "", "io_read"), "a shared device is accessed through a non-blocking lock; busy = no answer", "src/sim/device.rs", {"C32", "C33"}),
    ("<std::sync::Arc<std::sync::RwLock<D>> as sim::device::ExternalDevice>::io_write", _lockdev("RwLock::try_write", "", "io_write"), "a shared device write: busy = refused", "src/sim/device.rs", {"C32", "C33"}),
    ("<std::sync::Arc<std::sync::RwLock<D>> as sim::device::ExternalDevice>::poll_interrupt", _lockdev("RwLock::try_write", "", "poll"), "a shared device is polled through a non-blocking lock", "src/sim/device.rs", {"C10"}),
    ("<std::sync::Arc<std::sync::Mutex<D>> as sim::device::ExternalDevice>::io_read", _lockdev("Mutex::try_lock", "", "io_read"), "same for Mutex", "src/sim/device.rs", {"C32", "C33"}),
    ("<std::sync::Arc<std::sync::Mutex<D>> as sim::device::ExternalDevice>::io_write", _lockdev("Mutex::try_lock", "", "io_write"), "same for Mutex", "src/sim/device.rs", {"C32", "C33"}),
    ("<std::sync::Arc<std::sync::Mutex<D>> as sim::device::ExternalDevice>::poll_interrupt", _lockdev("Mutex::try_lock", "", "poll"), "same for Mutex", "src/sim/device.rs", {"C10"}),
    ("sim::device::keyboard::<impl sim::device::ExternalDevice for sim::device::DevWrapper<K, (dyn sim::device::keyboard::KeyboardDevice + 'static)>>::io_write", "[arg2 in [0,65535]] => 0 ; [arg2 in [65024,65024]] => 1",
     "the keyboard accepts writes to KBSR only", "src/sim/device/keyboard.rs", {"C32", "C10", "C33", "C08"}),
    ("sim::device::keyboard::<impl sim::device::ExternalDevice for sim::device::DevWrapper<K, (dyn sim::device::keyboard::KeyboardDevice + 'static)>>::poll_interrupt", "[local in [0,0]] => Option::None() ; [local in [1,1]] => Option::Some(Interrupt::vectored(128, 4))",
     "the keyboard interrupt is vector x80 at priority 4", "src/sim/device/keyboard.rs", {"C10"}),
    ("<sim::device::keyboard::BufferedKeyboard as sim::device::keyboard::KeyboardDevice>::interrupts_enabled", "arg1.interrupts_enabled", "the interrupt-enable bit is the stored flag", "src/sim/device/keyboard.rs", {"C10", "C33"}),
    ("<sim::device::keyboard::BufferedKeyboard as sim::device::ExternalDevice>::poll_interrupt", "poll_interrupt(DevWrapper::wrap(arg1))", "delegates to the register wrapper", "src/sim/device/keyboard.rs", {"C10"}),
    ("<sim::device::keyboard::BufferedKeyboard as sim::device::ExternalDevice>::io_write", "io_write(DevWrapper::wrap(arg1), arg2, arg3)", "delegates to the register wrapper", "src/sim/device/keyboard.rs", {"C32", "C10"}),
    ("<sim::device::display::BufferedDisplay as sim::device::ExternalDevice>::io_read", "io_read(DevWrapper::wrap(arg1), arg2, arg3)", "delegates to the register wrapper", "src/sim/device/display.rs", {"C32", "C33", "C11"}),
    ("<sim::device::timer::SampleRange as std::ops::RangeBounds<u32>>::start_bound", "Bound::Included(arg1.start)", "the sampled range starts at `start` inclusive", "src/sim/device/timer.rs", {"C34", "C31"}),
    ("<sim::device::timer::SampleRange as std::ops::RangeBounds<u32>>::end_bound", "[arg1.end_incl in [0,0]] => Bound::Excluded(arg1.end) ; [arg1.end_incl in [1,1]] => Bound::Included(arg1.end)", "the sampled range ends at `end`, inclusive iff end_incl", "src/sim/device/timer.rs", {"C34", "C31"}),
    ("sim::device::timer::TimerDevice::get_remaining", "arg1.time", "get_remaining is the countdown", "src/sim/device/timer.rs", {"C34"}),
    ("<sim::device::timer::TimerDevice as sim::device::ExternalDevice>::io_read", "Option::None()", "the timer has no registers", "src/sim/device/timer.rs", {"C32", "C34"}),
    ("<sim::device::timer::TimerDevice as sim::device::ExternalDevice>::io_write", "0", "the timer accepts no write", "src/sim/device/timer.rs", {"C32", "C34"}),
    # ---------------- frames / observer
    ("sim::frame::FrameStack::get_trap_def", "HashMap::get(arg1.trap_defns, arg2)", "trap signatures are looked up by vector", "src/sim/frame.rs", {"C27"}),
    ("sim::frame::FrameStack::get_subroutine_def", "HashMap::get(arg1.sr_defns, arg2)", "subroutine signatures are looked up by address", "src/sim/frame.rs", {"C27"}),
    ("sim::frame::FrameStack::len", "arg1.frame_no", "depth = frame counter", "src/sim/frame.rs", {"C27", "C13"}),
    ("sim::frame::FrameStack::is_empty", "Eq(0, arg1.frame_no)", "empty = depth 0", "src/sim/frame.rs", {"C27"}),
    ("sim::frame::FrameStack::frames", "Option::as_deref(arg1.frames)", "frames lists the recorded frames (when enabled)", "src/sim/frame.rs", {"C27"}),
    ("sim::frame::ParameterList::with_calling_convention", "ParameterList::CallingConvention(Iterator::collect(Iterator::map(iter(arg1), %s[to_string(arg2)]())))" % L, "parameter names kept in order", "src/sim/frame.rs", {"C27"}),
    ("sim::frame::ParameterList::with_pass_by_register", "ParameterList::PassByRegister(Iterator::collect(Iterator::map(iter(arg1), %s[tuple(to_string(arg2.0), arg2.1)]())), arg2)" % L, "parameter (name, register) pairs kept in order, return register kept", "src/sim/frame.rs", {"C27"}),
    ("sim::observer::AccessSet::accessed", "Ne(0, arg1.0)", "accessed = any flag set", "src/sim/observer.rs", {"C28"}),
    ("sim::observer::AccessObserver::get_mem_accesses", "Option::unwrap_or_default(Option::copied(BTreeMap::get(arg1.mem, arg2)))", "the observer answers with the recorded set (empty if none)", "src/sim/observer.rs", {"C28"}),
    ("sim::observer::AccessObserver::take_mem_accesses", "into_iter(take(arg1.mem))", "take_mem_accesses hands out everything recorded and clears it", "src/sim/observer.rs", {"C28"}),
]


# Functions pinned by their loss-free effect skeleton only (subst.effects_unchanged): what they call, store and return under
# which conditions must be the pinned commit's, or a listed hand-verified equivalent spelling.  For functions whose
# behaviour is mostly effects (a return-value normal form says nothing about them).
EFFECT_PINS = [
    ("sim::Simulator::reset", {"C30", "C31"}, "src/sim.rs",
     "reset saves flags/MCR/breakpoints/register map/devices, rebuilds the machine with Simulator::new_with_mcr (so a seeded machine draws memory and registers exactly like a fresh one), restores them and resets the devices"),
    ("<sim::device::keyboard::BufferedKeyboard as sim::device::keyboard::KeyboardDevice>::clear_input", {"C30", "C33"}, "src/sim/device/keyboard.rs",
     "clear_input empties the shared buffer when it can take the lock and otherwise leaves the attached buffer alone (it never replaces the handle the host holds)"),
    ("<sim::device::display::BufferedDisplay as sim::device::display::DisplayDevice>::clear_output", {"C30", "C33"}, "src/sim/device/display.rs",
     "clear_output empties the shared buffer when it can take the lock and otherwise leaves it alone"),
    ("sim::Simulator::read_mem", {"C33"}, "src/sim.rs",
     "a load from a device register reads the device with the context's io_effects flag (peek vs consuming read) and mirrors the value"),
    ("sim::Simulator::write_mem", {"C33"}, "src/sim.rs",
     "a store to a device register hands the initialised value to the internal register or the owning device once"),
    ("sim::frame::FrameStack::new", {"C27"}, "src/sim/frame.rs",
     "the built-in trap signatures: x20 GETC and x23 IN take nothing and return R0, x21 OUT, x22 PUTS and x24 PUTSP take R0 and return nothing, x25 HALT takes and returns nothing; no subroutine definitions; frames recorded iff debug_frames"),
    ("<sim::device::timer::TimerDevice as sim::device::ExternalDevice>::io_reset", {"C31", "C34", "C30"}, "src/sim/device/timer.rs",
     "resetting the timer only draws a new remaining time from its own generator (a seeded timer stays seeded)"),
    ("sim::device::timer::TimerDevice::new", {"C34", "C31"}, "src/sim/device/timer.rs",
     "a timer built with Some(seed) draws from StdRng::seed_from_u64(seed) for every seed value, with None from the OS"),
]


def check(ck, F, pid):
    n = 0
    seen = set()
    for path, want, what, file, props in PINS:
        if pid not in props or path in seen:
            continue
        seen.add(path)
        n += 1
        short = path
        if len(short) > 70:
            short = short[:34] + ".." + short[-34:]
        ok = nf.expect_deep(ck, F, pid + ".P", "pin:" + short, path, [want], what, file=file, norm=nf.anon_locals)
        # the return-value form above does not show effects; the loss-free effect skeleton (calls, stores, conditions) does
        if ok:
            eu = subst.effects_unchanged(F, path)
            if eu is False:
                b = F.bodies.get(path)
                ck.ob(pid + ".P", "pin-effects:" + short, False,
                      "%s; the calls/stores/conditions of this function differ from the pinned commit's and the new form is not a listed equivalent spelling: %s" % (what, nf.full_form(F, path)[:600]),
                      "%s:%s" % (file, b.line if b else "?"))
    for path, props, file, what in EFFECT_PINS:
        if pid not in props:
            continue
        n += 1
        b = F.bodies.get(path)
        short = path if len(path) <= 70 else path[:34] + ".." + path[-34:]
        if not ck.anchor(pid + ".P", path, b):
            continue
        eu = subst.effects_unchanged(F, path)
        ck.ob(pid + ".P", "effects:" + short, eu is not False,
              "%s%s" % (what, "" if eu is not False else "; the calls/stores/conditions of this function differ from the pinned commit's and the new form is not a listed equivalent spelling: " + nf.full_form(F, path)[:500]),
              "%s:%s" % (file, b.line))
    return n


def coverage():
    return sorted(set(p for p, *_ in PINS) | set(p for p, *_ in EFFECT_PINS))
