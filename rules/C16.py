"""C16 - No machine state makes the simulator panic (R3 over every function of src/sim*)."""
from lib import r3
import discharge

LEVEL = "other"
STOP = {"sim::_os_obj_file::{closure#0}"}


def entries(F):
    return sorted(p for p, b in F.bodies.items()
                  if not b.light and b.owner is None and (b.file == "src/sim.rs" or b.file.startswith("src/sim/")))


def run(ck, ctx):
    F = ctx.F
    ck.rule("R3: every Assert terminator and every call to a panicking std entry or to a std function with an "
            "argument-dependent panic, in every function reachable from any function defined under src/sim*, "
            "is discharged by intervals over the operand expression trees (D-TYPE), a dominating guard (D-GUARD), "
            "a re-checked data-structure invariant (D-INV) or a reviewed table entry (D-TABLE)")
    ck.explanation = ("Panic reachability with discharge over MIR. Entry points: all functions defined in src/sim.rs "
                      "and src/sim/** (so new public API is covered automatically). A site that cannot be discharged "
                      "is reported with its function, operation and a shortest call path.")
    ents = entries(F)
    r3.run(ck, F, "C16.1", ents, discharge.TABLE, stop=STOP, scope="C16", floor_sites=55, floor_bodies=250)
    ck.floor("C16.1", "entry points", len(ents), 200)
    ck.assume("std, rand, logos are trusted beyond the curated list of argument-dependent panics (spec/panicky_std.json cross-check)")
    ck.assume("allocation failure / capacity overflow are not counted as panics")
    ck.assume("the built-in OS source (src/os.asm) parses and assembles (constant input; exercised by every Simulator construction)")
    ck.assume("TimerDevice is configured with a non-empty range (host-side precondition documented by the crate)")
    ck.assume("custom ExternalDevice implementations supplied by the host do not panic")
