"""C09 - User-mode code cannot touch memory or state outside user space."""
from lib import simx, tables, panics
from lib.panics import _unwrap_var, interval
import discharge, C06

LEVEL = "other"
SPEC = C06.SPEC
MM = SPEC["memory_map"]

# who may index the memory array directly (everything else must go through read_mem/write_mem)
MEM_INDEX_OWNERS = {
    "sim::Simulator::read_mem": "the checked read path",
    "sim::Simulator::write_mem": "the checked write path",
    "sim::Simulator::set_pc": "strict-mode peek of the init flag of the jump target (no data flows to the program)",
    "sim::debug::Breakpoint::check": "host-side, effect-free read for breakpoint predicates",
    "sim::frame::ParameterList::get_arguments::{closure#1}": "host-side, effect-free read of call arguments for debug frames",
}
MEM_BULK_OWNERS = {
    "sim::Simulator::new_with_mcr": "constructor: clears the I/O page",
    "sim::Simulator::load_obj_file": "loader (host API)",
}


def guard_first(ck, F, name):
    b = F.bodies.get("sim::Simulator::" + name)
    if not ck.anchor("C09.1", name, b):
        return
    where = "src/sim.rs:%s" % b.line
    err_blocks = [bi for bi, si, s in b.stmts() if s["k"] == "assign" and s["rv"]["k"] == "agg" and s["rv"].get("adt") == "sim::SimErr" and s["rv"]["variant"] == "AccessViolation"]
    if len(err_blocks) != 1:
        ck.fail("C09.1", name + ":guard", "expected exactly one AccessViolation return, found %d" % len(err_blocks), where)
        return
    E = err_blocks[0]
    conds = panics.dominating_conditions(b, E)
    priv = rng = False
    bounds = None
    for ex, lo, hi in conds:
        u = _unwrap_var(ex)
        r = repr(u)
        if u[0] == "field" and u[2] == "privileged" and hi == 0 and "'ctx'" in r:
            priv = True
        if u[0] == "call" and (u[1] or "").endswith("Range::<Idx>::contains") and hi == 0:
            # range operand is a promoted constant Range { start, end }; item operand is &addr
            item = repr(u[2][1])
            rop = u[2][0]
            while rop[0] in ("ref", "deref", "var"):
                rop = rop[2] if rop[0] == "var" else rop[1]
            if rop[0] == "promoted":
                pb = b.promoted[rop[1]]
                for bi2, si2, s2 in pb.stmts():
                    if s2["k"] == "assign" and s2["rv"]["k"] == "agg" and s2["rv"].get("adt") == "std::ops::Range":
                        fs = [interval(pb.expr_of_operand(x)) for x in s2["rv"]["fields"]]
                        bounds = (fs[0][0], fs[1][0]) if all(fs) else None
            rng = "'addr'" in item and bounds == (MM["user_start"], MM["io_start"])
    ck.ob("C09.1", name + ":guard-condition", priv and rng,
          "AccessViolation is returned exactly on !ctx.privileged && !(x%04X..x%04X).contains(&addr) (found privileged-test=%s, range=%s)" % (MM["user_start"], MM["io_start"], priv, bounds), where)
    # no effect may precede the guard: no effectful call can reach the error return
    bad = []
    n = 0
    for bi, t, c, _ in b.calls():
        c = c or ""
        if c.endswith("Range::<Idx>::contains") or "Try>::" in c or "FromResidual" in c:
            continue
        n += 1
        if b.can_reach(bi, E) and bi != E:
            bad.append(c.split("::")[-1] + "@%s" % t["line"])
    ck.ob("C09.1", name + ":guard-first", not bad and n >= 4, "calls that can execute before the access check: %s (of %d calls)" % (bad, n), where)
    # stores too
    sbad = []
    for bi, si, s in b.stmts():
        if s["k"] == "assign" and s["p"]["proj"] and s["p"]["proj"][0] == "deref" and b.can_reach(bi, E) and bi != E:
            sbad.append(s["line"])
    ck.ob("C09.1", name + ":no-store-before-guard", not sbad, "stores through references before the access check: %s" % sbad, where)


def run(ck, ctx):
    F = ctx.F
    panics.FACTS = F
    ck.rule("R4: in read_mem and write_mem the AccessViolation return for !privileged && addr outside [x3000, xFE00) precedes every call and store; "
            "R5: only an enumerated owner set indexes the memory array or reaches device io_read/io_write; R6: every read_mem/write_mem on the "
            "step path is given default_mem_ctx() (or a struct update of it changing only `strict`), whose privileged field is psr.privileged() || "
            "ignore_privilege, taken after set_privileged(true) in handle_interrupt; R4: every effect of RTI is dominated by the privilege test; "
            "R5: writers of Simulator.psr")
    ck.explanation = "Guard-first by CFG reachability inside the two access functions; ownership by call-graph enumeration; context provenance on MIR expression trees."
    guard_first(ck, F, "read_mem")
    guard_first(ck, F, "write_mem")

    # ---- C09.2 who may touch memory / devices
    def owners_of(pred):
        out = {}
        for p, b in F.bodies.items():
            if b.light:
                continue
            for bi, t, c, raw in b.calls():
                if c and pred(c):
                    out.setdefault(p, []).append(t["line"])
        return out
    idx = owners_of(lambda c: c.endswith("MemArray as std::ops::Index<u16>>::index") or c.endswith("MemArray as std::ops::IndexMut<u16>>::index_mut"))
    extra = sorted(set(idx) - set(MEM_INDEX_OWNERS))
    ck.ob("C09.2", "mem-index-owners", not extra and "sim::Simulator::read_mem" in idx and "sim::Simulator::write_mem" in idx,
          "functions indexing MemArray: %s; not in the owner table: %s" % (sorted(idx), extra), "src/sim.rs")
    for p in sorted(idx):
        ck.ob("C09.2", "mem-index:" + p, p in MEM_INDEX_OWNERS, MEM_INDEX_OWNERS.get(p, "NOT AN OWNER: direct memory access bypasses read_mem/write_mem"), "%s:%s" % (F.bodies[p].file, idx[p][0]))
    bulk = owners_of(lambda c: c.endswith("MemArray::as_slice_mut") or c.endswith("MemArray::copy_obj_block"))
    extra = sorted(set(bulk) - set(MEM_BULK_OWNERS))
    ck.ob("C09.2", "mem-bulk-owners", not extra, "functions using as_slice_mut/copy_obj_block: %s; not owners: %s" % (sorted(bulk), extra), "src/sim.rs")
    # direct field access to MemArray.0
    inner = discharge.field_users(F, "sim::mem::MemArray", "0")
    ok_inner = all(p.startswith("sim::mem::MemArray::") or p.startswith("<sim::mem::MemArray as ") for p in inner)
    ck.ob("C09.2", "mem-field-private", ok_inner, "functions touching MemArray.0: %s" % sorted(inner), "src/sim/mem.rs")
    dev = owners_of(lambda c: c.endswith("DeviceHandler as sim::device::ExternalDevice>::io_read") or c.endswith("DeviceHandler as sim::device::ExternalDevice>::io_write"))
    ck.ob("C09.2", "device-io-owners", set(dev) == {"sim::Simulator::read_mem", "sim::Simulator::write_mem"}, "callers of DeviceHandler::io_read/io_write: %s" % sorted(dev), "src/sim.rs")
    ir = owners_of(lambda c: c.endswith("InternalRegister::read") or c.endswith("InternalRegister::write"))
    ck.ob("C09.2", "ireg-owners", set(ir) == {"sim::Simulator::read_mem", "sim::Simulator::write_mem"}, "callers of InternalRegister::read/write: %s" % sorted(ir), "src/sim.rs")

    # ---- C09.3 context provenance on the step path
    reach = F.reach(["sim::Simulator::step"], stop={"sim::_os_obj_file::{closure#0}"})
    n = 0
    cnt = {}
    for p in reach:
        b = F.bodies[p]
        if b.light:
            continue
        for bi, t, c, _ in b.calls():
            if (c or "").endswith("Simulator::read_mem") or (c or "").endswith("Simulator::write_mem"):
                n += 1
                cx = simx.classify_ctx(b.expr_of_operand(t["args"][-1], 30))
                ok = cx == "default" or (isinstance(cx, tuple) and cx[0] == "default-with" and cx[1] <= {"strict"})
                k = "%s|%s" % (p, c.split("::")[-1])
                cnt[k] = cnt.get(k, 0) + 1
                ck.ob("C09.3", "%s#%d" % (k, cnt[k]), ok, "context: %s" % (cx,), "%s:%s" % (b.file, t["line"]))
    ck.floor("C09.3", "read_mem/write_mem calls on the step path", n, 14)
    dm = F.bodies.get("sim::Simulator::default_mem_ctx")
    if ck.anchor("C09.3", "default_mem_ctx", dm):
        # privileged = psr.privileged() || flags.ignore_privilege: the field is a 2-def local: true on the privileged edge, else the flag
        ok = False
        for bi, si, s in dm.stmts():
            if s["k"] == "assign" and s["rv"]["k"] == "agg" and s["rv"].get("adt") == "sim::MemAccessCtx":
                names = s["rv"]["field_names"]
                f = dict(zip(names, s["rv"]["fields"]))
                pv = simx.classify_value(dm.expr_of_operand(f["privileged"], 20), 0, dm)
                io = interval(dm.expr_of_operand(f["io_effects"]))
                tr = interval(dm.expr_of_operand(f["track_access"]))
                st = repr(dm.expr_of_operand(f["strict"], 10))
                alts = pv[1] if pv[0] == "phi" else set()
                ok = alts == {("const", 1), ("field", "ignore_privilege")} and io == (1, 1) and tr == (1, 1) and "'strict'" in st and "'flags'" in st
                # the constant-true definition must be on the psr.privileged() == true edge
                if ok:
                    good_edge = False
                    loc = dm.expr_of_operand(f["privileged"], 0)
                    for (bj, sj, rv) in dm.defs().get(_unwrap_var(loc)[1], []):
                        if sj != "term" and rv["k"] == "use" and interval(dm.expr_of_operand(rv["op"])) == (1, 1):
                            for ex, lo, hi in panics.dominating_conditions(dm, bj):
                                if "PSR::privileged" in repr(ex) and lo == 1:
                                    good_edge = True
                    ok = good_edge
        ck.ob("C09.3", "default_mem_ctx", ok, "default_mem_ctx: privileged = psr.privileged() || flags.ignore_privilege, strict = flags.strict, io_effects = track_access = true", "src/sim.rs:%s" % dm.line)
    hi_ = F.bodies.get("sim::Simulator::handle_interrupt")
    if ck.anchor("C09.3", "handle_interrupt", hi_):
        sp = [bi for bi, t, c, _ in hi_.calls() if (c or "").endswith("PSR::set_privileged") and interval(hi_.expr_of_operand(t["args"][1])) == (1, 1)]
        mc = [bi for bi, t, c, _ in hi_.calls() if (c or "").endswith("Simulator::default_mem_ctx")]
        ck.ob("C09.3", "interrupt-ctx-after-privilege", len(sp) == 1 and len(mc) == 1 and hi_.dominates(sp[0], mc[0]) and sp[0] != mc[0],
              "handle_interrupt takes its memory context after set_privileged(true)", "src/sim.rs:%s" % hi_.line)

    # ---- C09.4 RTI
    try:
        b, swb, arms = simx.step_arms(F)
        tb, blocks = arms["RTI"]
        gate = None
        for x in blocks:
            t = b.blocks[x]["term"]
            if t["k"] == "switch":
                e = _unwrap_var(b.expr_of_operand(t["discr"], 12))
                if e[0] == "call" and (e[1] or "").endswith("PSR::privileged") and gate is None:
                    gate = (x, t)
        effects = simx.calls_in(b, blocks, ["Simulator::read_mem", "Simulator::set_pc", "add_assign", "std::mem::swap", "FrameStack::pop_frame"])
        stores = [x for x in blocks for s in b.blocks[x]["stmts"] if s["k"] == "assign" and s["p"]["proj"] and isinstance(s["p"]["proj"][-1], dict) and s["p"]["proj"][-1].get("name") == "psr"]
        err = [x for x in blocks for s in b.blocks[x]["stmts"] if s["k"] == "assign" and s["rv"]["k"] == "agg" and s["rv"].get("adt") == "sim::SimErr" and s["rv"]["variant"] == "PrivilegeViolation"]
        ok = gate is not None and len(err) == 1
        detail = ""
        if ok:
            gx, gt = gate
            # supervisor edge: privileged()==true OR ignore_privilege==true; the error must be reachable only when both are false
            conds = panics.dominating_conditions(b, err[0])
            # conditions contributed by switches inside the arm: exactly the two tests, both false
            arm_sw = [x for x in blocks if b.blocks[x]["term"]["k"] == "switch" and b.dominates(x, err[0]) and x != err[0]]
            kinds = []
            for x in arm_sw:
                r_ = repr(b.expr_of_operand(b.blocks[x]["term"]["discr"], 12))
                kinds.append("privileged" if "PSR::privileged" in r_ else "ignore_privilege" if "'ignore_privilege'" in r_ else "other:" + r_[:60])
            both_false = sorted(kinds) == ["ignore_privilege", "privileged"] and \
                any("PSR::privileged" in repr(ex) and hi == 0 for ex, lo, hi in conds) and any("'ignore_privilege'" in repr(ex) and hi == 0 for ex, lo, hi in conds)
            not_before = all(not b.can_reach(bi, err[0]) for bi, t, c in effects) and all(not b.can_reach(x, err[0]) for x in stores)
            ok = both_false and not_before and len(effects) >= 5 and len(stores) == 1
            detail = "error edge needs privileged()==false and ignore_privilege==false: %s; no RTI effect can precede it: %s (%d effects, %d psr stores)" % (both_false, not_before, len(effects), len(stores))
        ck.ob("C09.4", "RTI:privileged", ok, detail or "privilege gate or PrivilegeViolation return not found", "src/sim.rs")
    except tables.TableError as ex:
        ck.fail("C09.4", "RTI", "obligation not established: %s" % ex)

    # ---- C09.5 who may change privilege
    w = discharge._field_writers(F, "sim::Simulator", "psr")
    allowed = {"sim::Simulator::set_cc", "sim::Simulator::handle_interrupt", "sim::Simulator::_step_inner", "sim::InternalRegister::write"}
    ck.ob("C09.5", "psr-writers", w <= allowed and len(w) >= 3, "functions that write or mutably borrow Simulator.psr: %s" % sorted(w), "src/sim.rs")
    adt = F.adts.get("sim::Simulator")
    vis = {f["name"]: f["vis"] for v in adt["variants"] for f in v["fields"]} if adt else {}
    ck.ob("C09.5", "psr-private", "Restricted" in vis.get("psr", "") and "Restricted" in vis.get("saved_sp", "") and "Restricted" in vis.get("ireg_mmap", ""),
          "visibility: psr=%s saved_sp=%s ireg_mmap=%s" % (vis.get("psr"), vis.get("saved_sp"), vis.get("ireg_mmap")), "src/sim.rs")
    ck.assume("host code holding `&mut Simulator` can use the public fields mem/reg_file/pc and mmap_internal; the property is about what simulated user-mode code can do")
    ck.assume("'leaves the target memory and device state unchanged' is claimed as: no call or store precedes the access check in read_mem/write_mem")
