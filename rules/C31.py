"""C31 - Seeded simulations are reproducible (R8b nondeterminism reachability + R6 seed provenance)."""
import re
from lib import panics, simx
from lib.panics import _unwrap_var, interval

LEVEL = "other"
SOURCES = [r"^rand::random$", r"::from_os_rng$", r"::from_rng$", r"^rand::rng$", r"^rand::thread_rng$", r"::from_entropy$", r"::try_from_os_rng$",
           r"SystemTime", r"Instant::now", r"std::thread::current", r"::RandomState::new$", r"getrandom", r"std::env::", r"std::process::id"]


def is_source(c):
    return any(re.search(p, c) for p in SOURCES)


def run(ck, ctx):
    F = ctx.F
    panics.FACTS = F
    ck.rule("R8b: the nondeterminism sources (OS entropy, thread RNG, clocks, thread ids, random hasher state) reachable from Simulator::new/reset/"
            "step_in/run*, the standard devices and TimerDevice::new are exactly rand::random in `WordFiller for ()` (reached only from the Unseeded "
            "arm) and StdRng::from_os_rng (only on the `None` arm of the seed Option in TimerDevice::new). R6: Seeded{seed} feeds seed_from_u64(seed), "
            "Known{value} yields value, memory and registers draw every word from the filler, the timer samples only from its own generator")
    ck.explanation = "Call-graph reachability to an enumerated set of nondeterministic std/rand entry points, plus dominating conditions of the two permitted uses."
    ents = [p for p in ("sim::Simulator::new", "sim::Simulator::reset", "sim::Simulator::step_in", "sim::Simulator::run", "sim::Simulator::run_with_limit",
                        "sim::Simulator::step_over", "sim::Simulator::step_out", "sim::device::timer::TimerDevice::new",
                        "<sim::device::timer::TimerDevice as sim::device::ExternalDevice>::poll_interrupt", "<sim::device::timer::TimerDevice as sim::device::ExternalDevice>::io_reset",
                        "<sim::device::keyboard::BufferedKeyboard as sim::device::ExternalDevice>::io_read", "<sim::device::display::BufferedDisplay as sim::device::ExternalDevice>::io_write",
                        "sim::Simulator::load_obj_file", "sim::Simulator::read_mem", "sim::Simulator::write_mem", "sim::Simulator::call_subroutine")
            if p in F.bodies]
    ck.floor("C31.1", "entry points", len(ents), 16)
    reach = F.reach(ents, stop={"sim::_os_obj_file::{closure#0}"})
    found = {}
    for p in reach:
        b = F.bodies[p]
        for tgt, kind, line in F.edges(p):
            if isinstance(tgt, tuple) and is_source(tgt[1]):
                found.setdefault(tgt[1], []).append((p, line))
    users = {k: sorted(set(p for p, _ in v)) for k, v in found.items()}
    want = {"rand::random": ["<() as sim::mem::WordFiller>::generate"], "rand::SeedableRng::from_os_rng": ["sim::device::timer::TimerDevice::new"]}
    ck.ob("C31.1", "sources", users == want, "nondeterminism sources reachable: %s (allowed: %s)" % (users, want), "src/sim")
    ck.floor("C31.1", "reachable bodies", len(reach), 150)
    # rand::random only behind the Unseeded arm
    wc = F.bodies.get("<sim::mem::WCGenerator as sim::mem::WordFiller>::generate")
    if ck.anchor("C31.1", "WCGenerator::generate", wc):
        names = [v["name"] for v in F.adts["sim::mem::WCGenerator"]["variants"]]
        rows = {}
        for bi, t, c, _ in wc.calls():
            for ex, lo, hi in panics.dominating_conditions(wc, bi):
                if _unwrap_var(ex)[0] == "discr" and lo is not None and lo == hi:
                    rows[names[lo]] = (c or "").replace("sim::mem::", "")
        ck.ob("C31.1", "unseeded-arm-only", rows == {"Unseeded": "<() as WordFiller>::generate", "Seeded": "<rand::prelude::StdRng as WordFiller>::generate", "Known": "<u16 as WordFiller>::generate"},
              "WCGenerator::generate dispatch: %s" % rows, "src/sim/mem.rs:%s" % wc.line)
    # generic uses of the OS-random filler: any call instantiated with `()` as its WordFiller (Word::new_uninit(&mut ()), MemArray::new(&mut ()) ...)
    unit_inst = sorted(set("%s -> %s" % (p, c) for p, b in F.bodies.items() if not b.light for bi, t, c, _ in b.calls()
                           if c and t["func"].get("k") == "const" and re.match(r"^\[\(\)[,\]]", t["func"].get("fn_args", "") or "") and ("sim::mem::" in c)
                           and not c.startswith("<() as sim::mem::WordFiller>")))
    ck.ob("C31.1", "unit-filler-instantiations", not unit_inst, "calls instantiated with the OS-random filler `()`: %s (none allowed outside the Unseeded arm)" % unit_inst, "src/sim")
    callers_unit = sorted(p for p, b in F.bodies.items() if not b.light and any((c or "") == "<() as sim::mem::WordFiller>::generate" for _, _, c, _ in b.calls()))
    ck.ob("C31.1", "unit-filler-callers", callers_unit == ["<sim::mem::WCGenerator as sim::mem::WordFiller>::generate"], "callers of the OS-random filler: %s" % callers_unit, "src/sim/mem.rs")
    gen = F.bodies.get("sim::mem::MachineInitStrategy::generator")
    if ck.anchor("C31.2", "generator", gen):
        names = [v["name"] for v in F.adts["sim::mem::MachineInitStrategy"]["variants"]]
        rows = {}
        for bi, si, s in gen.stmts():
            if s["k"] == "assign" and s["rv"]["k"] == "agg" and s["rv"].get("adt") == "sim::mem::WCGenerator":
                arm = None
                for ex, lo, hi in panics.dominating_conditions(gen, bi):
                    if _unwrap_var(ex)[0] == "discr" and lo is not None and lo == hi:
                        arm = names[lo]
                src = repr([gen.expr_of_operand(f, 10) for f in s["rv"]["fields"]])
                rows[arm] = (s["rv"]["variant"], "seed_from_u64(seed)" if "seed_from_u64" in src and "'seed'" in src else "value" if "'value'" in src else "" if not s["rv"]["fields"] else "?" + src[:80])
        want = {"Unseeded": ("Unseeded", ""), "Seeded": ("Seeded", "seed_from_u64(seed)"), "Known": ("Known", "value")}
        ck.ob("C31.2", "strategy-rows", rows == want, "MachineInitStrategy::generator rows: %s" % rows, "src/sim/mem.rs:%s" % gen.line)
    ug = F.bodies.get("<u16 as sim::mem::WordFiller>::generate")
    if ug is not None:
        e = repr([ug.expr_of_rvalue(rv, 6) for (_, si, rv) in ug.defs().get(0, []) if si != "term"])
        ck.ob("C31.2", "known-filler", "'self'" in e and "call" not in e, "the Known filler returns its value", "src/sim/mem.rs:%s" % ug.line)
    sg = F.bodies.get("<rand::prelude::StdRng as sim::mem::WordFiller>::generate")
    if sg is not None:
        cs = [(c or "") for _, _, c, _ in sg.calls()]
        ck.ob("C31.2", "seeded-filler", cs == ["rand::Rng::random"], "the Seeded filler draws from its own StdRng: %s" % cs, "src/sim/mem.rs:%s" % sg.line)
    # memory / registers are drawn from the filler only
    nu = F.bodies.get("sim::mem::Word::new_uninit")
    if nu is not None:
        cs = [(c or "") for _, _, c, _ in nu.calls()]
        ck.ob("C31.2", "new_uninit", cs == ["sim::mem::WordFiller::generate"] or (len(cs) == 1 and cs[0].endswith("WordFiller::generate")), "Word::new_uninit takes its data from fill.generate(): %s" % cs, "src/sim/mem.rs:%s" % nu.line)
    for name in ("sim::mem::MemArray::new", "sim::mem::RegFile::new"):
        b = F.bodies.get(name)
        if ck.anchor("C31.2", name, b):
            cs = [(c or "").split("::")[-1] for _, _, c, _ in b.calls()]
            ck.ob("C31.2", name.split("::")[-2] + "::new", any(x in ("generate_boxed_array", "generate_array") for x in cs), "%s fills every word from the filler: %s" % (name, cs), "src/sim/mem.rs:%s" % b.line)
    # ---- timer
    tn = F.bodies.get("sim::device::timer::TimerDevice::new")
    if ck.anchor("C31.3", "TimerDevice::new", tn):
        rows = {}
        for bi, t, c, _ in tn.calls():
            c = c or ""
            if c.endswith("seed_from_u64") or c.endswith("from_os_rng"):
                arm = None
                for ex, lo, hi in panics.dominating_conditions(tn, bi):
                    u = _unwrap_var(ex)
                    if u[0] == "discr" and lo is not None and lo == hi and _unwrap_var(u[1])[0] == "arg" and _unwrap_var(u[1])[2] == "seed":
                        arm = ["None", "Some"][lo]
                arg = repr(tn.expr_of_operand(t["args"][0], 8)) if t["args"] else ""
                rows[arm] = (c.split("::")[-1], "seed payload" if "'seed'" in arg and "'Some'" in arg else "")
        ck.ob("C31.3", "timer-seed", rows == {"None": ("from_os_rng", ""), "Some": ("seed_from_u64", "seed payload")},
              "TimerDevice::new: %s (required: OS entropy only on the None arm of the seed Option; Some(s) -> seed_from_u64(s))" % rows, "src/sim/device/timer.rs:%s" % tn.line)
    tg = F.bodies.get("sim::device::timer::TimerDevice::try_generate_time")
    if ck.anchor("C31.3", "try_generate_time", tg):
        ok = all("'generator'" in repr(tg.expr_of_operand(t["args"][0], 6)) for _, t, c, _ in tg.calls() if (c or "").endswith("random_range"))
        n = sum(1 for _, t, c, _ in tg.calls() if (c or "").endswith("random_range"))
        ck.ob("C31.3", "timer-samples-own-rng", ok and n == 2, "both sampling calls draw from self.generator", "src/sim/device/timer.rs:%s" % tg.line)
    ck.assume("HashMap/HashSet iteration on these paths only feeds order-insensitive consumers (breakpoints.iter().any(pure predicate)); load_obj_file is in the entry set; its choice of *which* unresolved external an error names iterates a HashMap and is not claimed")
    ck.assume("rand's StdRng is deterministic for a given seed (trusted dependency)")
