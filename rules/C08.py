"""C08 - Each simulator step follows the LC-3 ISA: per-opcode effect signatures, fetch order,
exception vectoring, condition codes and PSR layout."""
from lib import simx, tables, panics, bits
from lib.bits import BV
from lib.panics import _unwrap_var, interval
import discharge, C06

LEVEL = "other"
SPEC = C06.SPEC
SELF0 = (1, ("*", ".0"))        # the place (*self).0 of the PSR methods


def PCOFF(k):
    return ("+", ("pc",), ("off", k))


def R(k):
    return ("reg", ("operand", k))


def BASE(r, k):
    return ("+", ("val", R(r)), ("off", k))


SR2 = ("phi", frozenset({R(2), ("off", 2)}))
# hand-written from the ISA: what each arm must do, in the symbolic vocabulary of rules/lib/simx.py
EXPECT = {
    "ADD": dict(reads=[], writes=[], regw=[(R(0), ("add", R(1), SR2), "checked")], cc="written", pc=[]),
    "AND": dict(reads=[], writes=[], regw=[(R(0), ("bitand", R(1), SR2), "checked")], cc="written", pc=[]),
    "NOT": dict(reads=[], writes=[], regw=[(R(0), ("not", R(1)), "checked")], cc="written", pc=[]),
    "LD": dict(reads=[PCOFF(1)], writes=[], regw=[(R(0), ("mem", PCOFF(1)), "checked")], cc="written", pc=[]),
    "LDI": dict(reads=[PCOFF(1), ("val", ("mem", PCOFF(1)))], writes=[], regw=[(R(0), ("mem", ("val", ("mem", PCOFF(1)))), "checked")], cc="written", pc=[]),
    "LDR": dict(reads=[BASE(1, 2)], writes=[], regw=[(R(0), ("mem", BASE(1, 2)), "checked")], cc="written", pc=[]),
    "LEA": dict(reads=[], writes=[], regw=[(R(0), PCOFF(1), "set")], cc=None, pc=[]),
    "ST": dict(reads=[], writes=[(PCOFF(1), R(0))], regw=[], cc=None, pc=[]),
    "STI": dict(reads=[PCOFF(1)], writes=[(("val", ("mem", PCOFF(1))), R(0))], regw=[], cc=None, pc=[]),
    "STR": dict(reads=[], writes=[(BASE(1, 2), R(0))], regw=[], cc=None, pc=[]),
    "BR": dict(reads=[], writes=[], regw=[], cc=None, pc=[("offset_pc", ("off", 1), 1)]),
    "JMP": dict(reads=[], writes=[], regw=[], cc=None, pc=[("set_pc", R(0), 1)]),
    "JSR": dict(reads=[], writes=[], regw=[], cc=None, pc=[("call_subroutine", ("val", ("phi", frozenset({PCOFF(0), R(0)}))))]),
    "RTI": dict(reads=[("val", ("reg", "R6")), ("+", ("val", ("reg", "R6")), ("const", 1))], writes=[], regw=[], cc=None,
                pc=[("set_pc", ("val", ("mem", ("val", ("reg", "R6")))), 1)]),
    "TRAP": dict(reads=[], writes=[], regw=[], cc=None, pc=[("handle_interrupt", ("off", 0), "None")]),
}


def run(ck, ctx):
    F = ctx.F
    panics.FACTS = F
    ck.rule("R1 over MIR: for each of the 15 arms of the instruction match in _step_inner the memory reads/writes (with the provenance "
            "of their addresses), register writes, set_cc (on the value written), PC changes and ALU operator equal the ISA effect table; "
            "R4: fetch order and single instruction counter; R1: exception/HALT vectors under real traps and the virtual short-circuit; "
            "R9: set_cc mapping and every PSR accessor/mutator decided bit-exactly")
    ck.explanation = ("Effect signatures are extracted from the MIR of each match arm as symbolic terms (pc+off, reg[operand k], mem[...]) and compared "
                      "with a hand-written table; PSR methods are executed path by path in the bit-provenance domain on a symbolic 16-bit PSR.")
    try:
        b, swb, arms = simx.step_arms(F)
    except tables.TableError as ex:
        ck.fail("C08.0", "arms", "obligation not established: %s" % ex)
        return
    ck.floor("C08.1", "instruction arms", len(arms), 15)
    cv = lambda x: simx.classify_value(b.expr_of_operand(x, 30), 0, b)
    for v in sorted(EXPECT):
        if v not in arms:
            ck.fail("C08.1", "arm:" + v, "no arm for %s" % v)
            continue
        tb, blocks = arms[v]
        where = "src/sim.rs:%s" % b.blocks[tb]["term"]["line"]
        exp = EXPECT[v]
        reads = [cv(t["args"][1]) for _, t, c in simx.calls_in(b, blocks, ["Simulator::read_mem"])]
        writes = [(cv(t["args"][1]), cv(t["args"][2])) for _, t, c in simx.calls_in(b, blocks, ["Simulator::write_mem"])]
        regw = []
        for _, t, c in simx.calls_in(b, blocks, ["Word::set_if_init", "Word::set"]):
            dst = cv(t["args"][0])
            if dst[0] == "reg":
                regw.append((dst, cv(t["args"][1]), "checked" if c.endswith("set_if_init") else "set"))
        ccs = [cv(t["args"][1]) for _, t, c in simx.calls_in(b, blocks, ["Simulator::set_cc"])]
        pcs = []
        for _, t, c in simx.calls_in(b, blocks, ["Simulator::set_pc", "Simulator::offset_pc", "Simulator::call_subroutine", "Simulator::handle_interrupt"]):
            n = c.split("::")[-1]
            args = [cv(a) for a in t["args"][1:]]
            if n in ("set_pc", "offset_pc"):
                pcs.append((n, args[0], (interval(b.expr_of_operand(t["args"][2])) or (None,))[0]))
            elif n == "call_subroutine":
                pcs.append((n, args[0]))
            else:
                an, fs = panics._agg_name(b.expr_of_operand(t["args"][2]))
                pcs.append((n, args[0], _unwrap_var(b.expr_of_operand(t["args"][2]))[2][1] if an == "std::option::Option" else "?"))
        ck.ob("C08.1", v + ":reads", reads == exp["reads"], "read_mem addresses %s (ISA: %s)" % (reads, exp["reads"]), where)
        ck.ob("C08.1", v + ":writes", writes == exp["writes"], "write_mem (address, data) %s (ISA: %s)" % (writes, exp["writes"]), where)
        ck.ob("C08.1", v + ":reg-write", regw == exp["regw"], "register writes %s (ISA: %s)" % (regw, exp["regw"]), where)
        if exp["cc"] == "written":
            ok = len(ccs) == 1 and len(regw) == 1 and ccs[0] == ("val", regw[0][1])
            ck.ob("C08.1", v + ":setcc", ok, "set_cc argument %s must be the value written to the register" % ccs, where)
        else:
            ck.ob("C08.1", v + ":setcc", ccs == [], "set_cc calls: %s (ISA: none)" % ccs, where)
        ck.ob("C08.1", v + ":pc", pcs == exp["pc"], "PC-changing calls %s (ISA: %s)" % (pcs, exp["pc"]), where)
    # RTI loads the PSR verbatim from mem[SP+1], after the PC from mem[SP], and adds 2 to R6
    tb, blocks = arms["RTI"]
    psr_ok = False
    psr_desc = "no store to self.psr found"
    for x in blocks:
        for s in b.blocks[x]["stmts"]:
            if s["k"] == "assign" and s["p"]["proj"] and isinstance(s["p"]["proj"][-1], dict) and s["p"]["proj"][-1].get("name") == "psr":
                e = b.expr_of_rvalue(s["rv"], 30)
                an, fs = panics._agg_name(e)
                src = simx.classify_value(fs[0], 0, b) if an == "sim::PSR" and fs else ("?",)
                psr_desc = "self.psr = %s(%s)" % (an, src)
                psr_ok = an == "sim::PSR" and src == ("val", ("mem", ("+", ("val", ("reg", "R6")), ("const", 1))))
    setters = [c for _, t, c in simx.calls_in(b, blocks, ["PSR::set", "PSR::set_cc", "PSR::set_privileged", "PSR::set_priority"])]
    ck.ob("C08.1", "RTI:psr-verbatim", psr_ok and not setters, "%s; PSR setter calls in the arm: %s (ISA: PSR <- mem[SP+1] unmodified)" % (psr_desc, setters), "src/sim.rs")
    adds = [interval(b.expr_of_operand(t["args"][1])) for _, t, c in simx.calls_in(b, blocks, ["Word as std::ops::AddAssign<u16>>::add_assign"])
            if simx.classify_value(b.expr_of_operand(t["args"][0], 30), 0, b) == ("reg", "R6")]
    ck.ob("C08.1", "RTI:sp+2", adds == [(2, 2)], "R6 += %s (ISA: 2)" % adds, "src/sim.rs")
    # BR condition: cc & psr.cc() != 0
    tb, blocks = arms["BR"]
    cond_ok = False
    for bi, t, c in simx.calls_in(b, blocks, ["Simulator::offset_pc"]):
        for d in sorted(b.dominators().get(bi, ())):
            tt = b.blocks[d]["term"]
            if tt["k"] == "switch" and b.dominates(tb, d):
                e = _unwrap_var(b.expr_of_operand(tt["discr"], 20))
                if e[0] == "bin" and e[1] == "Ne" and interval(e[3]) == (0, 0):
                    a = _unwrap_var(e[2])
                    if a[0] == "bin" and a[1] == "BitAnd" and "PSR::cc" in repr(a) and tables.find_self_fields(a[2]) is not None and b.dominates(tt["otherwise"], bi):
                        cond_ok = True
    ck.ob("C08.1", "BR:condition", cond_ok, "the branch is taken exactly on the edge (cc & psr.cc()) != 0", "src/sim.rs")
    # JMP pops a frame iff the base register is R7
    tb, blocks = arms["JMP"]
    pop_ok = False
    for bi, t, c in simx.calls_in(b, blocks, ["FrameStack::pop_frame"]):
        for ex, lo, hi in panics.dominating_conditions(b, bi):
            if "Reg::reg_no" in repr(ex) and lo == 7 and hi == 7:
                pop_ok = True
    ck.ob("C08.1", "JMP:ret-pops-frame", pop_ok, "pop_frame on JMP only when reg_no() == 7", "src/sim.rs")

    # ---- C08.2 fetch order
    def first_block(pred):
        cands = [bi for bi in range(len(b.blocks)) if pred(bi)]
        return min(cands, key=lambda x: len(b.dominators().get(x, ()))) if cands else None

    def store_of(field, val):
        def p(bi):
            for s in b.blocks[bi]["stmts"]:
                if s["k"] == "assign" and any(isinstance(e, dict) and e.get("name") == field for e in s["p"]["proj"]) and s["rv"]["k"] == "use":
                    if interval(b.expr_of_operand(s["rv"]["op"])) == (val, val):
                        return True
            return False
        return p

    def call_to(suffix, extra=None):
        def p(bi):
            t = b.blocks[bi]["term"]
            if t["k"] != "call":
                return False
            c = (t["func"].get("resolved") or {}).get("path") or t["func"].get("fn") or ""
            return c.endswith(suffix) and (extra is None or extra(t))
        return p
    seq = [("prefetch=true", first_block(store_of("prefetch", 1))),
           ("poll_interrupt", first_block(call_to("ExternalDevice>::poll_interrupt"))),
           ("fetch read_mem(pc)", first_block(call_to("Simulator::read_mem", lambda t: cv(t["args"][1]) == ("pc",)))),
           ("decode", first_block(call_to("SimInstr::decode"))),
           ("offset_pc(1,false)", first_block(call_to("Simulator::offset_pc", lambda t: interval(b.expr_of_operand(t["args"][1])) == (1, 1) and interval(b.expr_of_operand(t["args"][2])) == (0, 0)))),
           ("prefetch=false", first_block(store_of("prefetch", 0))),
           ("match instr", swb)]
    # a store is a statement, so it may share its block with the call/switch terminator that follows it
    order_ok = all(x[1] is not None for x in seq) and all(
        b.dominates(seq[i][1], seq[i + 1][1]) and (seq[i][1] != seq[i + 1][1] or i in (0, 5)) for i in range(len(seq) - 1))
    ck.ob("C08.2", "fetch-order", order_ok, "dominance order: %s" % [(n, x) for n, x in seq], "src/sim.rs:%s" % b.line)
    polls = [p for p, bb in F.bodies.items() if not bb.light and any((c or "").endswith("DeviceHandler as sim::device::ExternalDevice>::poll_interrupt") for _, _, c, _ in bb.calls())]
    ck.ob("C08.2", "poll-only-at-top", polls == [simx.STEP], "callers of DeviceHandler::poll_interrupt: %s" % polls, "src/sim.rs")
    writers = discharge._field_writers(F, "sim::Simulator", "instructions_run")
    inc_ok = False
    for bi, si, s in b.stmts():
        if s["k"] == "assign" and any(isinstance(e, dict) and e.get("name") == "instructions_run" for e in s["p"]["proj"]):
            e = _unwrap_var(b.expr_of_rvalue(s["rv"]))
            inc_ok = e[0] == "call" and (e[1] or "").endswith("<impl u64>::wrapping_add") and interval(e[2][1]) == (1, 1) and not any(b.dominates(tb, bi) for tb, _ in arms.values())
    ck.ob("C08.2", "instruction-counter", writers == {simx.STEP} and inc_ok,
          "instructions_run is written only in _step_inner (%s), +1 after the match (not inside an arm)" % sorted(writers), "src/sim.rs")
    # must-pass-through: once the instruction match is entered, the only ways to leave the function without the increment
    # are error returns (an Err aggregate or the residual of `?`); a success value that bypasses the counter (an early
    # `return self.handle_interrupt(..)` in an arm) makes run_with_limit count fewer instructions than single steps execute
    inc_blocks = [bi for bi, si, s in b.stmts() if s["k"] == "assign" and any(isinstance(e, dict) and e.get("name") == "instructions_run" for e in s["p"]["proj"])]
    bypass = []
    if len(inc_blocks) == 1 and swb is not None:
        seen, st_ = set(), [tb for tb, _ in arms.values()]
        while st_:
            x = st_.pop()
            if x in seen or x == inc_blocks[0]:
                continue
            seen.add(x)
            st_.extend(b.succs(x))
        for bi in sorted(seen):
            for s in b.blocks[bi]["stmts"]:
                if s["k"] == "assign" and s["p"]["l"] == 0 and not s["p"]["proj"]:
                    rv = s["rv"]
                    if not (rv["k"] == "agg" and rv.get("variant") == "Err"):
                        bypass.append("line %s: return value %s" % (s.get("line"), rv.get("variant") or rv["k"]))
            t = b.blocks[bi]["term"]
            if t["k"] == "call" and t.get("dest") and t["dest"]["l"] == 0 and not t["dest"]["proj"]:
                c = (t["func"].get("resolved") or {}).get("path") or t["func"].get("fn") or ""
                if not c.endswith("from_residual"):
                    bypass.append("line %s: returns the result of %s" % (t.get("line"), c.split("::")[-1]))
    ck.ob("C08.2", "counter-on-every-success-path", len(inc_blocks) == 1 and not bypass,
          "after the instruction match, every path that leaves _step_inner without the +1 is an error return%s" % ("; bypassing: " + "; ".join(bypass) if bypass else ""), "src/sim.rs")

    # ---- C08.3 exception vectoring
    st = F.bodies.get("sim::Simulator::step")
    if ck.anchor("C08.3", "Simulator::step", st):
        rows = {}
        for bi, t, c, _ in st.calls():
            if (c or "").endswith("Simulator::handle_interrupt"):
                vec = interval(st.expr_of_operand(t["args"][1], 20))
                pr = _unwrap_var(st.expr_of_operand(t["args"][2]))
                kinds = []
                for ex, lo, hi in panics.dominating_conditions(st, bi):
                    u = _unwrap_var(ex)
                    if u[0] == "discr" and lo is not None and lo == hi:
                        chain = tables.find_self_fields(u[1]) or []
                        tys = [x[2] for x in chain]
                        if tys and tys[-1] and tys[-1].startswith("sim::SimErr"):
                            kinds.append(tables.variant_names(F, "sim::SimErr")[lo])
                        elif tys and tys[-1] and "StepBreak" in tys[-1]:
                            kinds.append("StepBreak::" + tables.variant_names(F, "sim::StepBreak")[lo])
                key = kinds[-1] if kinds else "?"
                rows[key] = (vec[0] if vec and vec[0] == vec[1] else None, pr[2][1] if pr[0] == "agg" else "?")
        want = {"StepBreak::Halt": (SPEC["vectors"]["HALT"], "None"), "PrivilegeViolation": (SPEC["vectors"]["privilege"], "None"),
                "IllegalOpcode": (SPEC["vectors"]["illegal_opcode"], "None"), "InvalidInstrFormat": (SPEC["vectors"]["illegal_opcode"], "None"),
                "AccessViolation": (SPEC["vectors"]["access_violation"], "None")}
        ck.ob("C08.3", "real-trap-rows", rows == want, "under real traps: %s (ISA: %s)" % (rows, want), "src/sim.rs:%s" % st.line)
        flag_ok = False
        for bi, t in st.terms("switch"):
            if "'use_real_traps'" in repr(st.expr_of_operand(t["discr"])):
                flag_ok = True
        ck.ob("C08.3", "real-trap-flag", flag_ok, "step re-dispatches only when flags.use_real_traps", "src/sim.rs:%s" % st.line)
    adt = F.adts.get("sim::RealIntVect")
    if ck.anchor("C08.3", "RealIntVect", adt):
        got = {v["name"]: v["discr"] for v in adt["variants"]}
        want = {"Halt": 0x25, "PrivilegeViolation": 0x100, "IllegalOpcode": 0x101, "AccessViolation": 0x102}
        ck.ob("C08.3", "RealIntVect", got == want, "RealIntVect = %s" % got, "src/sim.rs")
    hi_ = F.bodies.get("sim::Simulator::handle_interrupt")
    if ck.anchor("C08.3", "handle_interrupt", hi_):
        # virtual: Err(break value) rows and PC rewind iff !prefetch
        rows = {}
        for bi, si, s in hi_.stmts():
            if s["k"] == "assign" and s["rv"]["k"] == "agg" and s["rv"].get("adt") == "sim::StepBreak":
                vname = None
                for ex, lo, hi in panics.dominating_conditions(hi_, bi):
                    u = _unwrap_var(ex)
                    if u[0] == "discr" and lo is not None and lo == hi and "RealIntVect" in repr(u):
                        vname = next((v["name"] for v in F.adts["sim::RealIntVect"]["variants"] if v["discr"] == lo), None)
                val = s["rv"]["variant"]
                if val == "Err":
                    an, fs = panics._agg_name(hi_.expr_of_operand(s["rv"]["fields"][0]))
                    val = "Err(%s)" % _unwrap_var(hi_.expr_of_operand(s["rv"]["fields"][0]))[2][1]
                rows[vname] = val
        want = {"Halt": "Halt", "PrivilegeViolation": "Err(PrivilegeViolation)", "IllegalOpcode": "Err(IllegalOpcode)", "AccessViolation": "Err(AccessViolation)"}
        ck.ob("C08.3", "virtual-rows", rows == want, "under virtual traps: %s" % rows, "src/sim.rs:%s" % hi_.line)
        rew = False
        for bi, t, c, _ in hi_.calls():
            if (c or "").endswith("Simulator::offset_pc") and interval(hi_.expr_of_operand(t["args"][1])) == (-1, -1) and interval(hi_.expr_of_operand(t["args"][2])) == (0, 0):
                for ex, lo, hi in panics.dominating_conditions(hi_, bi):
                    if "'prefetch'" in repr(ex) and hi == 0:
                        rew = True
        ck.ob("C08.3", "virtual-rewind", rew, "the PC is moved back by one exactly when prefetch is false (so the reported address is the faulting instruction's)", "src/sim.rs:%s" % hi_.line)
        tf = F.bodies.get("<sim::RealIntVect as std::convert::TryFrom<u16>>::try_from")
        if ck.anchor("C08.3", "RealIntVect::try_from", tf):
            vals = {}
            for bi, t in tf.terms("switch"):
                for v, tb in t["values"]:
                    for s in tf.blocks[tb]["stmts"]:
                        if s["k"] == "assign" and s["rv"]["k"] == "agg" and s["rv"].get("variant") == "Ok":
                            vals[v] = _unwrap_var(tf.expr_of_operand(s["rv"]["fields"][0]))[2][1]
            ck.ob("C08.3", "RealIntVect::try_from", vals == {0x25: "Halt", 0x100: "PrivilegeViolation", 0x101: "IllegalOpcode", 0x102: "AccessViolation"}, "try_from rows: %s" % vals, "src/sim.rs")

    # ---- C08.4 condition codes and PSR
    sc = F.bodies.get("sim::Simulator::set_cc")
    if ck.anchor("C08.4", "Simulator::set_cc", sc):
        rows = {}
        cmp_ok = False
        for bi, t, c, _ in sc.calls():
            if (c or "").endswith("Ord for i16>::cmp"):
                a0 = _unwrap_var(sc.expr_of_operand(t["args"][0]))
                a1 = sc.expr_of_operand(t["args"][1])
                cmp_ok = "'i16'" in repr(a0) and "'result'" in repr(a0) and interval(_unwrap_var(a1)[1] if _unwrap_var(a1)[0] == "ref" else a1) in ((0, 0), None)
            if (c or "").endswith("PSR::set_cc"):
                v = interval(sc.expr_of_operand(t["args"][1]))
                for ex, lo, hi in panics.dominating_conditions(sc, bi):
                    if _unwrap_var(ex)[0] == "discr" and lo is not None and lo == hi:
                        rows[lo if lo < 128 else lo - 256] = v[0] if v else None
        ck.ob("C08.4", "set_cc", rows == {-1: 4, 0: 2, 1: 1} and cmp_ok, "(result as i16).cmp(&0): Less/Equal/Greater -> %s (ISA: n=100, z=010, p=001)" % rows, "src/sim.rs:%s" % sc.line)
    psr_checks(ck, F)
    ck.include("C06", ctx, "C08.6", {"C06.2", "C06.3"}, "every step decodes the fetched word: decode must be the ISA's")
    ck.include("C09", ctx, "C08.7", {"C09.1", "C09.3", "C09.4"}, "access-control exceptions are part of the ISA step (guard bounds, contexts, RTI privilege)")
    ck.include("C10", ctx, "C08.8", None, "trap/interrupt entry and RTI are shared with C10")
    ck.include("C15", ctx, "C08.9", None, "the ALU operates on Word values")
    ck.assume("data values (that val1 + val2 is the right sum) are Word::add etc. (C15); device I/O content is not decided")
    ck.assume("interrupt entry and RTI details are decided under C10; privilege under C09")


def psr_checks(ck, F):
    P = SPEC["psr"]
    X = BV.sym("p", "u16")

    def run_paths(name, args):
        b = F.bodies.get("sim::PSR::" + name)
        if b is None:
            ck.fail("C08.4", "anchor:PSR::" + name, "obligation not established: anchor not found")
            return None, []
        outs = []
        try:
            for path in bits.simple_paths(b):
                env = {(1, ()): ("ref", "self"), SELF0: X}
                for i, a in enumerate(args):
                    env[(2 + i, ())] = a
                env = bits.exec_path(b, path, env)
                outs.append((path, env))
        except bits.Unanalysable as ex:
            ck.fail("C08.4", "PSR::" + name, "unanalysable: %s" % ex, "src/sim.rs:%s" % b.line)
            return b, []
        return b, outs

    # accessors: return value
    for name, want in (("priority", [("x", "p", 8), ("x", "p", 9), ("x", "p", 10)] + [0] * 5),
                       ("cc", [("x", "p", 0), ("x", "p", 1), ("x", "p", 2)] + [0] * 5),
                       ("get", [("x", "p", i) for i in range(16)])):
        b, outs = run_paths(name, [])
        if outs:
            r = outs[0][1].get((0, ()))
            ck.ob("C08.4", "PSR::" + name, len(outs) == 1 and isinstance(r, BV) and r.bits == want, "PSR::%s() = %r" % (name, r), "src/sim.rs:%s" % b.line)
    b, outs = run_paths("privileged", [])
    if outs:
        env = outs[0][1]
        cmpinfo = env.get((0, ()) + ("cmp",)) or next((v for k, v in env.items() if len(k) == 3 and k[2] == "cmp"), None)
        ok = False
        if cmpinfo:
            op, a, c = cmpinfo
            ok = op == "Eq" and c.is_const() and c.to_int() == 0 and a.bits == [("x", "p", 15)] + [0] * 15
        ck.ob("C08.4", "PSR::privileged", ok, "privileged() is (psr >> 15) == 0, i.e. bit 15 clear = supervisor", "src/sim.rs:%s" % b.line)
    # mutators
    b, outs = run_paths("set_privileged", [BV([("x", "v", 0)], False)])
    if outs:
        r = outs[0][1].get(SELF0)
        want = [("x", "p", i) for i in range(15)] + [("n", ("x", "v", 0))]
        ck.ob("C08.4", "PSR::set_privileged", len(outs) == 1 and isinstance(r, BV) and r.bits == want, "set_privileged(v): psr' = %r" % r, "src/sim.rs:%s" % b.line)
    b, outs = run_paths("set_priority", [BV.sym("q", "u8")])
    if outs:
        r = outs[0][1].get(SELF0)
        want = [("x", "p", i) for i in range(8)] + [("x", "q", 0), ("x", "q", 1), ("x", "q", 2)] + [("x", "p", i) for i in range(11, 16)]
        ck.ob("C08.4", "PSR::set_priority", len(outs) == 1 and isinstance(r, BV) and r.bits == want, "set_priority(q): psr' = %r" % r, "src/sim.rs:%s" % b.line)
    b, outs = run_paths("set_cc", [BV.sym("c", "u8")])
    if outs:
        res = []
        for path, env in outs:
            r = env.get(SELF0)
            res.append(r.bits[:3] if isinstance(r, BV) else None)
            hi_ok = isinstance(r, BV) and r.bits[3:] == [("x", "p", i) for i in range(3, 16)]
            if not hi_ok:
                res.append("high bits changed")
        keep = [("x", "c", 0), ("x", "c", 1), ("x", "c", 2)]
        ok = len(outs) == 2 and sorted(map(repr, res)) == sorted(map(repr, [keep, [0, 1, 0]]))
        guard = any((c or "").endswith("<impl u8>::count_ones") for _, _, c, _ in b.calls())
        ck.ob("C08.4", "PSR::set_cc", ok and guard, "set_cc(c): low bits become c[2:0] (one-hot) or 010 (guard: count_ones() != 1), other bits kept: %s" % res, "src/sim.rs:%s" % b.line)
    b, outs = run_paths("set", [BV.sym("d", "u16")])
    if outs:
        env = outs[0][1]
        r = env.get(SELF0)
        mask = P["set_mask"]
        want = [("x", "d", i) if (mask >> i) & 1 else 0 for i in range(16)]
        calls_set_cc = any((c or "").endswith("PSR::set_cc") for _, _, c, _ in b.calls())
        ck.ob("C08.4", "PSR::set", isinstance(r, BV) and r.bits == want and calls_set_cc, "set(d): psr' = %r then set_cc(d & 7)" % r, "src/sim.rs:%s" % b.line)
    nb = F.bodies.get("sim::PSR::new")
    if nb is not None:
        e = bits.ret_expr(nb) if nb.defs().get(0) else None
        an, fs = panics._agg_name(e) if e else (None, None)
        ck.ob("C08.4", "PSR::new", an == "sim::PSR" and fs and interval(fs[0]) == (P["reset"], P["reset"]), "PSR::new() = x%04X" % ((interval(fs[0]) or (0,))[0] if fs else 0), "src/sim.rs:%s" % nb.line)
    substrate(ck, F)

def substrate(ck, F):
    """C08.5: the state accessors every instruction arm goes through, in normal form (a slip here changes what
    every arm reads or writes while leaving the arms themselves untouched)"""
    from lib import nf
    forms = [
        ("<sim::mem::RegFile as std::ops::Index<ast::Reg>>::index", "index[arg1.0, from(arg2)]", "reg_file[r] is element usize::from(r)", "src/sim/mem.rs"),
        ("<sim::mem::RegFile as std::ops::IndexMut<ast::Reg>>::index_mut", "index[arg1.0, from(arg2)]", "reg_file[r] (mutable) is element usize::from(r)", "src/sim/mem.rs"),
        ("ast::<impl std::convert::From<ast::Reg> for usize>::from", "(Reg::reg_no(arg1) as usize)", "usize::from(reg) is its number", "src/ast.rs"),
        ("ast::Reg::reg_no", "(discr(arg1) as u8)", "a register's number is its variant index (R0..R7 in order, C05.3)", "src/ast.rs"),
        ("<sim::mem::MemArray as std::ops::Index<u16>>::index", "index[(arg1.0.0.pointer as *const [sim::mem::Word; 65536]), (arg2 as usize)]", "mem[addr] is element addr of the 65536-word array", "src/sim/mem.rs"),
        ("sim::mem::Word::get", "arg1.data", "Word::get returns the data", "src/sim/mem.rs"),
        ("sim::mem::Word::new_init", "Word(arg1, 65535)", "an initialised word has all init bits set", "src/sim/mem.rs"),
        ("sim::mem::Word::is_init", "Eq(65535, arg1.init)", "initialised means all 16 init bits", "src/sim/mem.rs"),
        ("sim::Simulator::offset_pc", "Simulator::set_pc(arg1, from(wrapping_add_signed(arg1.pc, arg2)), arg3)", "offset_pc(n) sets PC to PC + n (wrapping)", "src/sim.rs"),
    ]
    for path, want, what, file in forms:
        nf.expect_deep(ck, F, "C08.5", path.split("::")[-2].strip("<> ") + "::" + path.split("::")[-1], path, [want], what, file=file)
    im = [p for p in F.bodies if p.startswith("<sim::mem::MemArray as std::ops::IndexMut<u16>>::index_mut")]
    for p in im[:1]:
        nf.expect_deep(ck, F, "C08.5", "MemArray::index_mut", p, ["index[(arg1.0.0.pointer as *const [sim::mem::Word; 65536]), (arg2 as usize)]"], "mem[addr] (mutable) is element addr", file="src/sim/mem.rs")
    for name, want in (("sim::mem::Word::set", [("data", "arg2"), ("init", "65535")]), ("sim::mem::Word::clear_init", [("init", "0")])):
        b = F.bodies.get(name)
        if ck.anchor("C08.5", name, b):
            xb = nf.XB(b)
            st = [([e.get("name") for e in s["p"]["proj"] if isinstance(e, dict) and "f" in e][-1:], nf.pp_x(xb.expr_of_rvalue(s["rv"], 8, (bi, si)))) for bi, si, s in b.stmts() if s["k"] == "assign" and s["p"]["proj"]]
            got = [(n[0] if n else "?", v) for n, v in st]
            ck.ob("C08.5", name.split("::")[-2] + "::" + name.split("::")[-1], got == want, "%s stores %s" % (name, got), "src/sim/mem.rs:%s" % b.line)
