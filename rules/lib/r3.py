"""R3 driver: reachability from entry points, site inventory, discharge, reporting."""
from . import panics
from .mir import short


def run(check, F, rule, entries, table, stop=(), scope=None, floor_sites=0, floor_bodies=0):
    """table: {site key: [entry...]} with entry = dict(tag, n, why, scope=None|set, when=None|callable)
    Each entry discharges up to `n` sites having that key (in order of appearance)."""
    panics.FACTS = F
    rec = getattr(F.bodies, "record", None)
    if rec is not None:
        F.bodies.record = False        # panic reachability visits every reachable body; that is not a semantic inspection
    try:
        return _run(check, F, rule, entries, table, stop, scope, floor_sites, floor_bodies)
    finally:
        if rec is not None:
            F.bodies.record = rec


def _run(check, F, rule, entries, table, stop, scope, floor_sites, floor_bodies):
    missing = [e for e in entries if e not in F.bodies]
    for e in missing:
        check.fail(rule, "entry:" + e, "obligation not established: entry point %s not found" % e)
    entries = [e for e in entries if e in F.bodies]
    reach = F.reach(entries, stop=stop)
    sites = []
    nb = 0
    for p in reach:
        b = F.bodies[p]
        if b.light:
            continue
        nb += 1
        sites.extend(panics.sites_of(b))
    used = {}
    stats = {"D-TYPE": 0, "D-GUARD": 0, "D-INV": 0, "D-TABLE": 0, "undischarged": 0}
    for s in sites:
        key = s.key()
        r = None
        try:
            r = panics.auto_discharge(s)
        except Exception as ex:  # analysis failure = not discharged
            r = None
        if r is None:
            for i, ent in enumerate(table.get(key, [])):
                if ent.get("scope") and scope not in ent["scope"]:
                    continue
                u = used.get((key, i), 0)
                if u >= ent.get("n", 1):
                    continue
                if ent.get("when") and not ent["when"](F, s):
                    continue
                used[(key, i)] = u + 1
                r = (ent["tag"], ent["why"])
                break
        path = F.call_path(reach, s.body.owner.path if s.body.owner else s.body.path)
        if r is None:
            stats["undischarged"] += 1
            check.ob(rule, key + ("#%d" % s.idx if s.idx else ""), False,
                     "undischarged panic-capable site: %s; call path: %s" % (panics.describe(s), " -> ".join(path[-6:])),
                     s.where())
        else:
            stats[r[0]] = stats.get(r[0], 0) + 1
            check.ob(rule, key + ("#%d" % s.idx if s.idx else ""), True, r[0] + ": " + r[1], s.where(),
                     nontrivial=(r[0] != "D-TYPE"),
                     sample={"site": key, "where": s.where(), "discharge": r[0], "reason": r[1]} if r[0] != "D-TYPE" or stats["D-TYPE"] < 4 else None)
    check.floor(rule, "reachable bodies", nb, floor_bodies)
    check.floor(rule, "panic-capable sites", len(sites), floor_sites)
    check.extra.setdefault("r3", {})[rule] = {"entries": len(entries), "bodies_analysed": nb, "sites": len(sites), **stats}
    return reach, sites
