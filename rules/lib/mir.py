"""Views over the mirfacts document: bodies, CFG, dominators, expression trees, call graph."""
import os
import re
from collections import defaultdict, deque

INT_RANGES = {
    "u8": (0, 2**8 - 1), "u16": (0, 2**16 - 1), "u32": (0, 2**32 - 1), "u64": (0, 2**64 - 1),
    "u128": (0, 2**128 - 1), "usize": (0, 2**64 - 1),
    "i8": (-2**7, 2**7 - 1), "i16": (-2**15, 2**15 - 1), "i32": (-2**31, 2**31 - 1),
    "i64": (-2**63, 2**63 - 1), "i128": (-2**127, 2**127 - 1), "isize": (-2**63, 2**63 - 1),
    "bool": (0, 1), "char": (0, 0x10FFFF),
}


class Body:
    def __init__(self, raw, facts, promoted_of=None, pidx=None):
        self.raw = raw
        self.facts = facts
        self.path = raw.get("path") if promoted_of is None else "%s::promoted[%d]" % (promoted_of.path, pidx)
        self.owner = promoted_of
        self.kind = raw.get("kind")
        self.file = raw.get("file") if promoted_of is None else promoted_of.file
        self.line = raw.get("line")
        self.exp = raw.get("exp", 0)
        self.light = raw.get("light", False)
        self.blocks = raw["blocks"]
        self.locals = raw.get("locals", [])
        self.arg_count = raw.get("arg_count", 0)
        self.promoted = [Body(p, facts, self, i) for i, p in enumerate(raw.get("promoted", []))]
        self._defs = None
        self._dom = None
        self._preds = None

    # ---------------------------------------------------------------- CFG
    def succs(self, bi, unwind=False):
        t = self.blocks[bi]["term"]
        k = t["k"]
        out = []
        if k == "goto":
            out = [t["target"]]
        elif k == "switch":
            out = [b for _, b in t["values"]] + [t["otherwise"]]
        elif k in ("call", "drop", "assert"):
            if t.get("target") is not None:
                out = [t["target"]]
            if unwind and t.get("unwind") is not None:
                out.append(t["unwind"])
        return out

    def preds(self):
        if self._preds is None:
            p = defaultdict(list)
            for i in range(len(self.blocks)):
                for s in self.succs(i):
                    p[s].append(i)
            self._preds = p
        return self._preds

    def reachable_blocks(self):
        seen = {0}
        dq = deque([0])
        while dq:
            b = dq.popleft()
            for s in self.succs(b):
                if s not in seen:
                    seen.add(s)
                    dq.append(s)
        return seen

    def dominators(self):
        """dom[b] = set of blocks dominating b (normal edges only, from block 0)."""
        if self._dom is not None:
            return self._dom
        reach = self.reachable_blocks()
        order = sorted(reach)
        preds = self.preds()
        dom = {b: set(order) for b in order}
        dom[0] = {0}
        changed = True
        while changed:
            changed = False
            for b in order:
                if b == 0:
                    continue
                ps = [p for p in preds[b] if p in reach]
                new = set(order)
                for p in ps:
                    new &= dom[p]
                new = new | {b}
                if new != dom[b]:
                    dom[b] = new
                    changed = True
        self._dom = dom
        return dom

    def dominates(self, a, b):
        d = self.dominators()
        return b in d and a in d[b]

    def can_reach(self, a, b, avoid=()):
        """Is there a normal-edge path from block a to block b (not passing through `avoid`)?"""
        seen = {a}
        dq = deque([a])
        while dq:
            x = dq.popleft()
            if x == b:
                return True
            for s in self.succs(x):
                if s not in seen and s not in avoid:
                    seen.add(s)
                    dq.append(s)
        return False

    # ---------------------------------------------------------------- defs
    def defs(self):
        """local -> list of (block, stmt index or 'term', rvalue-or-call) for whole-local
        assignments; partial (projected) writes are recorded under key ('partial', local)."""
        if self._defs is None:
            d = defaultdict(list)
            for bi, b in enumerate(self.blocks):
                for si, s in enumerate(b["stmts"]):
                    if s["k"] == "assign":
                        p = s["p"]
                        if not p["proj"]:
                            d[p["l"]].append((bi, si, s["rv"]))
                        elif p["proj"][0] == "deref":
                            d[("through", p["l"])].append((bi, si, s))   # writes the pointee, not the local
                        else:
                            d[("partial", p["l"])].append((bi, si, s))
                    elif s["k"] == "setdiscr":
                        d[("partial" if s["p"]["proj"][:1] != ["deref"] else "through", s["p"]["l"])].append((bi, si, s))
                t = b["term"]
                if t["k"] == "call" and "dest" in t:
                    p = t["dest"]
                    if not p["proj"]:
                        d[p["l"]].append((bi, "term", t))
                    elif p["proj"][0] == "deref":
                        d[("through", p["l"])].append((bi, "term", t))
                    else:
                        d[("partial", p["l"])].append((bi, "term", t))
            self._defs = d
        return self._defs

    def local_name(self, l):
        if l < len(self.locals):
            return self.locals[l].get("name")
        return None

    def local_ty(self, l):
        if l < len(self.locals):
            return self.locals[l]["ty"]
        return "?"

    def is_arg(self, l):
        return 1 <= l <= self.arg_count

    # ---------------------------------------------------------------- expression trees
    def expr_of_operand(self, op, depth=12, at=None):
        k = op["k"]
        if k == "const":
            if "val" in op:
                return ("const", op["val"], op["ty"])
            if "fn" in op:
                return ("fnitem", (op.get("resolved") or {}).get("path") or op["fn"])
            if "closure" in op:
                return ("closure", op["closure"])
            if "promoted" in op:
                return ("promoted", op["promoted"], op["ty"])
            if "str" in op:
                return ("str", op["str"])
            return ("constx", op.get("txt", ""), op["ty"])
        if k in ("copy", "move"):
            return self.expr_of_place(op["p"], depth, at)
        return ("unknown", k)

    def expr_of_place(self, p, depth=12, at=None):
        base = self.expr_of_local(p["l"], depth, at)
        for e in p["proj"]:
            if e == "deref":
                if base[0] == "ref":
                    base = base[1]
                else:
                    base = ("deref", base)
            elif isinstance(e, dict) and "f" in e:
                nm = e.get("name", str(e["f"]))
                # field of a known aggregate -> the field operand
                if base[0] == "agg" and isinstance(base[3], tuple) and e["f"] < len(base[3]) and base[1] in ("tuple", "adt"):
                    base = base[3][e["f"]]
                else:
                    base = ("field", base, nm, e.get("ty"))
            elif isinstance(e, dict) and "idx" in e:
                base = ("index", base, self.expr_of_local(e["idx"], depth - 1, at))
            elif isinstance(e, dict) and "downcast" in e:
                base = ("downcast", base, e["downcast"])
            elif isinstance(e, dict) and "cidx" in e:
                base = ("cindex", base, e["cidx"], e["from_end"])
            else:
                base = ("proj", base, str(e))
        return base

    def expr_of_local(self, l, depth=12, at=None):
        name = self.local_name(l)
        ty = self.local_ty(l)
        ds = self.defs().get(l, [])
        partial = self.defs().get(("partial", l), [])
        if self.is_arg(l):
            if not ds and not partial:
                return ("arg", l, name, ty)
            return ("local", l, name, ty)      # a reassigned `mut` parameter has several values
        if depth <= 0:
            return ("local", l, name, ty)
        if len(ds) == 1 and not partial:
            bi, si, rv = ds[0]
            if si == "term":
                e = self.expr_of_call(rv, depth - 1, ty)
                if name is not None:
                    return ("var", name, e, l)
                return e
            e = self.expr_of_rvalue(rv, depth - 1, (bi, si))
            if name is not None:
                return ("var", name, e, l)
            return e
        return ("local", l, name, ty)

    def expr_of_call(self, t, depth, dty=None):
        f = t["func"]
        if f["k"] == "const" and "fn" in f:
            callee = (f.get("resolved") or {}).get("path") or f["fn"]
            raw = f["fn"]
        else:
            callee = None
            raw = None
        args = tuple(self.expr_of_operand(a, depth) for a in t.get("args", []))
        return ("call", callee, args, raw, dty)

    def expr_of_rvalue(self, rv, depth=12, at=None):
        k = rv["k"]
        if k == "use":
            return self.expr_of_operand(rv["op"], depth, at)
        if k == "bin":
            return ("bin", rv["op"], self.expr_of_operand(rv["l"], depth, at), self.expr_of_operand(rv["r"], depth, at), rv.get("lty"))
        if k == "un":
            return ("un", rv["op"], self.expr_of_operand(rv["x"], depth, at), rv.get("xty"))
        if k == "cast":
            return ("cast", rv["ty"], self.expr_of_operand(rv["op"], depth, at), rv.get("from_ty"), rv.get("ck"))
        if k == "ref":
            return ("ref", self.expr_of_place(rv["p"], depth, at))
        if k == "rawptr":
            return ("ref", self.expr_of_place(rv["p"], depth, at))
        if k == "discr":
            return ("discr", self.expr_of_place(rv["p"], depth, at))
        if k == "agg":
            kind = rv["agg"]
            name = rv.get("adt") or rv.get("closure") or kind
            var = rv.get("variant")
            return ("agg", kind, (name, var), tuple(self.expr_of_operand(f, depth, at) for f in rv["fields"]))
        if k == "repeat":
            return ("repeat", self.expr_of_operand(rv["op"], depth, at), rv["n"])
        return ("other", rv.get("dbg", k))

    # ---------------------------------------------------------------- iteration helpers
    def _live(self):
        """blocks reachable through normal (non-unwind) edges; unwind/cleanup code is not analysed"""
        if getattr(self, "_live_set", None) is None:
            self._live_set = self.reachable_blocks() if not self.light else set(range(len(self.blocks)))
        return self._live_set

    def terms(self, kind=None):
        live = self._live()
        for bi, b in enumerate(self.blocks):
            if bi not in live:
                continue
            t = b["term"]
            if kind is None or t["k"] == kind:
                yield bi, t

    def calls(self):
        """yields (block, term, callee_path, raw_path) for direct calls; callee None if indirect"""
        for bi, t in self.terms("call"):
            f = t["func"]
            if f["k"] == "const" and "fn" in f:
                res = f.get("resolved") or {}
                yield bi, t, res.get("path") or f["fn"], f["fn"]
            else:
                yield bi, t, None, None

    def stmts(self):
        live = self._live()
        for bi, b in enumerate(self.blocks):
            if bi not in live:
                continue
            for si, s in enumerate(b["stmts"]):
                yield bi, si, s


def strip_generics(path):
    """`core::option::Option::<T>::unwrap` -> `core::option::Option::unwrap` (for matching)."""
    out = []
    depth = 0
    i = 0
    while i < len(path):
        c = path[i]
        if c == "<" and depth == 0 and i >= 2 and path[i - 2:i] == "::" and not path.startswith("<impl ", i):
            # turbofish: skip to matching '>'
            depth = 1
            i += 1
            while i < len(path) and depth:
                if path[i] == "<":
                    depth += 1
                elif path[i] == ">":
                    depth -= 1
                i += 1
            # drop the preceding '::'
            if out[-2:] == [":", ":"]:
                out = out[:-2]
            continue
        out.append(c)
        i += 1
    return "".join(out)


class _Bodies(dict):
    """the body table; remembers which bodies a rule looked up by name (for the coverage report of
    tools/coverage.py: functions no semantic rule ever inspects are blind spots)"""

    def __init__(self):
        super().__init__()
        self.touched = set()
        self.record = True

    def get(self, k, d=None):
        if self.record and k in self:
            self.touched.add(k)
        return super().get(k, d)

    # __getitem__ is what loops over all bodies use; only named look-ups (`get`) count as "a rule inspects this function"


class Facts:
    def __init__(self, doc):
        self.doc = doc
        self.hash = doc.get("_hash")
        self.repo = doc.get("_repo")
        self.bodies = _Bodies()
        if not os.environ.get("VERIF_NO_INLINE"):
            from . import inline as _inline
            prev = doc.get("_inlined") or {}
            self.inlined = _inline.inline_new_helpers(doc) or prev
            doc["_inlined"] = self.inlined
        for raw in doc["bodies"]:
            b = Body(raw, self)
            self.bodies[b.path] = b
        self.adts = {a["path"]: a for a in doc["adts"]}
        self.impls = doc["impls"]
        self.consts = {c["path"]: c for c in doc["consts"]}
        # trait item -> [impl item paths]
        self.trait_impls = defaultdict(list)
        for im in self.impls:
            for it in im["items"]:
                if it.get("trait_item"):
                    self.trait_impls[it["trait_item"]].append(it["path"])
        # closures by parent
        self.children = defaultdict(list)
        for b in self.bodies.values():
            par = b.raw.get("parent")
            if par:
                self.children[par].append(b.path)
        self._edges = {}

    def body(self, path):
        return self.bodies.get(path)

    def find(self, suffix):
        """all bodies whose path ends with suffix (at a `::` boundary or whole)"""
        out = []
        for p in self.bodies:
            if p == suffix or p.endswith("::" + suffix) or p.endswith(suffix) and suffix.startswith("<"):
                out.append(p)
        return out

    def one(self, path):
        b = self.bodies.get(path)
        if b is None:
            raise KeyError("anchor not found: " + path)
        return b

    # ---------------------------------------------------------------- call graph
    def edges(self, path):
        """Outgoing call-graph edges of a local body: list of (target, kind, line) where target
        is a local body path, or ('ext', path) for a non-local callee.  Kinds: call, virtual,
        cha (unresolved trait call), value (fn item / closure mentioned as a value)."""
        if path in self._edges:
            return self._edges[path]
        b = self.bodies[path]
        out = []

        def add_fn_operand(op, line, kind):
            if op.get("k") != "const":
                return
            if "closure" in op:
                if op["closure"] in self.bodies:
                    out.append((op["closure"], "value", line))
                return
            if "fn" not in op:
                return
            res = op.get("resolved")
            raw = op["fn"]
            if res:
                tgt = res["path"]
                if res.get("kind") == "virtual":
                    impls = self.trait_impls.get(tgt) or self.trait_impls.get(raw) or []
                    for i in impls:
                        if i in self.bodies:
                            out.append((i, "virtual", line))
                    if not impls:
                        out.append((("ext", tgt), kind, line))
                    return
                if tgt in self.bodies:
                    out.append((tgt, kind, line))
                elif res.get("local") and raw in self.trait_impls:
                    # resolved to a default method body or similar that has no MIR here
                    for i in self.trait_impls[raw]:
                        out.append((i, "cha", line))
                else:
                    out.append((("ext", tgt), kind, line))
            else:
                if raw in self.bodies:
                    out.append((raw, kind, line))
                elif raw in self.trait_impls:
                    for i in self.trait_impls[raw]:
                        if i in self.bodies:
                            out.append((i, "cha", line))
                else:
                    out.append((("ext", raw), kind, line))

        def scan_body(bb):
            for blk in bb.blocks:
                t = blk["term"]
                if t["k"] == "call":
                    add_fn_operand(t["func"], t["line"], "call")
                    for a in t.get("args", []):
                        add_fn_operand(a, t["line"], "value")
                for s in blk["stmts"]:
                    if s["k"] != "assign":
                        continue
                    rv = s["rv"]
                    ops = []
                    if rv["k"] in ("use", "cast", "repeat"):
                        ops = [rv["op"]]
                    elif rv["k"] == "agg":
                        ops = rv["fields"]
                        if rv.get("agg") == "closure" and rv["closure"] in self.bodies:
                            out.append((rv["closure"], "value", s["line"]))
                    elif rv["k"] == "bin":
                        ops = [rv["l"], rv["r"]]
                    for o in ops:
                        add_fn_operand(o, s["line"], "value")

        scan_body(b)
        for pb in b.promoted:
            scan_body(pb)
        # closures defined in this body are reachable from it (conservative)
        for c in self.children.get(path, []):
            if self.bodies[c].raw.get("parent") == path:
                out.append((c, "value", self.bodies[c].line))
        self._edges[path] = out
        return out

    def reach(self, entries, stop=()):
        """BFS over local bodies from `entries`; returns {path: (parent, line)}."""
        seen = {}
        dq = deque()
        for e in entries:
            if e not in self.bodies:
                raise KeyError("entry point not found: " + e)
            if e not in seen:
                seen[e] = (None, None)
                dq.append(e)
        while dq:
            p = dq.popleft()
            if p in stop:
                continue
            for tgt, kind, line in self.edges(p):
                if isinstance(tgt, tuple):
                    continue
                if tgt not in seen:
                    seen[tgt] = (p, line)
                    dq.append(tgt)
        return seen

    def call_path(self, reach, path):
        out = [path]
        while reach.get(path, (None, None))[0] is not None:
            path = reach[path][0]
            out.append(path)
        return list(reversed(out))

    def callers_of(self, target_pred):
        """[(caller path, block, term, callee path)] for every direct call whose resolved or raw
        callee satisfies target_pred(path)."""
        out = []
        for p, b in self.bodies.items():
            if b.light:
                continue
            for bi, t, callee, raw in b.calls():
                if callee and (target_pred(callee) or (raw and target_pred(raw))):
                    out.append((p, bi, t, callee))
        return out


def short(e, n=160):
    s = repr(e)
    return s if len(s) <= n else s[: n - 3] + "..."


def same_value(a, b):
    """structural equality of expression trees, except that two references to the same
    single-assignment user variable are equal regardless of how deep each was expanded"""
    if isinstance(a, tuple) and isinstance(b, tuple) and a and b and a[0] == "var" and b[0] == "var":
        return a[3] == b[3]
    while isinstance(a, tuple) and a and a[0] == "var":
        a = a[2]
    while isinstance(b, tuple) and b and b[0] == "var":
        b = b[2]
    if isinstance(a, tuple) and isinstance(b, tuple):
        if len(a) != len(b):
            return False
        return all(same_value(x, y) for x, y in zip(a, b))
    return a == b
