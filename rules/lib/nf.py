"""Name- and layout-independent normal forms of small functions and closures.

`cases(F, path)` gives, for a body, the list of (conditions, value) pairs of its return value as
strings in which local names, line numbers and the spelling of `?`, overflow-checked arithmetic
and closure coercions do not appear.  Rules compare these with a short list of accepted forms:
any edit that changes what a small accessor computes changes its normal form, while renaming,
reformatting, reordering of commutative operands or moving the code does not.
"""
import re
from . import shape, panics
from .panics import _unwrap_var


def clean(e, depth=0):
    """tree rewrite: drop overflow-check tuples, closure coercions; name the `?` operator"""
    if not isinstance(e, tuple) or not e or depth > 80:
        return e
    k = e[0]
    if k == "var":
        return clean(e[2], depth + 1)
    if k == "field" and isinstance(e[1], tuple) and e[1] and e[1][0] == "bin" and str(e[1][1]).endswith("WithOverflow") and str(e[2]) == "0":
        b = e[1]
        return ("bin", b[1][:-len("WithOverflow")], clean(b[2], depth + 1), clean(b[3], depth + 1), b[4] if len(b) > 4 else None)
    if k == "cast" and "closure@" in str(e[1]):
        return clean(e[2], depth + 1)
    if k == "cast" and len(e) > 4 and e[4] in ("PointerCoercion(Unsize)", "Unsize") :
        return clean(e[2], depth + 1)
    if k == "field" and isinstance(e[1], tuple) and e[1] and e[1][0] == "downcast" and str(e[2]) == "0":
        d = e[1]
        inner = d[1]
        while isinstance(inner, tuple) and inner and inner[0] == "var":
            inner = inner[2]
        if d[2] == "Continue" and isinstance(inner, tuple) and inner[0] == "call" and (inner[1] or "").endswith("Try>::branch"):
            return ("call", "try", tuple(clean(a, depth + 1) for a in inner[2]), None, None)
    if k == "call":
        c = e[1] or ""
        if c.endswith("FromResidual<") or "FromResidual" in c and c.endswith("::from_residual"):
            a = e[2][0] if e[2] else None
            x = a
            while isinstance(x, tuple) and x and x[0] == "var":
                x = x[2]
            if isinstance(x, tuple) and x[0] == "field" and isinstance(x[1], tuple) and x[1][0] == "downcast" and x[1][2] == "Break":
                inner = x[1][1]
                while isinstance(inner, tuple) and inner and inner[0] == "var":
                    inner = inner[2]
                if isinstance(inner, tuple) and inner[0] == "call" and (inner[1] or "").endswith("Try>::branch"):
                    return ("call", "propagate", tuple(clean(a2, depth + 1) for a2 in inner[2]), None, None)
    return tuple(clean(x, depth + 1) if isinstance(x, tuple) else x for x in e)


def pp(e, arg_names=None):
    s = shape.pp(clean(e), arg_names)
    s = re.sub(r"\{closure@[^}]*\}", "{closure}", s)
    return s


def upvars_of(F, path):
    b = F.bodies.get(path)
    par = b.raw.get("parent") if b is not None else None
    if not par:
        return ()
    cs = shape.closure_site(F, par, path)
    return cs[1] if cs else ()


def _cond(ex, lo, hi, upvars, arg_names):
    ex = clean(shape.subst_upvars(ex, upvars))
    u = ex
    if isinstance(u, tuple) and u and u[0] == "discr":
        inner = u[1]
        if isinstance(inner, tuple) and inner[0] == "call" and (inner[1] or "").endswith("Try>::branch"):
            x = shape.pp(inner[2][0], arg_names) if inner[2] else "?"
            return ("ok(%s)" if (lo, hi) == (0, 0) else "fail(%s)" if (lo, hi) == (1, 1) else "branch(%s) in [%s,%s]" % ("%s", lo, hi)) % x
    s = shape.pp(ex, arg_names)
    return "%s in [%s,%s]" % (s, lo, hi)


def cases(F, path, depth=14, arg_names=None):
    """sorted [(tuple of condition strings, value string)] for every definition of the return place"""
    body = F.bodies.get(path)
    if body is None:
        return None
    up = upvars_of(F, path)
    out = []
    defs = []
    for bi, si, s in body.stmts():
        if s["k"] == "assign" and s["p"]["l"] == 0 and not s["p"]["proj"]:
            defs.append((bi, body.expr_of_rvalue(s["rv"], depth)))
    for bi, t in body.terms("call"):
        d = t.get("dest")
        if d and d["l"] == 0 and not d["proj"]:
            defs.append((bi, body.expr_of_call(t, depth, None)))
    for bi, e in defs:
        conds = sorted(set(_cond(ex, lo, hi, up, arg_names) for ex, lo, hi in panics.dominating_conditions(body, bi)))
        v = re.sub(r"\{closure@[^}]*\}", "{closure}", shape.pp(clean(shape.subst_upvars(e, up)), arg_names))
        out.append((tuple(conds), v))
    return sorted(out)


def render(cs):
    if cs is None:
        return "<missing>"
    return " ; ".join(("[%s] => %s" % (" & ".join(c), v)) if c else v for c, v in cs)


def expect(ck, F, rule, key, path, accepted, what, file="src/asm.rs"):
    """obligation: the normal form of `path` is one of `accepted` (strings as produced by render)"""
    b = F.bodies.get(path)
    if not ck.anchor(rule, path, b):
        return False
    got = render(cases(F, path))
    ok = got in accepted
    ck.ob(rule, key, ok, "%s; normal form: %s%s" % (what, got, "" if ok else "  (accepted: %s)" % " | ".join(accepted)), "%s:%s" % (file, b.line))
    return ok


def chain(body, e):
    """iterator/method chain through argument 0: [(short callee, call expr)] from the outermost call inwards, then the root"""
    out = []
    x = e
    while True:
        while isinstance(x, tuple) and x and x[0] in ("var", "ref", "deref"):
            x = x[2] if x[0] == "var" else x[1]
        if isinstance(x, tuple) and x and x[0] == "cast":
            x = x[2]
            continue
        if isinstance(x, tuple) and x and x[0] == "call" and x[2]:
            out.append((shape.short_callee(x[1]), x))
            x = x[2][0]
            continue
        break
    return out, x
