"""Name- and layout-independent normal forms of small functions and closures.

`cases(F, path)` gives, for a body, the list of (conditions, value) pairs of its return value as
strings in which local names, line numbers and the spelling of `?`, overflow-checked arithmetic
and closure coercions do not appear.  Rules compare these with a short list of accepted forms:
any edit that changes what a small accessor computes changes its normal form, while renaming,
reformatting, reordering of commutative operands or moving the code does not.
"""
import os, re
from . import shape, panics
from .panics import _unwrap_var


def clean(e, depth=0):
    """tree rewrite: drop overflow-check tuples, closure coercions; name the `?` operator"""
    if not isinstance(e, tuple) or not e or depth > 80:
        return e
    k = e[0]
    if k == "var":
        return clean(e[2], depth + 1)
    if k == "field" and isinstance(e[1], tuple) and e[1] and e[1][0] == "bin" and str(e[1][1]).endswith("WithOverflow") and str(e[2]) == "0":
        b = e[1]
        return ("bin", b[1][:-len("WithOverflow")], clean(b[2], depth + 1), clean(b[3], depth + 1), b[4] if len(b) > 4 else None)
    if k == "cast" and "closure@" in str(e[1]):
        return clean(e[2], depth + 1)
    if k == "cast" and len(e) > 4 and e[4] in ("PointerCoercion(Unsize)", "Unsize") :
        return clean(e[2], depth + 1)
    if k == "field" and isinstance(e[1], tuple) and e[1] and e[1][0] == "downcast" and str(e[2]) == "0":
        d = e[1]
        inner = d[1]
        while isinstance(inner, tuple) and inner and inner[0] == "var":
            inner = inner[2]
        if d[2] == "Continue" and isinstance(inner, tuple) and inner[0] == "call" and (inner[1] or "").endswith("Try>::branch"):
            return ("call", "try", tuple(clean(a, depth + 1) for a in inner[2]), None, None)
    if k == "call":
        c = e[1] or ""
        if c.endswith("FromResidual<") or "FromResidual" in c and c.endswith("::from_residual"):
            a = e[2][0] if e[2] else None
            x = a
            while isinstance(x, tuple) and x and x[0] == "var":
                x = x[2]
            if isinstance(x, tuple) and x[0] == "field" and isinstance(x[1], tuple) and x[1][0] == "downcast" and x[1][2] == "Break":
                inner = x[1][1]
                while isinstance(inner, tuple) and inner and inner[0] == "var":
                    inner = inner[2]
                if isinstance(inner, tuple) and inner[0] == "call" and (inner[1] or "").endswith("Try>::branch"):
                    return ("call", "propagate", tuple(clean(a2, depth + 1) for a2 in inner[2]), None, None)
    if k == "call" and len(e[2]) == 1:
        m = re.search(r"<impl std::convert::From<(bool|char|u8|u16|u32|u64|i8|i16|i32|i64)> for (u8|u16|u32|u64|u128|usize|i8|i16|i32|i64|i128|isize)>::from$", e[1] or "")
        if m:      # u16::from(x) on primitives is the lossless cast `x as u16`
            return ("cast", m.group(2), clean(e[2][0], depth + 1), m.group(1), "IntToInt")
    if k == "call" and e[1] in ("std::cmp::min", "core::cmp::min", "std::cmp::max", "core::cmp::max"):
        e = (e[0], "std::cmp::Ord::" + e[1].rsplit("::", 1)[1]) + tuple(e[2:])     # cmp::min(a, b) is Ord::min(a, b)
    if k == "call" and len(e[2]) == 2 and shape.short_callee(e[1]) in OPERATOR_TRAITS and "::ops::" in (str(e[3]) if len(e) > 3 and e[3] else str(e[1])):
        return ("bin", OPERATOR_TRAITS[shape.short_callee(e[1])], clean(e[2][0], depth + 1), clean(e[2][1], depth + 1), None)
    if k == "call" and len(e[2]) == 2 and shape.short_callee(e[1]) in COMMUTATIVE:
        args = tuple(clean(a, depth + 1) for a in e[2])
        args = tuple(sorted(args, key=lambda a: shape.pp(a)))
        return (e[0], e[1], args) + tuple(e[3:])
    return tuple(clean(x, depth + 1) if isinstance(x, tuple) else x for x in e)


# operator-trait method calls (`&a + b` on references, or on user types) are rendered like the primitive operator
OPERATOR_TRAITS = {"add": "Add", "sub": "Sub", "mul": "Mul", "bitand": "BitAnd", "bitor": "BitOr", "bitxor": "BitXor", "shl": "Shl", "shr": "Shr"}

# two-argument std functions whose value does not depend on the order of their arguments
COMMUTATIVE = {"Ord::min", "Ord::max", "min", "max", "wrapping_add", "wrapping_mul", "saturating_add", "saturating_mul", "checked_add", "checked_mul", "add", "mul", "bitand", "bitor", "bitxor"}


def pp(e, arg_names=None):
    s = shape.pp(clean(e), arg_names)
    s = re.sub(r"\{closure@[^}]*\}", "{closure}", s)
    return s


def upvars_of(F, path):
    b = F.bodies.get(path)
    par = b.raw.get("parent") if b is not None else None
    if not par:
        return ()
    cs = shape.closure_site(F, par, path)
    return cs[1] if cs else ()


def canon_bool_atom(s, val):
    """(rendered boolean expression, truth value 0/1) in positive form: only `Eq` and `Lt` atoms remain
    (`a != b` is `not a == b`, `a <= b` is `not b < a`, `!x` is `not x`), so `if a != b {A} else {B}` and
    `if a == b {B} else {A}` give the same conditions.  `>`/`>=` are already turned into `<`/`<=` by shape.pp."""
    for _ in range(6):
        if s.startswith("Ne(") and s.endswith(")"):
            s, val = "Eq(" + s[3:], 1 - val
        elif s.startswith("Le(") and s.endswith(")"):
            parts = _split_top(s[3:-1])
            if len(parts) != 2:
                break
            s, val = "Lt(%s, %s)" % (parts[1], parts[0]), 1 - val
        elif s.startswith("Not(") and s.endswith(")") and len(_split_top(s[4:-1])) == 1:
            s, val = s[4:-1], 1 - val
        else:
            break
    return s, val


def _cond(ex, lo, hi, upvars, arg_names):
    ex = clean(shape.subst_upvars(ex, upvars))
    u = ex
    if isinstance(u, tuple) and u and u[0] == "discr":
        inner = u[1]
        if isinstance(inner, tuple) and inner[0] == "call" and (inner[1] or "").endswith("Try>::branch"):
            x = pp_x(inner[2][0], arg_names) if inner[2] else "?"
            return ("ok(%s)" if (lo, hi) == (0, 0) else "fail(%s)" if (lo, hi) == (1, 1) else "branch(%s) in [%s,%s]" % ("%s", lo, hi)) % x
    s = pp_x(ex, arg_names)
    if (lo, hi) in ((0, 0), (1, 1)) and s.startswith(("Ne(", "Le(", "Not(")):
        s, v = canon_bool_atom(s, lo)
        return "%s in [%s,%s]" % (s, v, v)
    return "%s in [%s,%s]" % (s, lo, hi)


def cases(F, path, depth=14, arg_names=None):
    """sorted [(tuple of condition strings, value string)] for every definition of the return place"""
    body = F.bodies.get(path)
    if body is None:
        return None
    up = upvars_of(F, path)
    out = []
    defs = []
    for bi, si, s in body.stmts():
        if s["k"] == "assign" and s["p"]["l"] == 0 and not s["p"]["proj"]:
            defs.append((bi, body.expr_of_rvalue(s["rv"], depth)))
    for bi, t in body.terms("call"):
        d = t.get("dest")
        if d and d["l"] == 0 and not d["proj"]:
            defs.append((bi, body.expr_of_call(t, depth, None)))
    for bi, e in defs:
        conds = sorted(set(_cond(ex, lo, hi, up, arg_names) for ex, lo, hi in panics.dominating_conditions(body, bi)))
        v = re.sub(r"\{closure@[^}]*\}", "{closure}", shape.pp(clean(shape.subst_upvars(e, up)), arg_names))
        out.append((tuple(conds), v))
    return sorted(out)


def render(cs):
    if cs is None:
        return "<missing>"
    return " ; ".join(("[%s] => %s" % (" & ".join(c), v)) if c else v for c, v in cs)


def _or_verified(F, path, ok, got):
    """a normal form that is not in the rule's accepted list passes when spec/equivalent_forms.json lists it (full form:
    return cases + effect skeleton) as a hand-verified equivalent spelling of this function"""
    if ok:
        return ok, got
    e = is_verified_equivalent(F, path)
    if e:
        return True, "%s  [verified-equivalent spelling %s: %s]" % (got[:200], e.get("hash"), e.get("why", ""))
    return ok, got


def expect(ck, F, rule, key, path, accepted, what, file="src/asm.rs"):
    """obligation: the normal form of `path` is one of `accepted` (strings as produced by render)"""
    b = F.bodies.get(path)
    if not ck.anchor(rule, path, b):
        return False
    got = render(cases(F, path))
    ok = got in accepted
    ok, got = _or_verified(F, path, ok, got)
    ck.ob(rule, key, ok, "%s; normal form: %s%s" % (what, got, "" if ok else "  (accepted: %s)" % " | ".join(accepted)), "%s:%s" % (file, b.line))
    return ok


def chain(body, e):
    """iterator/method chain through argument 0: [(short callee, call expr)] from the outermost call inwards, then the root"""
    out = []
    x = e
    while True:
        while isinstance(x, tuple) and x and x[0] in ("var", "ref", "deref"):
            x = x[2] if x[0] == "var" else x[1]
        if isinstance(x, tuple) and x and x[0] == "cast":
            x = x[2]
            continue
        if isinstance(x, tuple) and x and x[0] == "call" and x[2]:
            out.append((shape.short_callee(x[1]), x))
            x = x[2][0]
            continue
        break
    return out, x


# ---------------------------------------------------------------------------------------------
# position-aware expression trees: multiply-assigned locals are resolved by reaching definitions
# (a single reaching definition = sequential update, several = phi with their branch conditions)
from . import mir as _mir


def _idx(si):
    return 10 ** 6 if si == "term" else si


def _reaching(body, l, pos):
    """definitions (block, stmt index | 'term', rvalue-or-call) of whole local `l` that reach `pos`=(block, index)"""
    defs = body.defs().get(l, [])
    by_block = {}
    for d in defs:
        by_block.setdefault(d[0], []).append(d)
    bi, si = pos
    lim = 10 ** 6 + 1 if si == "end" else _idx(si)
    here = [d for d in by_block.get(bi, []) if _idx(d[1]) < lim]
    if here:
        return [max(here, key=lambda d: _idx(d[1]))]
    preds = body.preds()
    seen = set()
    out = []
    st = list(preds[bi])
    while st:
        x = st.pop()
        if x in seen:
            continue
        seen.add(x)
        if x in by_block:
            out.append(max(by_block[x], key=lambda d: _idx(d[1])))
            continue
        st.extend(preds[x])
    return sorted(out, key=lambda d: (d[0], _idx(d[1])))


def _reach_avoiding(b, src, dst, kill):
    """path src -> dst along normal edges that does not enter block `kill` (unless src is in it)"""
    if src == dst:
        return True
    seen = {src}
    st = [src]
    while st:
        x = st.pop()
        for y in b.succs(x):
            if y == dst:
                return True
            if y in seen or y == kill:
                continue
            seen.add(y)
            st.append(y)
    return False


FACTS = None          # set by lib.context.Context when the facts of the tree under analysis are loaded
_BASELINE = None
_INLINING = []


def _baseline():
    global _BASELINE
    if _BASELINE is None:
        p = os.path.join(os.path.dirname(os.path.dirname(os.path.dirname(os.path.abspath(__file__)))), "spec", "baseline_fns.txt")
        with open(p) as fh:
            _BASELINE = set(l.rstrip("\n") for l in fh if l.strip() and not l.startswith("#"))
    return _BASELINE


def _subst_args(e, args):
    if isinstance(e, tuple):
        if len(e) == 4 and e[0] == "arg" and isinstance(e[1], int):
            return args[e[1] - 1] if 0 < e[1] <= len(args) else e
        return tuple(_subst_args(x, args) for x in e)
    return e


def _has_kind(e, kinds):
    if isinstance(e, tuple):
        if e and e[0] in kinds:
            return True
        return any(_has_kind(x, kinds) for x in e)
    return False


def _inline_new_helper(callee, args, depth):
    """'extract function' refactors: a crate function that did not exist at the pinned commit (spec/baseline_fns.txt)
    and whose body is one unconditional expression of its parameters is replaced by that expression at its call sites.
    Anything else (several return cases, loops, locals that do not resolve) stays a call by its (unknown) name."""
    F = FACTS
    if F is None or not callee or depth <= 0 or "{closure" in callee or callee in _INLINING or len(_INLINING) > 3:
        return None
    body = F.bodies.get(callee) if callee in F.bodies else None
    if body is None or callee in _baseline():
        return None
    _INLINING.append(callee)
    try:
        xb = XB(body)
        defs = []
        for bi, si, s in body.stmts():
            if s["k"] == "assign" and s["p"]["l"] == 0 and not s["p"]["proj"]:
                defs.append((bi, xb.expr_of_rvalue(s["rv"], depth - 1, (bi, si))))
        for bi, t in body.terms("call"):
            d = t.get("dest")
            if d and d["l"] == 0 and not d["proj"]:
                defs.append((bi, xb.expr_of_call(t, depth - 1, None, (bi, "term"))))
        if len(defs) != 1 or panics.dominating_conditions(body, defs[0][0]):
            return None
        e = defs[0][1]
        if _has_kind(e, ("phi", "local", "other")):
            return None
        return _subst_args(e, args)
    finally:
        _INLINING.pop()


class XB:
    """a view of a mir.Body whose expression trees are built relative to a program position"""

    def __init__(self, body, arg_names=None):
        self.b = body
        self.arg_names = arg_names
        self._stack = []

    def local_name(self, l):
        return self.b.local_name(l)

    def local_ty(self, l):
        return self.b.local_ty(l)

    def is_arg(self, l):
        return self.b.is_arg(l)

    def defs(self):
        return self.b.defs()

    def expr_of_operand(self, op, depth=12, at=None):
        return _mir.Body.expr_of_operand(self, op, depth, at)

    def expr_of_place(self, p, depth=12, at=None):
        return _mir.Body.expr_of_place(self, p, depth, at)

    def expr_of_rvalue(self, rv, depth=12, at=None):
        return _mir.Body.expr_of_rvalue(self, rv, depth, at)

    def expr_of_call(self, t, depth, dty=None, at=None):
        f = t["func"]
        if f["k"] == "const" and "fn" in f:
            callee = (f.get("resolved") or {}).get("path") or f["fn"]
            raw = f["fn"]
        else:
            callee = raw = None
        args = tuple(self.expr_of_operand(a, depth, at) for a in t.get("args", []))
        sub = _inline_new_helper(callee, args, depth)
        if sub is not None:
            return sub
        return ("call", callee, args, raw, dty)

    def expr_of_local(self, l, depth=12, at=None):
        b = self.b
        name, ty = b.local_name(l), b.local_ty(l)
        ds = b.defs().get(l, [])
        partial = b.defs().get(("partial", l), [])
        if b.is_arg(l) and not ds and not partial:
            return ("arg", l, name, ty)
        if depth <= 0 or at is None or (l, at) in self._stack:
            return ("local", l, name, ty)
        rd = _reaching(b, l, at)
        if partial:
            return self._with_partials(l, rd, partial, depth, at)
        if b.is_arg(l) and (not rd or self._entry_reaches(l, at)):
            return ("local", l, name, ty)
        if not rd:
            return ("local", l, name, ty)
        self._stack.append((l, at))
        try:
            vals = []
            for (bi, si, rv) in rd:
                if si == "term":
                    v = self.expr_of_call(rv, depth - 1, ty, (bi, si))
                else:
                    v = self.expr_of_rvalue(rv, depth - 1, (bi, si))
                vals.append((bi, v))
        finally:
            self._stack.pop()
        if len(vals) == 1:
            return vals[0][1]
        alts = []
        for bi, v in vals:
            conds = tuple(sorted(set(_cond(ex, lo, hi, (), self.arg_names) for ex, lo, hi in panics.dominating_conditions(b, bi))))
            alts.append((conds, v))
        common = set(alts[0][0])
        for c, _ in alts[1:]:
            common &= set(c)
        alts = tuple(sorted((tuple(x for x in c if x not in common), pp_x(v, self.arg_names)) for c, v in alts))
        return ("phi", alts)

    def _with_partials(self, l, rd, partial, depth, at):
        """a local that is also written field by field: base value (single reaching whole definition, or the
        parameter's entry value) with the field stores that lie between it and `at` applied in order;
        stores that only may have happened are marked `maybe`"""
        b = self.b
        name, ty = b.local_name(l), b.local_ty(l)
        if len(rd) > 1:
            return ("local", l, name, ty)
        if rd:
            bi, si, rv = rd[0]
            self._stack.append((l, at))
            try:
                base = self.expr_of_call(rv, depth - 1, ty, (bi, si)) if si == "term" else self.expr_of_rvalue(rv, depth - 1, (bi, si))
            finally:
                self._stack.pop()
            start = (bi, _idx(si))
        elif b.is_arg(l):
            base = ("arg", l, name, ty)
            start = (0, -1)
        else:
            base = ("uninit", l)
            start = (0, -1)
        ups = []
        for (pb, ps, st) in partial:
            ppos = (pb, _idx(ps))
            after_base = (pb == start[0] and ppos[1] > start[1]) or (pb != start[0] and b.dominates(start[0], pb))
            if not after_base:
                continue
            # the store must reach the use without passing the base definition again (loop-carried stores are killed by it)
            before_use = (pb == at[0] and ppos[1] < _idx(at[1])) or (pb != at[0] and start[0] != at[0] and _reach_avoiding(b, pb, at[0], start[0]))
            if not before_use:
                continue
            definite = pb == at[0] or b.dominates(pb, at[0])
            place = st["p"] if "p" in st else st.get("dest")
            fld = [e for e in (place or {}).get("proj", []) if isinstance(e, dict) and "f" in e]
            fname = ".".join(str(e.get("name", e["f"])) for e in fld) or "?"
            if st.get("k") == "assign":
                self._stack.append((l, at))
                try:
                    val = self.expr_of_rvalue(st["rv"], depth - 1, (pb, ps))
                finally:
                    self._stack.pop()
            elif st.get("k") == "call":
                val = self.expr_of_call(st, depth - 1, None, (pb, ps))
            else:
                val = ("other", st.get("k"))
            ups.append((ppos, fname, val, definite))
        e = base
        for ppos, fname, val, definite in sorted(ups, key=lambda u: u[0]):
            e = ("call", ("with_" if definite else "maybe_with_") + fname, (e, val), None, None)
        return e

    def _entry_reaches(self, l, at):
        """can the entry value of parameter l reach `at` without passing a redefinition?"""
        b = self.b
        defblocks = set(d[0] for d in b.defs().get(l, []))
        if at[0] in defblocks and any(_idx(d[1]) < _idx(at[1]) for d in b.defs().get(l, []) if d[0] == at[0]):
            return False
        return b.can_reach(0, at[0], avoid=tuple(defblocks - {at[0], 0})) or at[0] == 0


def _pp_phi(e, arg_names=None):
    return "phi{%s}" % " | ".join("%s => %s" % (" & ".join(c) or "else", v) for c, v in e[1])


def pp_x(e, arg_names=None):
    """pp over trees that may contain phi nodes"""
    def prep(x):
        if isinstance(x, tuple) and x:
            if x[0] == "phi":
                return ("const", _pp_phi(x, arg_names), "phi")
            if x[0] == "str" and len(x) == 2:
                return ("const", "str" + repr(x[1]), "str")
            if x[0] == "call" and len(x) >= 5 and x[4] and (x[1] or "").endswith("<impl str>::parse"):
                m = re.search(r"Result<([^,<>]+),", str(x[4]))
                if m:           # str::parse::<T>: the target type is part of what is computed
                    return ("call", "parse_" + m.group(1).split("::")[-1], tuple(prep(a) for a in x[2]), None, None)
            if x[0] == "call" and (x[1] or "").endswith("::from_str_radix"):
                m = re.search(r"<impl (\w+)>::from_str_radix$", x[1] or "")
                if m:           # the integer type parsed is part of what is computed
                    return ("call", m.group(1) + "_from_str_radix", tuple(prep(a) for a in x[2]), None, None)
            if x[0] == "call" and len(x) >= 5 and x[4] and shape.short_callee(x[1]) in ("try_from", "try_into") and len(x[2]) == 1:
                m = re.match(r"^std::result::Result<([iu](?:8|16|32|64|128|size)),", str(x[4]))
                if m:           # integer conversions: the target type decides which values fail
                    return ("call", "try_into_" + m.group(1), tuple(prep(a) for a in x[2]), None, None)
            if x[0] == "cindex" and len(x) == 4:
                return ("const", "%s[%s%s]" % (pp_x(x[1], arg_names), "-" if x[3] else "", x[2]), "cindex")
            if x[0] == "fnitem" and len(x) == 2:
                return ("const", "fn:" + shape.short_callee(x[1]), "fnitem")
            if x[0] == "constx" and len(x) == 3:
                return ("const", str(x[1]), "constx")
            if x[0] == "proj" and len(x) == 3:
                m = re.match(r"^\{'sub_from': (\d+), 'sub_to': (\d+), 'from_end': (True|False)\}$", str(x[2]))
                sfx = ("[%s..%s%s]" % (m.group(1), "-" if m.group(3) == "True" else "", m.group(2))) if m else str(x[2])
                return ("const", "%s%s" % (pp_x(x[1], arg_names), sfx), "proj")
            return tuple(prep(y) if isinstance(y, tuple) else y for y in x)
        return x
    return re.sub(r"\{closure@[^}]*\}", "{closure}", shape.pp(clean(prep(e)), arg_names))


def cases_x(F, path, depth=40, arg_names=None):
    """like cases(), with multiply-assigned locals resolved (sequential updates / phi)"""
    body = F.bodies.get(path)
    if body is None:
        return None
    up = upvars_of(F, path)
    xb = XB(body, arg_names)
    out = []
    for bi, si, s in body.stmts():
        if s["k"] == "assign" and s["p"]["l"] == 0 and not s["p"]["proj"]:
            e = xb.expr_of_rvalue(s["rv"], depth, (bi, si))
            out.append((bi, e))
    for bi, t in body.terms("call"):
        d = t.get("dest")
        if d and d["l"] == 0 and not d["proj"]:
            out.append((bi, xb.expr_of_call(t, depth, None, (bi, "term"))))
    res = []
    for bi, e in out:
        conds = sorted(set(_cond(ex, lo, hi, up, arg_names) for ex, lo, hi in panics.dominating_conditions(body, bi)))
        res.append((tuple(conds), pp_x(shape.subst_upvars(e, up), arg_names)))
    return sorted(res)


def arg_x(body, term, i, block, depth=12):
    """position-aware normal form of argument i of a call terminator in `block`"""
    return pp_x(XB(body).expr_of_operand(term["args"][i], depth, (block, "term")))


def expect_x(ck, F, rule, key, path, accepted, what, file="src/asm.rs"):
    b = F.bodies.get(path)
    if not ck.anchor(rule, path, b):
        return False
    got = render(cases_x(F, path))
    ok = got in accepted
    ok, got = _or_verified(F, path, ok, got)
    ck.ob(rule, key, ok, "%s; normal form: %s%s" % (what, got, "" if ok else "  (accepted: %s)" % " | ".join(accepted)), "%s:%s" % (file, b.line))
    return ok


# ---------------------------------------------------------------------------------------------
def deep(F, path, x=True, depth=0):
    """normal form of a body with the normal forms of the closures it mentions inlined (closure numbering disappears)"""
    cs = (cases_x if x else cases)(F, path)
    if cs is None:
        return "<missing %s>" % path
    s = render(cs)
    if depth > 4:
        return s

    def sub(m):
        child = "%s::{closure#%s}" % (path, m.group(1))
        if child not in F.bodies:
            return m.group(0)
        return "\u03bb[" + deep(F, child, x, depth + 1) + "]"
    return re.sub(r"\{closure#(\d+)\}", sub, s)


def inline_closures(F, path, s, x=True):
    """replace `{closure#k}` in a rendering made inside body `path` by the deep normal form of that closure"""
    def sub(m):
        child = "%s::{closure#%s}" % (path, m.group(1))
        if child not in F.bodies:
            return m.group(0)
        return "\u03bb[" + deep(F, child, x, 1) + "]"
    return re.sub(r"\{closure#(\d+)\}", sub, s)


def anon_locals(s):
    """`local17` -> `local`: the numbering of MIR locals changes with unrelated edits of the same function"""
    return re.sub(r"local\d+", "local", s)


def _split_top(s):
    """split `a, b(c, d), e` at top-level commas"""
    out, depth, cur = [], 0, []
    for ch in s:
        if ch in "([{":
            depth += 1
        elif ch in ")]}":
            depth -= 1
        if ch == "," and depth == 0:
            out.append("".join(cur).strip())
            cur = []
        else:
            cur.append(ch)
    out.append("".join(cur).strip())
    return out


def canon_option_map(s):
    """`Option::map(X, λ[E(arg2)]())` (capture-free closure) is the same function as `let v = X?; Some(E(v))`:
    both spellings are rendered as the latter"""
    pre = "Option::map("
    if not (s.startswith(pre) and s.endswith(")")) or " ; " in s:
        return s
    parts = _split_top(s[len(pre):-1])
    if len(parts) != 2 or not (parts[1].startswith("λ[") and parts[1].endswith("]()")):
        return s
    x, body = parts[0], parts[1][2:-3]
    if " => " in body or "arg1" in body:
        return s
    val = re.sub(r"\barg2\b", lambda m: "try(%s)" % x, body)
    return "[fail(%s)] => propagate(%s) ; [ok(%s)] => Option::Some(%s)" % (x, x, x, val)


def expect_deep(ck, F, rule, key, path, accepted, what, file="src/asm.rs", abbr=(), norm=None):
    b = F.bodies.get(path)
    if not ck.anchor(rule, path, b):
        return False
    got = canon_option_map(deep(F, path))
    accepted = [canon_option_map(a) for a in accepted]
    for a, r in abbr:
        got = got.replace(a, r)
    if norm is not None:
        got = norm(got)
        accepted = [norm(a) for a in accepted]
    ok = got in accepted
    ok, got = _or_verified(F, path, ok, got)
    ck.ob(rule, key, ok, "%s; normal form: %s%s" % (what, got, "" if ok else "  (accepted: %s)" % " | ".join(accepted)), "%s:%s" % (file, b.line))
    return ok


# ---------------------------------------------------------------------------------------------
def resolve_labels(pc):
    """{discriminant: ('is', value) | ('not', frozenset of excluded values)} for one path of path_conditions(else_sets=True),
    or None when the path is infeasible (one discriminant required to have two values, or a value it was excluded from)"""
    out = {}
    for d, l in pc:
        cur = out.get(d)
        if l.startswith("!{"):
            ex = frozenset(x for x in l[2:-1].split(",") if x)
            if cur is None:
                out[d] = ("not", ex)
            elif cur[0] == "not":
                out[d] = ("not", cur[1] | ex)
            elif cur[1] in ex:
                return None
        else:
            if cur is None:
                out[d] = ("is", l)
            elif cur[0] == "is":
                if cur[1] != l:
                    return None
            else:
                if l in cur[1]:
                    return None
                out[d] = ("is", l)
    return out


def path_conditions(body, target, want, limit=4000, track_consts=False, else_sets=False):
    """Decision combinations under which `target` is reached: all acyclic paths from the entry are walked;
    at every switch whose (position-aware) discriminant rendering satisfies want(str) the taken edge label is
    recorded.  Returns a set of frozensets {(discriminant, label)}; None if the path limit is exceeded.
    Blocks shared by several match arms (or-patterns) are handled, which dominating-edge analysis cannot.
    With track_consts, locals assigned a constant on the path (the bool of a `matches!`) decide later
    switches on that local, so infeasible combinations are not reported."""
    xb = XB(body)
    dcache = {}

    def discr(bi):
        if bi not in dcache:
            t = body.blocks[bi]["term"]
            s = None
            if t["k"] == "switch":
                s = pp_x(xb.expr_of_operand(t["discr"], 12, (bi, "term")))
                if not want(s) and not (s.startswith(("Ne(", "Le(", "Not(")) and want(canon_bool_atom(s, 0)[0])):
                    s = None
            dcache[bi] = s
        return dcache[bi]
    can = set()
    preds = body.preds()
    st = [target]
    while st:
        x = st.pop()
        if x in can:
            continue
        can.add(x)
        st.extend(preds[x])
    count = [0]
    memo = {}

    def consts_of(bi):
        out = {}
        for s in body.blocks[bi]["stmts"]:
            if s["k"] == "assign" and not s["p"]["proj"]:
                rv = s["rv"]
                if rv["k"] == "use" and rv["op"].get("k") == "const" and "val" in rv["op"]:
                    out[s["p"]["l"]] = rv["op"]["val"]
                else:
                    out[s["p"]["l"]] = None
        return out

    def edges_of(bi, env):
        t = body.blocks[bi]["term"]
        if t["k"] == "switch":
            edges = [(str(v), tb) for v, tb in t["values"]] + [("!{%s}" % ",".join(sorted(str(v) for v, _ in t["values"])) if else_sets else "else", t["otherwise"])]
            if len(edges) == 2 and edges[1][0].startswith(("else", "!{")) and t.get("discr_ty") == "bool":
                edges = [edges[0], ("1" if edges[0][0] == "0" else "0", edges[1][1])]
            d = t["discr"]
            if env is not None and d.get("k") in ("copy", "move") and not d["p"]["proj"] and env.get(d["p"]["l"]) is not None and not isinstance(env.get(d["p"]["l"]), tuple):
                v = str(env[d["p"]["l"]])
                taken = [e for e in edges if e[0] == v] or [e for e in edges if e[0].startswith(("else", "!{"))]
                # decided by a constant assigned on this path: no new information, no atom
                return [(None, tb) for _, tb in taken[:1]]
            return edges
        return [(None, s2) for s2 in body.succs(bi)]

    def walk(bi, onpath, env):
        if bi == target:
            return {frozenset()}
        if env is None and bi in memo:
            return memo[bi]
        if env is not None:
            env = dict(env)
            for st_ in body.blocks[bi]["stmts"]:
                if st_["k"] == "assign" and not st_["p"]["proj"]:
                    rv = st_["rv"]
                    val = None
                    if rv["k"] == "use" and rv["op"].get("k") == "const" and "val" in rv["op"]:
                        val = rv["op"]["val"]
                    elif rv["k"] == "use" and rv["op"].get("k") in ("copy", "move") and not rv["op"]["p"]["proj"]:
                        val = env.get(rv["op"]["p"]["l"])       # a copy of a local whose constant value is known on this path
                    elif rv["k"] == "un" and rv.get("op") == "Not" and rv["x"].get("k") in ("copy", "move") and not rv["x"]["p"]["proj"]:
                        v0 = env.get(rv["x"]["p"]["l"])
                        if v0 in (0, 1, True, False):
                            val = 1 - int(v0)
                    env[st_["p"]["l"]] = val
            # a bool temporary that joins a constant with a computed value (`match a && b`): on this path its value is the
            # value computed here, so a later switch on it is a decision on that expression, like `if a && b`
            t_ = body.blocks[bi]["term"]
            if t_["k"] == "call" and t_.get("dest") and not t_["dest"]["proj"] and body.local_ty(t_["dest"]["l"]) == "bool":
                env[t_["dest"]["l"]] = ("x", pp_x(xb.expr_of_call(t_, 12, None, (bi, "term"))))
        res = set()
        d = discr(bi)
        tsw = body.blocks[bi]["term"]
        if env is not None and tsw["k"] == "switch" and tsw["discr"].get("k") in ("copy", "move") and not tsw["discr"]["p"]["proj"]:
            ev = env.get(tsw["discr"]["p"]["l"])
            if isinstance(ev, tuple) and ev[0] == "x" and (want(ev[1]) or d is not None):
                d = ev[1]
        for lab, nb in edges_of(bi, env):
            if nb not in can or nb in onpath:
                continue
            count[0] += 1
            if count[0] > limit:
                raise OverflowError
            dl = (d, lab)
            if d is not None and lab in ("0", "1") and d.startswith(("Ne(", "Le(", "Not(")):
                cs, cv = canon_bool_atom(d, int(lab))
                dl = (cs, str(cv))
            for tail in walk(nb, onpath | {nb}, env):
                res.add(tail | {dl} if d is not None and lab is not None else tail)
        if env is None:
            memo[bi] = res
        return res
    try:
        return walk(0, frozenset([0]), {} if track_consts else None)
    except OverflowError:
        return None


# ---------------------------------------------------------------------------------------------
# Effect skeleton + table of hand-verified equivalent spellings
SK_DEPTH = int(os.environ.get('VERIF_SK_DEPTH', '20'))
SKELETON_TRIVIAL = {"deref", "deref_mut", "borrow", "borrow_mut", "as_ref", "as_mut", "into_iter", "branch", "from_residual",
                    "from_output", "clone", "iter", "iter_mut", "as_str", "as_slice", "new_const", "new_v1", "none",
                    "Arguments::new_const", "Arguments::new_v1", "Argument::new_display", "Argument::new_debug"}


def _loop_headers(body):
    """{header block: set of blocks of the natural loop} (back edge u->h with h dominating u)"""
    dom = body.dominators()
    preds = body.preds()
    loops = {}
    for u in dom:
        for h in body.succs(u):
            if h in dom.get(u, ()):         # back edge
                blk = loops.setdefault(h, {h})
                st = [u]
                while st:
                    x = st.pop()
                    if x in blk:
                        continue
                    blk.add(x)
                    st.extend(p for p in preds[x] if p in dom)
    return loops


def _rpo(body):
    seen, order = set(), []

    def dfs(b):
        st = [(b, iter(body.succs(b)))]
        seen.add(b)
        while st:
            x, it = st[-1]
            nxt = next(it, None)
            if nxt is None:
                order.append(x)
                st.pop()
            elif nxt not in seen:
                seen.add(nxt)
                st.append((nxt, iter(body.succs(nxt))))
    dfs(0)
    return list(reversed(order))


def _edge_universe(body):
    """{rendered discriminant: set of edge labels} for the label universe of each switch"""
    return None


def reduce_dnf(terms, uni):
    """absorption and merging (X&(D=l1) | X&(D=l2) | .. over every label of D = X) of a set of frozensets of
    (discriminant, label), in a deterministic order; `uni` = {discriminant: set of all its edge labels}"""
    terms = set(terms)
    changed = True
    while changed:
        changed = False
        # absorption: X | X&Y = X
        for a in list(terms):
            if any(b < a for b in terms):
                terms.discard(a)
                changed = True
        # merging: X&(D=l1) | X&(D=l2) | ... covering every label of D  =  X
        byrest = {}
        key = lambda t: sorted(t)
        for t in sorted(terms, key=key):                     # deterministic order: the reduction is not confluent
            for (d, l) in sorted(t):
                byrest.setdefault((t - {(d, l)}, d), set()).add(l)
        for (rest, d), labs in sorted(byrest.items(), key=lambda kv: (sorted(kv[0][0]), kv[0][1])):
            is_vals = set(l for l in labs if not l.startswith("!{"))
            nots = [set(x for x in l[2:-1].split(",") if x) for l in labs if l.startswith("!{")]
            if len(labs) > 1 and (labs >= uni.get(d, {"?"}) or any(n <= is_vals for n in nots)):
                for l in labs:
                    terms.discard(rest | {(d, l)})
                terms.add(rest)
                changed = True
                break
    return terms


def complete_conds(body, bi, limit=3000):
    """The condition under which block `bi` is entered, as a reduced DNF over ALL switch decisions on the acyclic paths
    from the entry (not only the dominating ones, so `a || b`, or-patterns and `!= k` edges are not lost).  Rendered as
    `c1 & c2 | c3`; `~dom:` prefix when the path limit is exceeded and only dominating conditions could be used."""
    uni = {}
    xb = XB(body)
    for b2, t in body.terms("switch"):
        d = pp_x(xb.expr_of_operand(t["discr"], 12, (b2, "term")))
        labs = set(str(v) for v, _ in t["values"]) | {"!{%s}" % ",".join(sorted(str(v) for v, _ in t["values"]))}
        if len(labs) == 2 and t.get("discr_ty") == "bool":
            labs = {"0", "1"}
        if d.startswith(("Ne(", "Le(", "Not(")):
            d = canon_bool_atom(d, 0)[0]
        uni.setdefault(d, set()).update(labs)
    pcs = path_conditions(body, bi, lambda x: True, limit=limit, track_consts=True, else_sets=True)
    if pcs is None:
        return "~dom:" + " & ".join(sorted(set(_cond(ex, lo, hi, (), None) for ex, lo, hi in panics.dominating_conditions(body, bi))))
    terms = set(frozenset(pc) for pc in pcs)
    # drop infeasible conjunctions (one discriminant with two values, or with a value it is excluded from);
    # several decisions on one discriminant are folded into one
    folded = set()
    for t in terms:
        r = resolve_labels(t)
        if r is not None:
            folded.add(frozenset((d, v[1] if v[0] == "is" else "!{%s}" % ",".join(sorted(v[1]))) for d, v in r.items()))
    terms = folded
    terms = reduce_dnf(terms, uni)
    def atom(d, l):
        if l.startswith("!{"):
            return "%s!in%s" % (d, l[1:])
        return "%s=%s" % (d, l)
    return " | ".join(sorted(" & ".join(atom(d, l) for d, l in sorted(t)) for t in terms))


def skeleton(F, path, depth=0):
    """Every call and every store through a pointer of a body, in reverse post-order, with the conditions that
    dominate it and its loop nesting (`@` per enclosing loop); closures inlined.  Together with the return cases this
    pins what a function with loops or side effects does, without local names, numbering or layout."""
    b = F.bodies.get(path)
    if b is None:
        return "<missing %s>" % path
    xb = XB(b)
    up = upvars_of(F, path)
    loops = _loop_headers(b)
    out = []
    for bi in _rpo(b):
        blk = b.blocks[bi]
        nest = "@" * sum(1 for h, s in loops.items() if bi in s)
        conds = None

        def cs():
            return complete_conds(b, bi)
        for si, s in enumerate(blk["stmts"]):
            if s["k"] == "assign" and s["p"]["l"] == 0 and not s["p"]["proj"]:
                if conds is None:
                    conds = cs()
                out.append((bi, "%s[%s] ret := %s" % (nest, conds, pp_x(shape.subst_upvars(xb.expr_of_rvalue(s["rv"], SK_DEPTH + 2, (bi, si)), up)))))
            elif s["k"] == "assign" and s["p"]["proj"] and (s["p"]["proj"][0] == "deref" or b.is_arg(s["p"]["l"])):
                if conds is None:
                    conds = cs()
                out.append((bi, "%s[%s] %s := %s" % (nest, conds, pp_x(shape.subst_upvars(xb.expr_of_place(s["p"], SK_DEPTH, (bi, si)), up)), pp_x(shape.subst_upvars(xb.expr_of_rvalue(s["rv"], SK_DEPTH + 2, (bi, si)), up)))))
        t = blk["term"]
        if t["k"] == "call":
            f = t["func"]
            callee = ((f.get("resolved") or {}).get("path") or f.get("fn")) if f.get("k") == "const" else None
            name = shape.short_callee(callee) if callee else "<indirect>"
            if name in SKELETON_TRIVIAL or name.rsplit("::", 1)[-1] in SKELETON_TRIVIAL:
                continue
            if conds is None:
                conds = cs()
            args = ", ".join(pp_x(shape.subst_upvars(xb.expr_of_operand(a, SK_DEPTH, (bi, "term")), up)) for a in t.get("args", []))
            dst = t.get("dest")
            out.append((bi, "%s[%s] %s%s(%s)" % (nest, conds, "ret := " if dst and dst["l"] == 0 and not dst["proj"] else "", name, args)))
    # canonical order: entries on one path keep their order (rank = longest chain of entries before it, back edges
    # ignored); entries of alternative branches, whose layout order is arbitrary, are ordered by text
    order = _rpo(b)
    posn = {x: i for i, x in enumerate(order)}
    per = {}
    for bi, txt in out:
        per.setdefault(bi, []).append(txt)
    rank = {}
    preds = b.preds()
    for x in order:
        rank[x] = max([rank[p] + len(per.get(p, [])) for p in preds[x] if p in rank and posn.get(p, 1 << 30) < posn[x]] or [0])
    ranked = []
    for bi, txts in per.items():
        for i, txt in enumerate(txts):
            ranked.append((rank.get(bi, 0) + i, txt))
    # entries that do the same thing at the same depth under different conditions (separate match arms vs one
    # or-pattern arm) are one entry under the disjunction of the conditions
    merged = {}
    for rk, txt in ranked:
        m = re.match(r"(@*)\[(.*?)\] (.*)$", txt, re.S)
        if not m:
            merged.setdefault((rk, txt, ""), set())
            continue
        merged.setdefault((rk, m.group(1), m.group(3)), set()).update(x for x in m.group(2).split(" | "))
    flat = []
    for key, conds in merged.items():
        if len(key) == 3 and key[2] == "" and not conds:
            flat.append((key[0], key[1]))
        else:
            rk, nest, rest = key
            flat.append((rk, "%s[%s] %s" % (nest, " | ".join(sorted(conds)), rest)))
    s = " ;; ".join(x for _, x in sorted(flat))
    if depth > 3:
        return anon_locals(s)

    def sub(m):
        child = "%s::{closure#%s}" % (path, m.group(1))
        if child not in F.bodies:
            return m.group(0)
        return "λ[" + deep(F, child, True, depth + 1) + " || " + skeleton(F, child, depth + 1) + "]"
    return anon_locals(re.sub(r"\{closure#(\d+)\}", sub, s))


_ALT = None


def _alt_table():
    global _ALT
    if _ALT is None:
        import json
        p = os.path.join(os.path.dirname(os.path.dirname(os.path.dirname(os.path.abspath(__file__)))), "spec", "equivalent_forms.json")
        try:
            with open(p) as fh:
                _ALT = json.load(fh)
        except FileNotFoundError:
            _ALT = {}
    return _ALT


def full_form(F, path):
    """return cases (closures inlined) + effect skeleton: the complete normal form used for the table of equivalent spellings"""
    return skeleton(F, path)


def form_hash(s):
    import hashlib
    return hashlib.sha256(s.encode()).hexdigest()[:20]


def is_verified_equivalent(F, path):
    """spec/equivalent_forms.json lists, per function, normal forms (by hash, with the reason) that were read and
    confirmed to compute the same function with the same effects as the form at the pinned commit"""
    ent = _alt_table().get(path) or []
    if not ent:
        return None
    h = form_hash(full_form(F, path))
    for e in ent:
        if e.get("hash") == h:
            return e
    return None
