"""R3: panic-capable site inventory and discharge (D-TYPE / D-GUARD automatic; D-TABLE explicit).

A *site* is an `Assert` terminator (overflow, bounds, division), a call to a panicking entry
of core/std (`panic_fmt`, `unwrap_failed` ...), or a call to a std function that can panic
depending on its arguments or receiver (curated table below, cross-checked against the
`# Panics` sections of the installed rust-src by tools/gen_panicky.py).
"""
import json, os, re
from .mir import INT_RANGES, strip_generics, short

VERIF = os.path.dirname(os.path.dirname(os.path.dirname(os.path.abspath(__file__))))

# ---- curated classification of non-local callees (matched on the generic-stripped path) ----
PANIC_ENTRY = [
    r"^core::panicking::", r"^std::rt::panic_fmt$", r"^std::rt::begin_panic", r"^std::panicking::",
    r"^core::option::(unwrap_failed|expect_failed)$", r"^core::result::unwrap_failed$",
    r"^core::slice::index::slice_", r"^core::str::slice_error_fail", r"^std::process::(abort|exit)$",
    r"^core::cell::panic_already", r"^std::alloc::handle_alloc_error$",
]
PANICKY = [
    r"::Option::(unwrap|expect)$", r"::Result::(unwrap|expect|unwrap_err|expect_err)$",
    # indexing
    r"as std::ops::Index(Mut)?(<.*>)?>::index(_mut)?$",
    r"impl std::ops::Index(Mut)?<I> for (\[T\]|str|\[T; N\])>::index(_mut)?$",
    # slices / strings / collections with documented argument-dependent panics
    r"<impl \[T\]>::(copy_from_slice|clone_from_slice|split_at|split_at_mut|windows|chunks|chunks_mut|chunks_exact|chunks_exact_mut|rchunks|swap|rotate_left|rotate_right|copy_within|select_nth_unstable|split_first_chunk_unchecked)$",
    r"<impl str>::(split_at|split_at_mut)$",
    r"::Vec::(insert|remove|swap_remove|drain|split_off|splice|extend_from_within)$",
    r"::VecDeque::(insert|swap|range|range_mut|drain|split_off|rotate_left|rotate_right)$",
    r"::String::(insert|insert_str|remove|drain|split_off|replace_range|truncate)$",
    r"::BTreeMap::(range|range_mut)$", r"::BTreeSet::range$",
    r"<impl (u8|u16|u32|u64|u128|usize|i8|i16|i32|i64|i128|isize)>::(from_str_radix|pow|ilog|ilog2|ilog10|div_euclid|rem_euclid|abs|next_power_of_two|next_multiple_of|div_ceil|isqrt|strict_\w+|unchecked_\w+)$",
    r"<impl char>::(from_digit|to_digit|is_digit)$",
    r"::Ord::clamp$", r"impl std::cmp::Ord for \w+>::clamp$", r"::clamp$",
    r"::Iterator::(step_by|sum|product)$",
    r"::RefCell::(borrow|borrow_mut)$", r"::(Duration|Instant|SystemTime)::",
    r"^rand::Rng::(random_range|gen_range|random_ratio|random_bool)$", r"^rand::.*::(random_range|gen_range)$",
    r"::Layout::", r"std::thread::",
    # allocation sized by an argument: `capacity overflow` panics (and multi-exabyte requests abort) when the size is
    # not bounded - harmless for program-chosen sizes, reachable for sizes read from an input
    r"::(Vec|String|VecDeque)::(with_capacity|reserve|reserve_exact|resize|resize_with)$", r"^alloc::vec::from_elem$", r"^std::vec::from_elem$",
    r"<impl (str|\[T\])>::repeat$",
    # arithmetic operator traits on primitives inherit the caller's overflow checks
    r"^<&?(u8|u16|u32|u64|u128|usize|i8|i16|i32|i64|i128|isize) as std::ops::(Add|Sub|Mul|Div|Rem|Neg|Shl|Shr|AddAssign|SubAssign|MulAssign|DivAssign|RemAssign|ShlAssign|ShrAssign)(<.*>)?>::\w+$",
    r"::OnceLock::(set|get_or_init)$" if False else r"^$never$",
]
# names that the rust-src scan reports (some std fn of that NAME documents `# Panics`) but that
# are panic-free for the receivers used in this crate; anything else with a scanned name and no
# curated entry is treated as a site (conservative).
SAFE_NAMES = {
    "next", "next_back", "deref", "deref_mut", "clone", "eq", "ne", "lt", "le", "gt", "ge", "cmp", "partial_cmp",
    "map", "take", "replace", "as_mut", "as_ref", "get", "get_mut", "insert", "remove", "new", "push", "push_str",
    "extend_from_slice", "swap", "finish", "enumerate", "filter_map", "repeat", "call_once", "call_mut",
    "call", "into_inner", "load", "store", "sort", "sort_by_key", "sort_by", "sort_unstable", "last", "first",
    "position", "key", "get_or_init", "add", "sub", "extend", "from", "into", "fill",
    "len", "is_empty", "iter", "iter_mut", "entry", "or_default", "collect", "default", "fmt", "to_string",
    "try_from", "try_into", "min", "max", "contains", "lines", "bytes", "chars", "append", "clear", "pop",
    "write_str", "write_fmt", "write_char", "from_iter", "chain", "zip", "rev", "skip", "filter", "find", "any",
    "all", "fold", "count", "flatten", "flat_map", "unzip", "take_while", "skip_while", "peekable", "last_mut",
    "first_mut", "split_first", "split_last", "into_iter", "try_write", "try_lock", "try_read", "lock", "read", "write",
    "from_fn", "max_by_key", "min_by_key", "then", "then_some", "copied", "cloned", "for_each",
}

_scan = None


def scanned_names():
    global _scan
    if _scan is None:
        p = os.path.join(VERIF, "spec", "panicky_std.json")
        try:
            _scan = set(json.load(open(p))["panicky_names"].keys())
        except Exception:
            _scan = set()
    return _scan


_cls_cache = {}


def classify_callee(path):
    """-> 'entry' | 'panicky' | 'unclassified' | None (panic-free)"""
    if path in _cls_cache:
        return _cls_cache[path]
    s = strip_generics(path)
    r = None
    for pat in PANIC_ENTRY:
        if re.search(pat, s):
            r = "entry"
            break
    if r is None:
        for pat in PANICKY:
            if re.search(pat, s):
                r = "panicky"
                break
    if r is None:
        name = s.split("::")[-1]
        if name in scanned_names() and name not in SAFE_NAMES:
            r = "unclassified"
    # arithmetic operator impls: `add`/`sub` are in SAFE_NAMES for non-primitive receivers only
    _cls_cache[path] = r
    return r


# --------------------------------------------------------------------------------------------
class Site:
    __slots__ = ("body", "block", "kind", "what", "line", "ops", "term", "idx")

    def __init__(self, body, block, kind, what, line, ops, term):
        self.body = body
        self.block = block
        self.kind = kind      # 'assert' | 'call'
        self.what = what      # AssertKind text or callee path (generic-stripped)
        self.line = line
        self.ops = ops
        self.term = term
        self.idx = 0

    def where(self):
        return "%s:%s" % (self.body.file, self.line)

    def key(self):
        # logos numbers its generated state functions; the number is not a stable identity
        path = re.sub(r"goto\d+_(ctx\d+_)?x", "goto_", self.body.path)
        return "%s|%s|%s" % (path, self.kind, self.what)

    def __repr__(self):
        return "<Site %s %s %s @%s>" % (self.body.path, self.kind, self.what, self.line)


IGNORED_ASSERTS = ("Misaligned", "NullDeref")


def sites_of(body):
    out = []
    if body.light:
        return out
    bodies = [body] + list(body.promoted)
    for b in bodies:
        reach = b.reachable_blocks()
        for bi, t in b.terms():
            if bi not in reach:
                continue
            if t["k"] == "assert":
                if t["kind"] in IGNORED_ASSERTS:
                    continue
                out.append(Site(b, bi, "assert", t["kind"], t["line"], t["ops"], t))
            elif t["k"] == "call":
                f = t["func"]
                if f["k"] == "const" and "fn" in f:
                    res = f.get("resolved") or {}
                    if res.get("local") or (not res and f.get("fn_local")):
                        continue
                    callee = res.get("path") or f["fn"]
                    c = classify_callee(callee)
                    if c:
                        out.append(Site(b, bi, "call", strip_generics(callee), t["line"], t.get("args", []), t))
    # number duplicate keys in order of appearance so that each has a stable ordinal
    cnt = {}
    for s in out:
        k = s.key()
        s.idx = cnt.get(k, 0)
        cnt[k] = s.idx + 1
    return out


# --------------------------------------------------------------------------------------------
# intervals over expression trees

FACTS = None   # set by r3.run: gives ty_range access to enum discriminants and callee bodies


def ty_range(ty):
    if ty is None:
        return None
    ty = ty.strip()
    if ty.startswith("&"):
        ty = ty.lstrip("&").replace("mut ", "").strip()
    r = INT_RANGES.get(ty)
    if r is None and FACTS is not None:
        adt = FACTS.adts.get(ty)
        if adt and adt["kind"] == "Enum" and adt["variants"] and all(not v["fields"] for v in adt["variants"]):
            ds = [v["discr"] for v in adt["variants"]]
            return (min(ds), max(ds))
    return r


_ret_cache = {}


def ret_interval(path, depth=0):
    """Interval of the value returned by a local function, for any arguments (context-insensitive)."""
    if FACTS is None or path not in FACTS.bodies or depth > 4:
        return None
    if path in _ret_cache:
        return _ret_cache[path]
    _ret_cache[path] = None   # recursion guard
    b = FACTS.bodies[path]
    if b.light:
        return None
    ds = b.defs().get(0, [])
    if not ds or b.defs().get(("partial", 0)):
        return None
    lo, hi = None, None
    for (bi, si, rv) in ds:
        if si == "term":
            e = b.expr_of_call(rv, 10, b.local_ty(0))
        else:
            e = b.expr_of_rvalue(rv, 10)
        iv = interval(e, None, depth * 10 + 1)
        if iv is None:
            return None
        lo = iv[0] if lo is None else min(lo, iv[0])
        hi = iv[1] if hi is None else max(hi, iv[1])
    _ret_cache[path] = (lo, hi)
    return (lo, hi)


def _strip_refs(e):
    while isinstance(e, tuple) and e and e[0] in ("ref", "deref", "var", "cast"):
        e = e[2] if e[0] in ("var", "cast") else e[1]
    return e


def upper_len(e):
    """(S, k) such that e <= len(S) + k, or None."""
    if not isinstance(e, tuple):
        return None
    if e[0] == "var":
        return upper_len(e[2])
    if e[0] == "call" and e[1]:
        c = strip_generics(e[1])
        if (c.endswith("::partition_point") or c.endswith("<impl [T]>::len") or c.endswith("::Vec::len")) and e[2]:
            return (_strip_refs(e[2][0]), 0)
    if e[0] == "field" and e[2] == "0" and e[1][0] == "bin" and e[1][1] == "SubWithOverflow":
        u = upper_len(e[1][2])
        c = interval(e[1][3])
        if u and c and c[0] == c[1]:
            return (u[0], u[1] - c[0])
    return None


def _unstable_locals(e, acc):
    if not isinstance(e, tuple):
        return
    if e and e[0] == "local":
        acc.add(e[1])
    for x in e:
        if isinstance(x, tuple):
            _unstable_locals(x, acc)


def contains_unstable(e):
    if not isinstance(e, tuple):
        return False
    if e and e[0] == "local":
        return True
    return any(contains_unstable(x) for x in e if isinstance(x, tuple))


def interval(e, env=None, depth=0):
    """Sound over-approximation [lo, hi] of an integer expression tree, or None."""
    if depth > 40 or not isinstance(e, tuple):
        return None
    r = _interval(e, env, depth)
    if env:
        c = env.get(e)
        if c is not None:
            if r is None:
                r = (c[0] if c[0] is not None else -2**200, c[1] if c[1] is not None else 2**200)
            else:
                lo, hi = r
                if c[0] is not None:
                    lo = max(lo, c[0])
                if c[1] is not None:
                    hi = min(hi, c[1])
                r = (lo, hi)
        if e[0] == "var":
            return r
    return r


def _interval(e, env, depth):
    k = e[0]
    d = depth + 1
    if k == "const":
        return (e[1], e[1])
    if k == "var":
        return interval(e[2], env, d)
    if k in ("arg", "local"):
        return ty_range(e[3])
    if k == "field":
        base = e[1]
        # Some(i) returned by a search over a str/slice: i < len <= isize::MAX
        if base[0] == "downcast" and base[2] == "Some" and e[2] == "0":
            inner = _unwrap_var(base[1])
            if inner[0] == "call" and inner[1] and re.search(r"(<impl str>::(find|rfind)|::Iterator::position|::iter::Iterator>::position)$", strip_generics(inner[1])):
                return (0, 2**63 - 2)
        # field 0 of a checked arithmetic tuple: the assert on field 1 dominates every use
        if base[0] == "bin" and base[1].endswith("WithOverflow") and e[2] == "0":
            return _arith(base[1][: -len("WithOverflow")], base, env, d)
        return ty_range(e[3])
    if k == "cast":
        tr = ty_range(e[1])
        xi = interval(e[2], env, d)
        if xi is None and e[3]:
            xi = ty_range(e[3])
        if tr is None:
            return None
        if xi is not None and xi[0] >= tr[0] and xi[1] <= tr[1]:
            return xi
        return tr
    if k == "un":
        if e[3] == "bool":
            return (0, 1)
        return ty_range(e[3])
    if k == "bin":
        op = e[1]
        if op in ("Eq", "Ne", "Lt", "Le", "Gt", "Ge"):
            return (0, 1)
        return _arith(op, e, env, d)
    if k == "call":
        callee = strip_generics(e[1] or "")
        args = e[2]
        dty = e[4] if len(e) > 4 else None
        if re.search(r"impl std::convert::From<\w+> for \w+>::from$", callee) and args:
            xi = interval(args[0], env, d)
            tr = ty_range(dty)
            if xi is not None and (tr is None or (xi[0] >= tr[0] and xi[1] <= tr[1])):
                return xi
            return tr
        if callee.endswith("::unwrap_or") and len(args) == 2:
            a0 = _unwrap_var(args[0])
            if a0[0] == "call" and (a0[1] or "").endswith("::checked_ilog10"):
                d0 = interval(args[1], env, d)
                if d0:
                    return (min(0, d0[0]), max(38, d0[1]))
        if callee.endswith("::len") or callee.endswith("::count") or callee.endswith("::count_lines"):
            return (0, 2**63 - 1)
        if callee.endswith("::min") and len(args) == 2:
            a, b = interval(args[0], env, d), interval(args[1], env, d)
            if a and b:
                return (min(a[0], b[0]), min(a[1], b[1]))
            if a or b:
                x = a or b
                tr = ty_range(dty)
                return ((tr or (-2**200, 0))[0], x[1])
        if FACTS is not None and e[1] in FACTS.bodies:
            r = ret_interval(e[1], depth // 10)
            if r is not None:
                return r
        return ty_range(dty)
    if k == "discr":
        t = expr_ty(e[1])
        if t and (t.startswith("std::option::Option<") or t.startswith("std::result::Result<") or t.startswith("std::ops::ControlFlow<")):
            return (0, 1)
        if t and FACTS is not None:
            adt = FACTS.adts.get(t.split("<")[0])
            if adt and adt["kind"] == "Enum":
                ds = [v["discr"] for v in adt["variants"]]
                return (min(ds), max(ds))
        return None
    if k == "deref":
        return interval(e[1], env, d) if e[1][0] in ("ref", "arg", "var", "local", "field") and e[1][0] != "arg" else (ty_range(e[1][3]) if e[1][0] in ("arg", "local") else None)
    if k == "ref":
        return interval(e[1], env, d)
    return None


def expr_ty(e):
    """static type string of an expression tree where it is recorded"""
    if not isinstance(e, tuple):
        return None
    if e[0] in ("arg", "local", "field"):
        return e[3]
    if e[0] == "var":
        return expr_ty(e[2])
    if e[0] == "deref":
        t = expr_ty(e[1])
        if t and t.startswith("&"):
            return t.lstrip("&").replace("mut ", "", 1).strip()
        return None
    if e[0] == "call" and len(e) > 4:
        return e[4]
    if e[0] == "cast":
        return e[1]
    return None


def _arith(op, e, env, d):
    a = interval(e[2], env, d)
    b = interval(e[3], env, d)
    tr = ty_range(e[4])
    if op.endswith("Unchecked"):
        op = op[: -len("Unchecked")]

    def clip(lo, hi):
        if tr is None:
            return (lo, hi)
        if lo >= tr[0] and hi <= tr[1]:
            return (lo, hi)
        return tr
    if op == "BitAnd":
        cands = [x[1] for x in (a, b) if x is not None and x[0] >= 0]
        if cands:
            return (0, min(cands))
        return tr
    if a is None or b is None:
        return tr
    if op == "Add":
        return clip(a[0] + b[0], a[1] + b[1])
    if op == "Sub":
        return clip(a[0] - b[1], a[1] - b[0])
    if op == "Mul":
        ps = [a[0] * b[0], a[0] * b[1], a[1] * b[0], a[1] * b[1]]
        return clip(min(ps), max(ps))
    if op == "Shr" and a[0] >= 0 and b[0] >= 0:
        return (a[0] >> min(b[1], 200), a[1] >> min(b[0], 200))
    if op == "Shl" and a[0] >= 0 and 0 <= b[1] < 200:
        return clip(a[0] << b[0], a[1] << b[1])
    if op in ("BitOr", "BitXor") and a[0] >= 0 and b[0] >= 0:
        bits = max(a[1].bit_length(), b[1].bit_length())
        return (0, (1 << bits) - 1)
    if op == "Div" and b[0] > 0 and a[0] >= 0:
        return (a[0] // b[1], a[1] // b[0])
    if op == "Rem" and b[0] > 0 and a[0] >= 0:
        return (0, b[1] - 1)
    return tr


# --------------------------------------------------------------------------------------------
# dominating branch conditions

def _roots(e, acc):
    if not isinstance(e, tuple):
        return
    if e and e[0] in ("arg", "local"):
        acc.add(e[1])
    for x in e:
        if isinstance(x, tuple):
            _roots(x, acc)


def _field_path(proj):
    return tuple(e.get("name", str(e.get("f"))) for e in proj if isinstance(e, dict) and "f" in e)


def _conflict(p, q):
    n = min(len(p), len(q))
    return p[:n] == q[:n]


def _writes_through(body, bi, roots, read_paths=None):
    """Does block bi contain a store through, or a call that may mutate through, a root local
    (restricted to the field paths in `read_paths` when given: a write to `self.a` does not
    disturb a value read from `self.b`)?"""
    blk = body.blocks[bi]
    aliases = _mut_aliases(body, roots)

    def hits(path):
        return read_paths is None or any(_conflict(path, q) for q in read_paths)
    for s in blk["stmts"]:
        if s["k"] == "assign" and s["p"]["proj"]:
            l = s["p"]["l"]
            if l in roots and hits(_field_path(s["p"]["proj"])):
                return True
            if l in aliases and hits(aliases[l] + _field_path(s["p"]["proj"])):
                return True
    t = blk["term"]
    if t["k"] == "call":
        for a in t.get("args", []):
            if a["k"] in ("copy", "move") and body.local_ty(a["p"]["l"]).startswith("&mut"):
                l = a["p"]["l"]
                if l in roots and hits(()):
                    return True
                if l in aliases and hits(aliases[l]):
                    return True
    return False


_alias_cache = {}


def _mut_aliases(body, roots):
    """{temporary: field path} for `&mut` reborrows of (parts of) the roots; creating one is not a
    write, storing through it or passing it to a call is"""
    key = (id(body), tuple(sorted(roots)))
    if key in _alias_cache:
        return _alias_cache[key]
    out = {}
    changed = True
    while changed:
        changed = False
        for bi, si, s in body.stmts():
            if s["k"] == "assign" and not s["p"]["proj"] and s["rv"]["k"] in ("ref", "rawptr") and s["rv"].get("mut"):
                src = s["rv"]["p"]["l"]
                if (src in roots or src in out) and s["p"]["l"] not in out:
                    out[s["p"]["l"]] = out.get(src, ()) + _field_path(s["rv"]["p"]["proj"])
                    changed = True
            if s["k"] == "assign" and not s["p"]["proj"] and s["rv"]["k"] == "use" and s["rv"]["op"].get("k") in ("copy", "move"):
                src = s["rv"]["op"]["p"]["l"]
                if src in out and not s["rv"]["op"]["p"]["proj"] and s["p"]["l"] not in out:
                    out[s["p"]["l"]] = out[src]
                    changed = True
        # results of calls that take a &mut alias and return a &mut (index_mut, deref_mut, ...) alias the same path
        for bi, t in body.terms("call"):
            d = t.get("dest")
            if d and not d["proj"] and body.local_ty(d["l"]).startswith("&mut") and d["l"] not in out:
                for a in t.get("args", []):
                    if a["k"] in ("copy", "move") and not a["p"]["proj"] and (a["p"]["l"] in out or a["p"]["l"] in roots):
                        out[d["l"]] = out.get(a["p"]["l"], ())
                        changed = True
                        break
    _alias_cache[key] = out
    return out


def _read_paths(e, roots, acc, path=()):
    """field paths (from a root reference) that an expression tree reads"""
    if not isinstance(e, tuple) or not e:
        return
    if e[0] == "field":
        _read_paths(e[1], roots, acc, (e[2],) + path)
        return
    if e[0] in ("arg", "local") and e[1] in roots:
        acc.add(path)
        return
    if e[0] in ("deref", "ref", "downcast"):
        _read_paths(e[1], roots, acc, path)
        return
    if e[0] == "var":
        _read_paths(e[2], roots, acc, path)
        return
    for x in e[1:]:
        if isinstance(x, tuple):
            if x and isinstance(x[0], str):
                _read_paths(x, roots, acc, ())
            else:
                for y in x:
                    _read_paths(y, roots, acc, ())


def dominating_conditions(body, site_block):
    """[(expr, lo, hi)] constraints that hold whenever `site_block` is entered, derived from
    SwitchInt terminators of dominating blocks one of whose edges is the only way to the site.
    A constraint on an expression read through a `&mut` root is dropped when a block between
    the guard and the site may write through that root."""
    doms = body.dominators().get(site_block, set())
    out = []
    for d in sorted(doms):
        t = body.blocks[d]["term"]
        if t["k"] != "switch" or d == site_block:
            continue
        edges = [(v, b) for v, b in t["values"]] + [(None, t["otherwise"])]
        # the edge target must be enterable only through this edge (or from inside its own region): otherwise the
        # value of the discriminant says nothing at the site (a block shared by several match arms)
        taking = [(v, b) for v, b in edges if (b == site_block or body.dominates(b, site_block)) and _edge_only(body, d, b)]
        tgt_blocks = set(b for _, b in taking)
        if len(tgt_blocks) != 1:
            continue
        tb = next(iter(tgt_blocks))
        # every edge to tb must be accounted for (several values may share a target)
        vals = [v for v, b in edges if b == tb]
        other_vals = [v for v, b in edges if b != tb and v is not None]
        discr = body.expr_of_operand(t["discr"])
        cons = []
        if None in vals:
            # otherwise edge: discr not in other_vals (plus possibly some explicit vals)
            cons = _cond_from(discr, None, other_vals, t.get("discr_ty"))
        elif len(vals) == 1:
            cons = _cond_from(discr, vals[0], None, t.get("discr_ty"))
        else:
            lo, hi = min(vals), max(vals)
            cons = [(discr, lo, hi)]
        for (ex, lo, hi) in cons:
            ul = set()
            _unstable_locals(ex, ul)
            if ul:
                # a multiply-assigned local is only usable when it is not assigned between guard and site
                between0 = _blocks_between(body, tb, site_block)
                defs = body.defs()
                clob = False
                for l in ul:
                    for key in (l, ("partial", l)):
                        for d3 in defs.get(key, []):
                            if d3[0] in between0:
                                clob = True
                if clob:
                    continue
            roots = set()
            _roots(ex, roots)
            mut_roots = set(r for r in roots if body.local_ty(r).startswith("&mut"))
            if mut_roots:
                between = _blocks_between(body, tb, site_block)
                rp = set()
                _read_paths(ex, mut_roots, rp)
                if any(_writes_through(body, bb, mut_roots, rp or None) for bb in between if bb != site_block):
                    continue
            out.append((ex, lo, hi))
    return out


def _edge_only(body, d, b):
    """all predecessors of b are d or dominated by b itself (loop back edges)"""
    for p in body.preds()[b]:
        if p != d and not body.dominates(b, p):
            return False
    return True


def _blocks_between(body, a, b, avoid=()):
    fw = set()
    st = [a]
    while st:
        x = st.pop()
        if x in fw or x in avoid:
            continue
        fw.add(x)
        if x == b:
            continue
        st.extend(body.succs(x))
    return set(x for x in fw if body.can_reach(x, b))


def _unwrap_var(e):
    while isinstance(e, tuple) and e and e[0] == "var":
        e = e[2]
    return e


def _cond_from(discr, val, excluded, dty):
    """Translate `discr == val` (or `discr not in excluded`) into interval constraints."""
    d = _unwrap_var(discr)
    out = []
    truth = None
    if dty == "bool" or (d[0] == "bin" and d[1] in ("Eq", "Ne", "Lt", "Le", "Gt", "Ge")) or (d[0] == "un" and d[1] == "Not"):
        if val is not None:
            truth = bool(val)
        elif excluded is not None and len(excluded) == 1:
            truth = not bool(excluded[0])
    if truth is not None:
        neg = False
        while d[0] == "un" and d[1] == "Not":
            d = _unwrap_var(d[2])
            neg = not neg
        if neg:
            truth = not truth
        if d[0] == "bin" and d[1] in ("Eq", "Ne", "Lt", "Le", "Gt", "Ge"):
            op, l, r = d[1], d[2], d[3]
            if not truth:
                op = {"Eq": "Ne", "Ne": "Eq", "Lt": "Ge", "Ge": "Lt", "Gt": "Le", "Le": "Gt"}[op]
            for (x, y, o) in ((l, r, op), (r, l, {"Lt": "Gt", "Gt": "Lt", "Le": "Ge", "Ge": "Le"}.get(op, op))):
                yi = interval(y)
                if yi is None:
                    continue
                if o == "Eq" and yi[0] == yi[1]:
                    out.append((x, yi[0], yi[0]))
                elif o == "Lt":
                    out.append((x, None, yi[1] - 1))
                elif o == "Le":
                    out.append((x, None, yi[1]))
                elif o == "Gt":
                    out.append((x, yi[0] + 1, None))
                elif o == "Ge":
                    out.append((x, yi[0], None))
                elif o == "Ne" and yi[0] == yi[1]:
                    xi = interval(x)
                    if xi is not None and xi[0] == yi[0]:
                        out.append((x, xi[0] + 1, None))
                    elif xi is not None and xi[1] == yi[0]:
                        out.append((x, None, xi[1] - 1))
        else:
            # a plain boolean (field, variable, call result)
            out.append((d, int(truth), int(truth)))
        return out
    if val is not None:
        return [(discr, val, val)]
    if excluded:
        xi = interval(discr)
        if xi is not None:
            lo, hi = xi
            ex = set(excluded)
            while lo in ex:
                lo += 1
            while hi in ex:
                hi -= 1
            return [(discr, lo, hi)]
    return out


def refine_env(body, block):
    env = {}
    for ex, lo, hi in dominating_conditions(body, block):
        for key in (ex, _unwrap_var(ex)):
            cur = env.get(key, (None, None))
            nlo = lo if cur[0] is None else (cur[0] if lo is None else max(cur[0], lo))
            nhi = hi if cur[1] is None else (cur[1] if hi is None else min(cur[1], hi))
            env[key] = (nlo, nhi)
    return env


# --------------------------------------------------------------------------------------------
def auto_discharge(site):
    """-> (tag, reason) or None.  Only arguments that hold for every input are accepted."""
    b = site.body
    if site.kind != "assert":
        return _auto_call(site)
    env = refine_env(b, site.block)
    tag = "D-GUARD" if env else "D-TYPE"
    ops = [b.expr_of_operand(o) for o in site.ops]
    kind = site.what
    m = re.match(r"Overflow\((\w+)\)", kind)
    if m:
        op = m.group(1)
        ia = interval(ops[0], env)
        ib = interval(ops[1], env)
        lty = _op_ty(b, site.ops[0])
        tr = ty_range(lty)
        if ia is None or ib is None or tr is None:
            return None
        if op in ("Shl", "Shr"):
            bits = (tr[1] - tr[0]).bit_length()
            if 0 <= ib[0] and ib[1] < bits:
                return (tag, "shift amount in [%d,%d] < %d bits" % (ib[0], ib[1], bits))
            return None
        if op == "Add":
            lo, hi = ia[0] + ib[0], ia[1] + ib[1]
        elif op == "Sub":
            lo, hi = ia[0] - ib[1], ia[1] - ib[0]
        elif op == "Mul":
            ps = [ia[0] * ib[0], ia[0] * ib[1], ia[1] * ib[0], ia[1] * ib[1]]
            lo, hi = min(ps), max(ps)
        else:
            return None
        if lo >= tr[0] and hi <= tr[1]:
            return (tag, "%s of [%d,%d] and [%d,%d] stays within %s" % (op, ia[0], ia[1], ib[0], ib[1], lty))
        return None
    if kind == "BoundsCheck":
        il = interval(ops[0], env)
        ii = interval(ops[1], env)
        if il is not None and ii is not None and ii[0] >= 0 and ii[1] < il[0]:
            return (tag, "index in [%d,%d] < length >= %d" % (ii[0], ii[1], il[0]))
        u = upper_len(ops[1])
        lo = _unwrap_var(ops[0])
        if u and u[1] <= -1 and lo[0] == "un" and lo[1] == "PtrMetadata" and _strip_refs(lo[2]) == u[0] and ii is not None and ii[0] >= 0:
            return ("D-GUARD", "index <= len(slice) %+d of the same slice (partition_point/len result), and the subtraction is guarded" % u[1])
        return None
    if kind in ("DivisionByZero", "RemainderByZero"):
        iv = interval(ops[0], env)
        if iv is not None and (iv[0] > 0 or iv[1] < 0):
            return (tag, "divisor in [%d,%d] excludes 0" % iv)
        return None
    return None


def _agg_name(e):
    e = _unwrap_var(e)
    while isinstance(e, tuple) and e and e[0] in ("ref", "deref"):
        e = _unwrap_var(e[1])
    if isinstance(e, tuple) and e and e[0] == "agg":
        return e[2][0], e[3]
    return None, None


def _auto_call(site):
    """Argument-shape rules for std callees whose panic condition is a documented function of
    the arguments."""
    b = site.body
    w = site.what
    ops = [b.expr_of_operand(o) for o in site.ops]
    env = refine_env(b, site.block)
    name = w.split("::")[-1]
    if name == "clamp" and len(ops) == 3:
        lo, hi = interval(ops[1], env), interval(ops[2], env)
        if lo and hi and lo[1] <= hi[0]:
            return ("D-TYPE", "clamp bounds [%d..%d] are ordered" % (lo[1], hi[0]))
        return None
    if name in ("range", "range_mut") and "BTree" in w and len(ops) == 2:
        an, _ = _agg_name(ops[1])
        if an in ("std::ops::RangeToInclusive", "std::ops::RangeFrom", "std::ops::RangeTo", "std::ops::RangeFull"):
            return ("D-TYPE", "one-sided %s cannot have start > end" % an.split("::")[-1])
        return None
    if name in ("windows", "chunks", "chunks_exact", "chunks_mut", "chunks_exact_mut", "rchunks") and len(ops) == 2:
        n = interval(ops[1], env)
        if n and n[0] >= 1:
            return ("D-TYPE", "%s size >= %d" % (name, n[0]))
        return None
    if name in ("with_capacity", "reserve", "reserve_exact", "resize", "resize_with", "from_elem", "repeat"):
        # the size operand: with_capacity(n) | x.reserve(n) | x.resize(n, v) | from_elem(v, n) | s.repeat(n)
        idx = {"with_capacity": 0, "from_elem": 1}.get(name, 1)
        if idx < len(ops):
            n = interval(ops[idx], env)
            if n and n[1] is not None and n[1] <= 2 ** 40:
                return ("D-TYPE", "allocation size is at most %d elements" % n[1])
            u = upper_len(ops[idx])
            if u is not None and u[1] <= 0:
                return ("D-TYPE", "allocation size is bounded by the length of an existing collection")
        return None
    if name == "from_str_radix" and len(ops) == 2:
        n = interval(ops[1], env)
        if n and 2 <= n[0] and n[1] <= 36:
            return ("D-TYPE", "radix in [%d,%d]" % n)
        return None
    if name in ("index", "index_mut") and len(ops) == 2:
        an, _ = _agg_name(ops[1])
        if an == "std::ops::RangeFull":
            return ("D-TYPE", "full range index")
        return None
    m = re.match(r"^<&?(\w+) as std::ops::(Add|Sub|Mul)(<.*>)?>::\w+$", w)
    if m and len(ops) == 2:
        tr = ty_range(m.group(1))
        ia, ib = interval(ops[0], env), interval(ops[1], env)
        if tr and ia and ib:
            op = m.group(2)
            if op == "Add":
                lo, hi = ia[0] + ib[0], ia[1] + ib[1]
            elif op == "Sub":
                lo, hi = ia[0] - ib[1], ia[1] - ib[0]
            else:
                ps = [ia[0] * ib[0], ia[0] * ib[1], ia[1] * ib[0], ia[1] * ib[1]]
                lo, hi = min(ps), max(ps)
            if lo >= tr[0] and hi <= tr[1]:
                return ("D-GUARD" if env else "D-TYPE", "%s stays within %s" % (op, m.group(1)))
        return None
    return None


def _op_ty(body, op):
    if op["k"] == "const":
        return op["ty"]
    p = op["p"]
    if not p["proj"]:
        return body.local_ty(p["l"])
    last = p["proj"][-1]
    if isinstance(last, dict) and "ty" in last:
        return last["ty"]
    return None


def describe(site):
    b = site.body
    ops = [short(b.expr_of_operand(o), 200) for o in site.ops[:3]]
    return "%s %s operands=%s" % (site.kind, site.what, ops)
