"""MIR-level inlining of helper functions that did not exist at the pinned commit.

An 'extract function' refactoring moves a piece of a function into a new private helper and calls it.
Behaviour does not change, but every rule that looks at the original function (normal forms, dominance,
site inventories and floors, panic discharge keyed by function) would see a call to an unknown function
instead of the code.  Before any rule runs, the facts document is therefore rewritten: a call whose
resolved callee is a function of this crate that is NOT listed in spec/baseline_fns.txt (the inventory of
the crate's functions at the pinned commit) is replaced by the callee's blocks, exactly as a compiler
inliner would do it (fresh locals, arguments assigned to the parameter locals, `return` replaced by an
assignment to the call's destination and a jump to its continuation).  Helpers are processed innermost
first; recursion and closures are left alone.  A private helper all of whose uses were inlined is removed
from the document (its code is analysed where it runs).

Baseline functions are never inlined, so every existing rule sees exactly what it saw before.
"""
import copy
import os

_HERE = os.path.dirname(os.path.dirname(os.path.dirname(os.path.abspath(__file__))))


def baseline():
    with open(os.path.join(_HERE, "spec", "baseline_fns.txt")) as fh:
        return set(l.rstrip("\n") for l in fh if l.strip() and not l.startswith("#"))


def _is_place(o):
    return isinstance(o, dict) and isinstance(o.get("l"), int) and isinstance(o.get("proj"), list)


def _remap(o, lf, pf):
    """deep copy of a JSON fragment with locals mapped through lf and promoted indices through pf"""
    if isinstance(o, list):
        return [_remap(x, lf, pf) for x in o]
    if isinstance(o, dict):
        if _is_place(o):
            proj = []
            for e in o["proj"]:
                if isinstance(e, dict) and "idx" in e and isinstance(e["idx"], int):
                    e = dict(e)
                    e["idx"] = lf(e["idx"])
                else:
                    e = copy.deepcopy(e)
                proj.append(e)
            r = {k: copy.deepcopy(v) for k, v in o.items() if k not in ("l", "proj")}
            r["l"] = lf(o["l"])
            r["proj"] = proj
            return r
        r = {}
        for k, v in o.items():
            if k == "promoted" and isinstance(v, int) and o.get("k") == "const":
                r[k] = pf(v)
            else:
                r[k] = _remap(v, lf, pf)
        return r
    return o


def _callee_of(term):
    if term.get("k") != "call":
        return None
    f = term.get("func") or {}
    if f.get("k") != "const" or "fn" not in f:
        return None
    res = f.get("resolved") or {}
    if res.get("local") and res.get("path"):
        return res["path"]
    if f.get("fn_local"):
        return f["fn"]
    return None


def _eligible(raw):
    if raw.get("light") or not raw.get("blocks") or "{closure" in raw.get("path", ""):
        return False
    if raw.get("kind") not in ("Fn", "AssocFn"):
        return False
    return True


def _splice(caller, bi, callee):
    """replace the call terminating block `bi` of `caller` by the body of `callee` (both raw dicts)"""
    blocks = caller["blocks"]
    term = blocks[bi]["term"]
    lbase = len(caller["locals"])
    bbase = len(blocks)
    pbase = len(caller.setdefault("promoted", []))
    for p in callee.get("promoted", []):
        caller["promoted"].append(copy.deepcopy(p))
    for loc in callee["locals"]:
        caller["locals"].append(copy.deepcopy(loc))
    lf = lambda l: l + lbase
    pf = lambda p: p + pbase
    line = term.get("line")
    # parameters := arguments
    for j, a in enumerate(term.get("args", [])):
        blocks[bi]["stmts"].append({"k": "assign", "p": {"l": lbase + 1 + j, "proj": []},
                                    "rv": {"k": "use", "op": a}, "line": line, "exp": term.get("exp", 0), "inl": "arg"})
    dest, target, unwind = term.get("dest"), term.get("target"), term.get("unwind")
    for cb in callee["blocks"]:
        nb = {"stmts": _remap(cb["stmts"], lf, pf), "cleanup": cb.get("cleanup", False)}
        t = _remap(cb["term"], lf, pf)
        for k in ("target", "unwind", "otherwise"):
            if isinstance(t.get(k), int):
                t[k] = t[k] + bbase
        if "values" in t:
            t["values"] = [[v, b + bbase] for v, b in t["values"]]
        if t["k"] == "return":
            if dest is not None:
                nb["stmts"].append({"k": "assign", "p": dest, "rv": {"k": "use", "op": {"k": "move", "p": {"l": lbase, "proj": []}}},
                                    "line": line, "exp": term.get("exp", 0), "inl": "ret"})
            if target is not None:
                t = {"k": "goto", "target": target, "line": t.get("line"), "exp": t.get("exp", 0)}
            else:
                t = {"k": "unreachable", "line": t.get("line"), "exp": t.get("exp", 0)}
        elif t["k"] == "resume" and isinstance(unwind, int):
            t = {"k": "goto", "target": unwind, "line": t.get("line"), "exp": t.get("exp", 0)}
        nb["term"] = t
        blocks.append(nb)
    blocks[bi]["term"] = {"k": "goto", "target": bbase, "line": line, "exp": term.get("exp", 0), "inl": callee["path"]}


def inline_new_helpers(doc, base=None, max_rounds=4):
    """rewrites doc in place; returns {helper path: number of call sites inlined}"""
    base = baseline() if base is None else base
    bodies = {b["path"]: b for b in doc["bodies"]}
    helpers = {p for p, b in bodies.items() if p not in base and _eligible(b)}
    done = {}
    if not helpers:
        return done
    for _ in range(max_rounds):
        changed = False
        # innermost first: helpers, then everything else
        order = sorted(bodies, key=lambda p: (p not in helpers, p))
        for p in order:
            raw = bodies[p]
            if raw.get("light"):
                continue
            bi = 0
            while bi < len(raw["blocks"]):
                c = _callee_of(raw["blocks"][bi]["term"])
                if c in helpers and c != p and len(raw["blocks"]) < 4000:
                    callee = bodies[c]
                    # do not inline a helper that still calls a helper (wait for the next round) or itself
                    inner = set(_callee_of(b["term"]) for b in callee["blocks"])
                    if c in inner or (inner & helpers):
                        bi += 1
                        continue
                    _splice(raw, bi, callee)
                    done[c] = done.get(c, 0) + 1
                    changed = True
                bi += 1
        if not changed:
            break
    # a private helper with no remaining call is analysed where it was inlined
    still = set()
    import json
    for p, raw in (bodies.items() if done else ()):
        txt = json.dumps(raw.get("blocks", []))
        for c in done:
            if c != p and (('"fn": %s' % json.dumps(c)) in txt or ('"path": %s' % json.dumps(c)) in txt):
                still.add(c)
    gone = {p for p in done if p not in still and bodies[p].get("vis") not in ("Public",)}
    if gone:
        doc["bodies"] = [b for b in doc["bodies"] if b["path"] not in gone]
        doc["_inlined_away"] = sorted(gone)
    doc["_inlined"] = done
    return done
