"""MIR-level inlining of helper functions that did not exist at the pinned commit.

An 'extract function' refactoring moves a piece of a function into a new private helper and calls it.
Behaviour does not change, but every rule that looks at the original function (normal forms, dominance,
site inventories and floors, panic discharge keyed by function) would see a call to an unknown function
instead of the code.  Before any rule runs, the facts document is therefore rewritten: a call whose
resolved callee is a function of this crate that is NOT listed in spec/baseline_fns.txt (the inventory of
the crate's functions at the pinned commit) is replaced by the callee's blocks, exactly as a compiler
inliner would do it (fresh locals, arguments assigned to the parameter locals, `return` replaced by an
assignment to the call's destination and a jump to its continuation).  Helpers are processed innermost
first; recursion and closures are left alone.  A private helper all of whose uses were inlined is removed
from the document (its code is analysed where it runs).

Baseline functions are never inlined, so every existing rule sees exactly what it saw before.
"""
import copy
import os

_HERE = os.path.dirname(os.path.dirname(os.path.dirname(os.path.abspath(__file__))))


def baseline():
    with open(os.path.join(_HERE, "spec", "baseline_fns.txt")) as fh:
        return set(l.rstrip("\n") for l in fh if l.strip() and not l.startswith("#"))


def _is_place(o):
    return isinstance(o, dict) and isinstance(o.get("l"), int) and isinstance(o.get("proj"), list)


def _remap(o, lf, pf):
    """deep copy of a JSON fragment with locals mapped through lf and promoted indices through pf"""
    if isinstance(o, list):
        return [_remap(x, lf, pf) for x in o]
    if isinstance(o, dict):
        if _is_place(o):
            proj = []
            for e in o["proj"]:
                if isinstance(e, dict) and "idx" in e and isinstance(e["idx"], int):
                    e = dict(e)
                    e["idx"] = lf(e["idx"])
                else:
                    e = copy.deepcopy(e)
                proj.append(e)
            r = {k: copy.deepcopy(v) for k, v in o.items() if k not in ("l", "proj")}
            r["l"] = lf(o["l"])
            r["proj"] = proj
            return r
        r = {}
        for k, v in o.items():
            if k == "promoted" and isinstance(v, int) and o.get("k") == "const":
                r[k] = pf(v)
            else:
                r[k] = _remap(v, lf, pf)
        return r
    return o


def _callee_of(term):
    if term.get("k") != "call":
        return None
    f = term.get("func") or {}
    if f.get("k") != "const" or "fn" not in f:
        return None
    res = f.get("resolved") or {}
    if res.get("local") and res.get("path"):
        return res["path"]
    if f.get("fn_local"):
        return f["fn"]
    return None


def _eligible(raw):
    if raw.get("light") or not raw.get("blocks") or "{closure" in raw.get("path", ""):
        return False
    if raw.get("kind") not in ("Fn", "AssocFn"):
        return False
    return True


def _splice(caller, bi, callee):
    """replace the call terminating block `bi` of `caller` by the body of `callee` (both raw dicts)"""
    blocks = caller["blocks"]
    term = blocks[bi]["term"]
    lbase = len(caller["locals"])
    bbase = len(blocks)
    pbase = len(caller.setdefault("promoted", []))
    for p in callee.get("promoted", []):
        caller["promoted"].append(copy.deepcopy(p))
    for loc in callee["locals"]:
        caller["locals"].append(copy.deepcopy(loc))
    lf = lambda l: l + lbase
    pf = lambda p: p + pbase
    line = term.get("line")
    # parameters := arguments
    for j, a in enumerate(term.get("args", [])):
        blocks[bi]["stmts"].append({"k": "assign", "p": {"l": lbase + 1 + j, "proj": []},
                                    "rv": {"k": "use", "op": a}, "line": line, "exp": term.get("exp", 0), "inl": "arg"})
    dest, target, unwind = term.get("dest"), term.get("target"), term.get("unwind")
    for cb in callee["blocks"]:
        nb = {"stmts": _remap(cb["stmts"], lf, pf), "cleanup": cb.get("cleanup", False)}
        t = _remap(cb["term"], lf, pf)
        for k in ("target", "unwind", "otherwise"):
            if isinstance(t.get(k), int):
                t[k] = t[k] + bbase
        if "values" in t:
            t["values"] = [[v, b + bbase] for v, b in t["values"]]
        if t["k"] == "return":
            if dest is not None:
                nb["stmts"].append({"k": "assign", "p": dest, "rv": {"k": "use", "op": {"k": "move", "p": {"l": lbase, "proj": []}}},
                                    "line": line, "exp": term.get("exp", 0), "inl": "ret"})
            if target is not None:
                t = {"k": "goto", "target": target, "line": t.get("line"), "exp": t.get("exp", 0)}
            else:
                t = {"k": "unreachable", "line": t.get("line"), "exp": t.get("exp", 0)}
        elif t["k"] == "resume" and isinstance(unwind, int):
            t = {"k": "goto", "target": unwind, "line": t.get("line"), "exp": t.get("exp", 0)}
        nb["term"] = t
        blocks.append(nb)
    blocks[bi]["term"] = {"k": "goto", "target": bbase, "line": line, "exp": term.get("exp", 0), "inl": callee["path"]}


def _thread_try(raw):
    """After inlining a helper that returns `Ok(v)` into a caller that applies `?` to the call, the caller tests a value
    whose variant is known on that path.  As a compiler's jump threading would, each inlined return path that has just
    built `Ok(..)`/`Some(..)` skips the `Try::branch` call and its switch and continues on the Continue edge with
    ControlFlow::Continue(payload); other paths (Err, unknown) still go through the branch.  Only blocks created by the
    inliner are rewritten."""
    blocks = raw["blocks"]
    n = 0
    for ri in range(len(blocks)):
        R = blocks[ri]
        if not R["stmts"] or R["stmts"][-1].get("inl") != "ret" or R["term"].get("k") != "goto":
            continue
        ret = R["stmts"][-1]
        dest = ret["p"]
        src = ret["rv"]["op"]["p"]["l"]
        C = blocks[R["term"]["target"]]
        ct = C["term"]
        if C["stmts"] or ct.get("k") != "call" or not (ct["func"].get("fn") or "").endswith("Try::branch") or len(ct.get("args", [])) != 1:
            continue
        a0 = ct["args"][0]
        if a0.get("k") != "move" or a0.get("p") != dest or ct.get("target") is None or ct.get("dest") is None:
            continue
        D = blocks[ct["target"]]
        dt = D["term"]
        if len(D["stmts"]) != 1 or D["stmts"][0]["rv"].get("k") != "discr" or D["stmts"][0]["rv"]["p"] != ct["dest"] or dt.get("k") != "switch":
            continue
        e0 = [b for v, b in dt["values"] if v == 0]
        if len(e0) != 1:
            continue
        for pi in range(len(blocks)):
            P = blocks[pi]
            if P["term"].get("k") != "goto" or P["term"]["target"] != ri or pi == ri:
                continue
            last = None
            for st in P["stmts"]:
                if st["k"] == "assign" and st["p"]["l"] == src:
                    last = st if not st["p"]["proj"] else None
            if last is None or last["rv"].get("k") != "agg" or (last["rv"].get("adt"), last["rv"].get("variant")) not in (("std::result::Result", "Ok"), ("std::option::Option", "Some")):
                continue
            var = last["rv"]["variant"]
            payload = {"k": "move", "p": {"l": dest["l"], "proj": list(dest["proj"]) + [{"downcast": var, "vidx": last["rv"].get("vidx", 0)}, {"f": 0, "name": "0", "adt": last["rv"]["adt"], "ty": "?"}]}}
            nb = {"stmts": copy.deepcopy(R["stmts"]) + [{"k": "assign", "p": copy.deepcopy(ct["dest"]), "rv": {"k": "agg", "agg": "adt", "adt": "std::ops::ControlFlow", "variant": "Continue", "vidx": 0, "field_names": ["0"], "gargs": "[]", "fields": [payload]}, "line": ret.get("line"), "exp": 0, "inl": "thread"}],
                  "term": {"k": "goto", "target": e0[0], "line": ret.get("line"), "exp": 0}, "cleanup": False}
            blocks.append(nb)
            P["term"]["target"] = len(blocks) - 1
            n += 1
    return n


def inline_new_helpers(doc, base=None, max_rounds=4):
    """rewrites doc in place; returns {helper path: number of call sites inlined}"""
    base = baseline() if base is None else base
    bodies = {b["path"]: b for b in doc["bodies"]}
    helpers = {p for p, b in bodies.items() if p not in base and _eligible(b)}
    done = {}
    if not helpers:
        return done
    for _ in range(max_rounds):
        changed = False
        # innermost first: helpers, then everything else
        order = sorted(bodies, key=lambda p: (p not in helpers, p))
        for p in order:
            raw = bodies[p]
            if raw.get("light"):
                continue
            bi = 0
            while bi < len(raw["blocks"]):
                c = _callee_of(raw["blocks"][bi]["term"])
                if c in helpers and c != p and len(raw["blocks"]) < 4000:
                    callee = bodies[c]
                    # do not inline a helper that still calls a helper (wait for the next round) or itself
                    inner = set(_callee_of(b["term"]) for b in callee["blocks"])
                    if c in inner or (inner & helpers):
                        bi += 1
                        continue
                    _splice(raw, bi, callee)
                    done[c] = done.get(c, 0) + 1
                    changed = True
                bi += 1
        if not changed:
            break
    touched = set()
    for p, raw in bodies.items():
        if any(b["term"].get("inl") for b in raw.get("blocks", [])):
            touched.add(p)
    for p in touched:
        _thread_try(bodies[p])
    # a private helper with no remaining call is analysed where it was inlined
    still = set()
    import json
    for p, raw in (bodies.items() if done else ()):
        txt = json.dumps(raw.get("blocks", []))
        for c in done:
            if c != p and (('"fn": %s' % json.dumps(c)) in txt or ('"path": %s' % json.dumps(c)) in txt):
                still.add(c)
    gone = {p for p in done if p not in still and bodies[p].get("vis") not in ("Public",)}
    if gone:
        doc["bodies"] = [b for b in doc["bodies"] if b["path"] not in gone]
        doc["_inlined_away"] = sorted(gone)
    doc["_inlined"] = done
    return done
