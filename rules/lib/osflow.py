"""Forward dataflow over one os.asm routine: register value classes, the supervisor-stack frame,
condition-code provenance and 'R0 known nonzero'.  A classic worklist analysis with joins - no
path enumeration and no concrete or symbolic execution of the routine.

Value classes (a finite lattice with top 'T'):
  ('orig', k)      the value Rk had on entry            ('ptr', k)   orig Rk advanced by +1 steps
  ('const', n)     a known constant                      ('addr', L)  address of label L
  ('io', NAME)     loaded through the pointer word NAME  ('mem', k)   word loaded through ('orig'|'ptr', k)
  ('low', v)       v AND x00FF                           'T'          anything
"""
from . import asmx
from .asmx import num

REGS = ["R%d" % i for i in range(8)]
CC_SETTERS = {"ADD", "AND", "NOT", "LD", "LDI", "LDR"}          # LEA does not set CC on this machine (C08 row)
WRITERS = CC_SETTERS | {"LEA"}


def join_val(a, b):
    if a == b:
        return a
    if isinstance(a, tuple) and isinstance(b, tuple) and {a[0], b[0]} <= {"orig", "ptr"} and a[1] == b[1]:
        return ("ptr", a[1])
    return "T"


class State:
    __slots__ = ("regs", "sp", "slots", "cc", "nz", "reads")

    def __init__(self):
        self.regs = {r: ("orig", int(r[1])) for r in REGS}
        self.sp = 0
        self.slots = {}
        self.cc = None          # register whose current value set the condition codes
        self.nz = False         # R0's current value is known nonzero
        self.reads = (0, 0)     # (min, max) number of keyboard-data reads so far

    def copy(self):
        s = State()
        s.regs = dict(self.regs); s.sp = self.sp; s.slots = dict(self.slots); s.cc = self.cc; s.nz = self.nz; s.reads = self.reads
        return s

    def key(self):
        return (tuple(sorted(self.regs.items())), self.sp, tuple(sorted(self.slots.items())), self.cc, self.nz, self.reads)


def join(a, b, problems, where):
    if a is None:
        return b.copy()
    s = a.copy()
    if a.sp != b.sp:
        problems.append((where, "stack height differs at a join (%d vs %d)" % (a.sp, b.sp)))
    for r in REGS:
        s.regs[r] = join_val(a.regs[r], b.regs[r])
    s.slots = {k: join_val(v, b.slots[k]) for k, v in a.slots.items() if k in b.slots}
    s.cc = a.cc if a.cc == b.cc else None
    s.nz = a.nz and b.nz
    s.reads = (min(a.reads[0], b.reads[0]), min(max(a.reads[1], b.reads[1]), 9))
    return s


class Routine:
    """analysis result of one trap routine"""

    def __init__(self, P, name, entry, summaries, io_names):
        self.P, self.name, self.entry = P, name, entry
        self.instrs = P.routine(entry)
        self.problems = []       # (address, text)
        self.into_data = sorted(a for a, s in self.instrs.items() if s is None)
        self.state_in = {}
        self.exits = []          # (addr, State) at RTI
        self.emits = []          # (addr, kind, value class of R0, nz flag)  kind = 'DDR' store or nested trap name
        self.stores = []         # (addr, description, ok)
        self.nested = []         # (addr, trap routine name, R0 class)
        self.guards = []         # (addr of BRz with cc == R0, taken target)
        self.io_loads = []       # (addr, NAME)
        self.summaries, self.io_names = summaries, io_names
        self._run()

    # -- transfer
    def _reg(self, a):
        a = a.upper()
        return a if a in REGS else None

    def _step(self, st, s):
        """returns [(successor addr, state)]"""
        P = self.P
        op, args = st.op, st.args
        s = s.copy()
        out_states = None

        def write(rd, val, setcc):
            s.regs[rd] = val
            if rd == "R0":
                s.nz = False
            if setcc:
                s.cc = rd
            elif s.cc == rd:
                s.cc = None

        m = asmx.BR_RE.match(op)
        if m:
            cc = set(m.group(1) or "NZP")
            tgt = P.target(st)
            if cc == set("NZP"):
                return [(tgt, s)]
            taken, fall = s.copy(), s.copy()
            if s.cc == "R0":
                if cc == {"Z"}:
                    fall.nz = True
                    self.guards.append((st.addr, tgt))
                elif cc == {"N", "P"}:
                    taken.nz = True
            return [(tgt, taken), (st.addr + 1, fall)]
        if op in ("RTI",):
            self.exits.append((st.addr, s))
            return []
        if op in ("RET", "JMP", "JSR", "JSRR", "ST", ".FILL", ".BLKW", ".STRINGZ"):
            self.problems.append((st.addr, "%s is not expected inside a trap routine" % op))
            return []
        trap = None
        if op in asmx.TRAP_ALIASES:
            trap = asmx.TRAP_ALIASES[op]
        elif op == "TRAP":
            trap = num(args[0])
        if trap is not None:
            if trap == 0x25:
                return []
            callee = {0x20: "TRAP_GETC", 0x21: "TRAP_PUTC", 0x22: "TRAP_PUTS", 0x23: "TRAP_IN", 0x24: "TRAP_PUTSP"}.get(trap)
            sm = self.summaries.get(callee)
            self.nested.append((st.addr, callee, s.regs["R0"], s.nz))
            if sm is None:
                self.problems.append((st.addr, "nested trap x%02X has no summary (recursion or unknown vector)" % trap))
                return []
            # the trap pushes PSR and PC below SP: anything live below SP is lost
            s.slots = {k: v for k, v in s.slots.items() if k >= s.sp}
            if callee in ("TRAP_PUTC", "TRAP_PUTS", "TRAP_PUTSP"):
                self.emits.append((st.addr, callee, s.regs["R0"], s.nz))
            for r, v in sm["writes"].items():
                s.regs[r] = v
                if r == "R0":
                    s.nz = False
                if s.cc == r:
                    s.cc = None
            s.reads = (s.reads[0] + sm["reads"][0], min(s.reads[1] + sm["reads"][1], 9))
            return [(st.addr + 1, s)]          # RTI restores the PSR, so CC provenance survives the call
        rd = self._reg(args[0]) if args else None
        if op == "ADD" or op == "AND":
            a = self._reg(args[1])
            b = self._reg(args[2])
            imm = num(args[2]) if b is None else None
            va = s.regs[a]
            if rd == "R6" or a == "R6":
                if op == "ADD" and rd == "R6" and a == "R6" and imm is not None:
                    s.sp += imm
                    s.slots = {k: v for k, v in s.slots.items() if k >= s.sp}
                    s.cc = "R6"
                    return [(st.addr + 1, s)]
                self.problems.append((st.addr, "R6 is used outside the push/pop idiom: %s %s" % (op, ",".join(args))))
                return [(st.addr + 1, s)]
            if op == "ADD":
                if imm == 0:
                    val = va
                elif imm == 1 and isinstance(va, tuple) and va[0] in ("orig", "ptr"):
                    val = ("ptr", va[1])
                elif imm is not None and isinstance(va, tuple) and va[0] == "const":
                    val = ("const", (va[1] + imm) & 0xFFFF)
                else:
                    val = "T"
            else:
                vb = s.regs[b] if b else ("const", imm & 0xFFFF)
                if vb == ("const", 0) or va == ("const", 0):
                    val = ("const", 0)
                elif vb == ("const", 0xFF) and isinstance(va, tuple) and va[0] == "mem":
                    val = ("low", va)
                elif va == ("const", 0xFF) and isinstance(vb, tuple) and vb[0] == "mem":
                    val = ("low", vb)
                else:
                    val = "T"
            write(rd, val, True)
            return [(st.addr + 1, s)]
        if op == "NOT":
            write(rd, "T", True)
            return [(st.addr + 1, s)]
        if op == "LEA":
            write(rd, ("addr", args[1].upper()), False)
            return [(st.addr + 1, s)]
        if op == "LD":
            v = P.word_value(P.target(st))
            write(rd, ("const", v) if v is not None and isinstance(P.words.get(P.target(st), (None, None))[1], int) else "T", True)
            return [(st.addr + 1, s)]
        if op == "LDI":
            lab = args[1].upper()
            ptr = P.word_value(P.target(st))
            if lab in self.io_names and ptr == self.io_names[lab]:
                write(rd, ("io", lab), True)
                self.io_loads.append((st.addr, lab))
                if lab == "KBDR":
                    s.reads = (s.reads[0] + 1, min(s.reads[1] + 1, 9))
            else:
                self.problems.append((st.addr, "LDI through %s (x%s) which is not a known device register" % (lab, "%04X" % ptr if ptr is not None else "?")))
                write(rd, "T", True)
            return [(st.addr + 1, s)]
        if op == "LDR":
            base = self._reg(args[1])
            off = num(args[2])
            if base == "R6":
                write(rd, s.slots.get(s.sp + off, "T"), True)
            else:
                vb = s.regs[base]
                write(rd, ("mem", vb[1]) if isinstance(vb, tuple) and vb[0] in ("orig", "ptr") and off == 0 else "T", True)
            return [(st.addr + 1, s)]
        if op == "STR":
            base = self._reg(args[1])
            off = num(args[2])
            src = self._reg(args[0])
            if base == "R6" and s.sp + off < 0 and s.sp + off >= s.sp:
                s.slots[s.sp + off] = s.regs[src]
                self.stores.append((st.addr, "push slot %d" % (s.sp + off), True))
            else:
                self.stores.append((st.addr, "STR %s (sp offset %s)" % (",".join(args), s.sp + off if base == "R6" else "n/a"), False))
            return [(st.addr + 1, s)]
        if op == "STI":
            lab = args[1].upper()
            ptr = P.word_value(P.target(st))
            src = self._reg(args[0])
            ok = lab in ("DDR", "MCR") and lab in self.io_names and ptr == self.io_names[lab]
            self.stores.append((st.addr, "STI through %s" % lab, ok))
            if ok and lab == "DDR":
                self.emits.append((st.addr, "DDR", s.regs[src], s.nz))
            return [(st.addr + 1, s)]
        self.problems.append((st.addr, "unrecognised instruction %s" % op))
        return [(st.addr + 1, s)]

    def _run(self):
        work = [self.entry]
        self.state_in[self.entry] = State()
        rounds = 0
        while work and rounds < 5000:
            rounds += 1
            a = work.pop()
            st = self.instrs.get(a)
            if st is None:
                continue
            # results of earlier visits of this instruction are replaced
            for lst in (self.exits, self.emits, self.stores, self.nested, self.guards, self.io_loads):
                lst[:] = [x for x in lst if x[0] != a]
            for (succ, ns) in self._step(st, self.state_in[a]):
                if succ is None:
                    self.problems.append((a, "branch target not found"))
                    continue
                old = self.state_in.get(succ)
                new = join(old, ns, self.problems, succ)
                if old is None or new.key() != old.key():
                    self.state_in[succ] = new
                    work.append(succ)
        if rounds >= 5000:
            self.problems.append((self.entry, "dataflow did not converge"))
        self.problems = sorted(set(self.problems))

    # -- graph helpers on the routine
    def succ_addrs(self, a):
        st = self.instrs.get(a)
        if st is None:
            return []
        return [x for x in self.P.succs(st) if x != "ret"]

    def reaches(self, a, targets, avoid=()):
        seen = set()
        stack = [a]
        while stack:
            x = stack.pop()
            if x in seen or x in avoid:
                continue
            seen.add(x)
            if x in targets:
                return True
            stack.extend(self.succ_addrs(x))
        return False

    def summary(self):
        """register writes visible to a caller and keyboard reads, valid only if the routine is well-formed"""
        writes = {}
        reads = None
        for a, s in self.exits:
            for r in REGS:
                if s.regs[r] != ("orig", int(r[1])):
                    writes[r] = join_val(writes.get(r, s.regs[r]), s.regs[r])
            reads = s.reads if reads is None else (min(reads[0], s.reads[0]), max(reads[1], s.reads[1]))
        return {"writes": writes, "reads": reads or (0, 0)}
