"""Helpers for rules over the simulator (src/sim.rs): the arms of the instruction match in
`_step_inner`, the effects inside an arm, provenance normalisation of addresses/contexts."""
from . import panics, tables
from .panics import _unwrap_var, interval, _agg_name

STEP = "sim::Simulator::_step_inner"


def core(e, depth=0):
    """strip user-variable wrappers, the `?` machinery (Try::branch + Continue projection), refs
    and derefs: what value is this, really?"""
    while isinstance(e, tuple) and e and depth < 60:
        depth += 1
        if e[0] == "var":
            e = e[2]
            continue
        if e[0] in ("ref", "deref"):
            e = e[1]
            continue
        if e[0] == "field" and isinstance(e[1], tuple) and e[1][0] == "downcast" and e[1][2] in ("Continue", "Some", "Ok"):
            inner = e[1][1]
            while isinstance(inner, tuple) and inner and inner[0] == "var":
                inner = inner[2]
            if isinstance(inner, tuple) and inner[0] == "call" and (inner[1] or "").endswith("Try>::branch") and inner[2]:
                e = inner[2][0]
                continue
        break
    return e


def classify_value(e, depth=0, body=None):
    """symbolic description of a u16 value used as address / data in an instruction arm"""
    e = core(e)
    if not isinstance(e, tuple) or depth > 12:
        return ("?",)
    k = e[0]
    if k == "const":
        return ("const", e[1])
    if k == "field":
        if e[2] == "pc":
            return ("pc",)
        ch = tables.find_self_fields(e)
        if ch:
            return ("operand", int(ch[0][1]))
        return ("field", e[2])
    if k == "call":
        c = e[1] or ""
        a = e[2]
        if c.endswith("<impl u16>::wrapping_add_signed") or c.endswith("<impl u16>::wrapping_add") or c.endswith("<impl u16>::wrapping_sub"):
            op = "+" if "add" in c else "-"
            return (op, classify_value(a[0], depth + 1, body), classify_value(a[1], depth + 1, body))
        if c.endswith("Offset::<OFF, N>::get"):
            ch = tables.find_self_fields(a[0])
            return ("off", int(ch[0][1])) if ch else ("off", "?")
        if c.endswith("Word::get_if_init") or c.endswith("Word::get"):
            return ("val", classify_value(a[0], depth + 1, body))
        if c.endswith("Simulator::read_mem"):
            return ("mem", classify_value(a[1], depth + 1, body))
        if c.endswith("RegFile as std::ops::Index<ast::Reg>>::index") or c.endswith("RegFile as std::ops::IndexMut<ast::Reg>>::index_mut"):
            r = core(a[1])
            an, fs = _agg_name(r)
            if an == "ast::Reg":
                return ("reg", _unwrap_var(r)[2][1])
            ch = tables.find_self_fields(r)
            return ("reg", ("operand", int(ch[0][1]))) if ch else ("reg", "?")
        if c.endswith("Word::new_init") or ("From<" in c and c.endswith(">::from")):
            return classify_value(a[0], depth + 1, body)
        if c.endswith("Word as std::ops::Add>::add"):
            return ("add", classify_value(a[0], depth + 1, body), classify_value(a[1], depth + 1, body))
        if c.endswith("Word as std::ops::BitAnd>::bitand"):
            return ("bitand", classify_value(a[0], depth + 1, body), classify_value(a[1], depth + 1, body))
        if c.endswith("Word as std::ops::Not>::not"):
            return ("not", classify_value(a[0], depth + 1, body))
        if c.endswith("Simulator::prefetch_pc"):
            return ("prefetch_pc",)
        return ("call", c.split("::")[-1])
    if k == "cast":
        return classify_value(e[2], depth + 1, body)
    if k == "local":
        if body is not None:
            alts = set()
            for (bi, si, rv) in body.defs().get(e[1], []):
                x = body.expr_of_call(rv, 12, e[3]) if si == "term" else body.expr_of_rvalue(rv, 12)
                alts.add(classify_value(x, depth + 1, body))
            if alts:
                return ("phi", frozenset(alts))
        return ("local", e[2])
    if k == "arg":
        return ("arg", e[2])
    return ("?", k)


def classify_ctx(e):
    """MemAccessCtx provenance: 'default' | ('default-with', {field}) | 'omnipotent' | other"""
    e = core(e)
    if e[0] == "call":
        c = e[1] or ""
        if c.endswith("Simulator::default_mem_ctx"):
            return "default"
        if c.endswith("MemAccessCtx::omnipotent"):
            return "omnipotent"
        return "call:" + c.split("::")[-1]
    an, fs = _agg_name(e)
    if an == "sim::MemAccessCtx":
        names = ["privileged", "strict", "io_effects", "track_access"]
        changed = set()
        for n, f in zip(names, fs):
            c = core(f)
            # struct update: field copied from default_mem_ctx()
            if c[0] == "field" and c[2] == n and core(c[1])[0] == "call" and (core(c[1])[1] or "").endswith("default_mem_ctx"):
                continue
            changed.add(n)
        return ("default-with", frozenset(changed))
    return "other:" + repr(e)[:60]


def step_arms(F):
    """{variant: (arm target block, [blocks of the arm])} for the `match instr` of _step_inner"""
    b = F.bodies.get(STEP)
    if b is None:
        raise tables.TableError("_step_inner not found")
    names = tables.variant_names(F, tables.SIM)
    for bi, t in b.terms("switch"):
        d = _unwrap_var(b.expr_of_operand(t["discr"]))
        if d[0] == "discr" and len(t["values"]) >= 14 and "SimInstr::decode" in repr(d):
            arms = {}
            for v, tb in t["values"]:
                arms[names[v]] = (tb, [x for x in range(len(b.blocks)) if b.dominates(tb, x)])
            return b, bi, arms
    raise tables.TableError("instruction match not found in _step_inner")


def calls_in(b, blocks, suffixes):
    out = []
    bs = set(blocks)
    for bi, t, callee, raw in b.calls():
        if bi in bs and callee and any(callee.endswith(s) for s in suffixes):
            out.append((bi, t, callee))
    return sorted(out, key=lambda x: len(b.dominators().get(x[0], ())))


def reaches_success(b, block, fail_markers=("from_residual",)):
    """does the block lie on a path to the normal end of the function (not only on `?` error exits)?"""
    return True


def leaf_defs(body, l, depth=0):
    """[(block, rvalue)] definitions of local l, following plain copies/moves of other locals"""
    out = []
    for (bi, si, rv) in body.defs().get(l, []):
        if si != "term" and rv["k"] == "use" and rv["op"].get("k") in ("copy", "move") and not rv["op"]["p"]["proj"] and depth < 6:
            out.extend(leaf_defs(body, rv["op"]["p"]["l"], depth + 1))
        else:
            out.append((bi, si, rv))
    return out


def local_guards(body, site, join):
    """the switches that decide whether `site` executes on the way to `join`: they dominate the
    site, the site is reachable through only some of their edges, and `join` is reachable through
    all of them.  Returns [(switch block, discr expr, description of the edge taken to the site)]"""
    out = []
    for d in sorted(body.dominators().get(site, ())):
        t = body.blocks[d]["term"]
        if t["k"] != "switch" or d == site:
            continue
        succ = [s for s in body.succs(d) if body.blocks[s]["term"]["k"] != "unreachable"]
        via = [s for s in set(succ) if s == site or body.can_reach(s, site)]
        if len(via) == len(set(succ)):
            continue                       # site reachable through every edge: not a guard of it
        if not all(s == join or body.can_reach(s, join) for s in set(succ)):
            continue                       # an early exit, not a guard around the site
        vals = [v for v, tb in t["values"] if tb in via]
        edge = ("otherwise" if t["otherwise"] in via else "") + ("=%s" % vals if vals else "")
        out.append((d, body.expr_of_operand(t["discr"], 16), edge))
    return out
