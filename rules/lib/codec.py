"""Extraction of the binary object-file codec tables from MIR: per chunk tag the ordered list of
wire fields written by BinaryFormat::serialize and read by BinaryFormat::deserialize."""
import re
from . import panics
from .panics import _unwrap_var, interval, _agg_name

SER = "<asm::encoding::BinaryFormat as asm::encoding::ObjFileFormat>::serialize"
DE = "<asm::encoding::BinaryFormat as asm::encoding::ObjFileFormat>::deserialize"


class CodecError(Exception):
    pass


def _depth(b, bi):
    return len(b.dominators().get(bi, ()))


def _model_name(e):
    """which part of the object model a written value comes from: the innermost named ADT field or
    tuple component of the iterated item, or ('len', <that>) for a length"""
    u = _unwrap_var(e)
    if u[0] == "cast":
        return _model_name(u[2])
    if u[0] == "call":
        c = u[1] or ""
        if c.endswith("::len") and u[2]:
            return ("len", _model_name(u[2][0]))
        if ("From<" in c and c.endswith(">::from")) or c.endswith("::as_bytes") or c.endswith("Deref>::deref") or c.endswith("::as_str"):
            return _model_name(u[2][0])
    if u[0] in ("ref", "deref"):
        return _model_name(u[1])
    if u[0] == "field":
        name = u[2]
        base = u[1]
        while isinstance(base, tuple) and base[0] in ("deref", "ref", "var"):
            base = base[2] if base[0] == "var" else base[1]
        if name.isdigit():
            # tuple component of an iterator item: .0 = key, .1 = value; look one level deeper for `item.1.field`
            if isinstance(base, tuple) and base[0] == "downcast":
                return ("item", int(name))
            inner = _model_name(base)
            return inner if inner and inner[0] != "item" else ("item", int(name))
        return ("field", name)
    if u[0] == "downcast":
        return _model_name(u[1])
    return ("?", repr(u)[:60])


def writer_table(F):
    b = F.bodies.get(SER)
    if b is None:
        raise CodecError("BinaryFormat::serialize not found")
    emits = []
    for bi, t, callee, raw in b.calls():
        c = callee or ""
        kind = None
        if c.endswith("Vec::<T, A>::push"):
            kind = "push"
        elif c.endswith("Extend<T>>::extend") and "Vec" in c:
            kind = "extend"
        elif c.endswith("Vec::<T, A>::extend_from_slice"):
            kind = "extend_from_slice"
        if kind is None:
            continue
        recv = repr(b.expr_of_operand(t["args"][0]))
        if "'bytes'" not in recv:
            continue
        a = _unwrap_var(b.expr_of_operand(t["args"][1], depth=14))
        ev = {"block": bi, "line": t["line"], "depth": _depth(b, bi)}
        if kind == "push":
            if a[0] == "const":
                ev.update(kind="const-byte", val=a[1])
            else:
                ev.update(kind="int", ty="u8", endian="-", src=_model_name(a))
        elif kind == "extend":
            if a[0] == "call" and re.search(r"<impl (u\d+|i\d+|usize)>::to_(le|be|ne)_bytes$", a[1] or ""):
                m = re.search(r"<impl (\w+)>::to_(le|be|ne)_bytes$", a[1])
                ev.update(kind="int", ty=m.group(1), endian=m.group(2), src=_model_name(a[2][0]))
            elif a[0] == "repeat":
                iv = interval(a[1])
                ev.update(kind="const-bytes", val=[iv[0]] * int(a[2]) if iv else None)
            elif a[0] == "agg" and a[1] == "array":
                ev.update(kind="const-bytes", val=[(interval(x) or (None,))[0] for x in a[3]])
            else:
                ev.update(kind="unknown", what=repr(a)[:100])
        else:
            ev.update(kind="raw", src=_model_name(a))
        emits.append(ev)
    heads = [e for e in emits if e["kind"] == "const-byte" and not any(
        o is not e and o["kind"] == "const-byte" and b.dominates(o["block"], e["block"]) for o in emits)]
    table = {}
    for h in heads:
        members = [e for e in emits if e is not h and b.dominates(h["block"], e["block"])]
        # inner-loop membership: dominated by the Some edge of an Iterator::next call that the head dominates
        fixed, records = [], []
        for e in sorted(members, key=lambda x: x["depth"]):
            inloop = False
            for ex, lo, hi in panics.dominating_conditions(b, e["block"]):
                u = _unwrap_var(ex)
                if u[0] == "discr" and lo == 1 and hi == 1:
                    inner = _unwrap_var(u[1])
                    if inner[0] == "call" and (inner[1] or "").endswith("Iterator>::next"):
                        # is that next() call below the head?
                        for bj, t2, c2, _ in b.calls():
                            if (c2 or "") == inner[1] and b.dominates(h["block"], bj) and b.dominates(bj, e["block"]):
                                inloop = True
            (records if inloop else fixed).append(e)
        table[h["val"]] = {"fixed": fixed, "records": records, "line": h["line"]}
    return table, b


def reader_table(F):
    b = F.bodies.get(DE)
    if b is None:
        raise CodecError("BinaryFormat::deserialize not found")
    sw = None
    for bi, t in b.terms("switch"):
        if len(t["values"]) >= 4 and "ident_byte" in repr(b.expr_of_operand(t["discr"])):
            sw = t
    if sw is None:
        raise CodecError("chunk-tag switch not found in deserialize")
    table = {}
    for tag, target in sw["values"]:
        events = []
        uses = []
        for bi, t, callee, raw in b.calls():
            if not b.dominates(target, bi):
                continue
            c = callee or ""
            if re.search(r"<impl (\w+)>::from_(le|be|ne)_bytes$", c):
                m = re.search(r"<impl (\w+)>::from_(le|be|ne)_bytes$", c)
                a = repr(b.expr_of_operand(t["args"][0], depth=14))
                mm = re.search(r"asm::encoding::take'", a)
                events.append({"kind": "int", "ty": m.group(1), "endian": m.group(2), "block": bi, "line": t["line"],
                               "depth": _depth(b, bi), "dest": t["dest"]["l"], "from_take": "asm::encoding::take'" in a})
            elif c.endswith("asm::encoding::take_slice"):
                ln = _unwrap_var(b.expr_of_operand(t["args"][1], depth=14))
                events.append({"kind": "slice", "len": ln, "block": bi, "line": t["line"], "depth": _depth(b, bi)})
            elif c.endswith("asm::encoding::map_chunks"):
                f = t["func"]
                m = re.search(r"(\d+)_usize", f.get("fn_args") or "")
                fn = t["args"][1]
                how = None
                if fn.get("k") == "const" and "fn" in fn:
                    how = ("fn", (fn.get("resolved") or {}).get("path") or fn["fn"])
                else:
                    e = _unwrap_var(b.expr_of_operand(fn))
                    if e[0] == "agg" and e[1] == "closure":
                        how = ("closure", e[2][0])
                events.append({"kind": "records", "size": int(m.group(1)) if m else None, "how": how, "block": bi, "line": t["line"], "depth": _depth(b, bi)})
            elif c.endswith("::insert") or c.endswith("String::push_str"):
                uses.append((bi, t, c))
        # aggregates of model structs
        aggs = []
        for x in range(len(b.blocks)):
            if b.dominates(target, x):
                for s in b.blocks[x]["stmts"]:
                    if s["k"] == "assign" and s["rv"]["k"] == "agg" and (s["rv"].get("adt") or "").startswith("asm::"):
                        aggs.append((x, s))
        table[tag] = {"events": sorted(events, key=lambda e: e["depth"]), "uses": uses, "aggs": aggs}
    return table, b, sw


def event_index_of(b, e, events):
    """index of the int event whose from_*_bytes result the expression `e` is (through casts,
    user variables and `!= 0`), else None"""
    u = _unwrap_var(e)
    while True:
        if u[0] == "cast":
            u = _unwrap_var(u[2])
            continue
        if u[0] == "bin" and u[1] in ("Ne",) and interval(u[3]) == (0, 0):
            u = _unwrap_var(u[2])
            continue
        if u[0] == "call" and ("From<" in (u[1] or "") and (u[1] or "").endswith(">::from")) and u[2]:
            u = _unwrap_var(u[2][0])
            continue
        break
    if u[0] == "call" and re.search(r"from_(le|be|ne)_bytes$", u[1] or ""):
        # identify by the take() call nesting depth: the k-th int event in order
        r = repr(u)
        for i, ev in enumerate(events):
            if ev["kind"] == "int":
                ee = _unwrap_var(b.expr_of_local(ev["dest"], 14))
                if repr(ee) == r:
                    return i
    return None
