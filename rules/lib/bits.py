"""R9: bit-provenance domain.  A value is a vector of bit symbols; each symbol is 0, 1,
('x', name, i) = bit i of the symbolic input `name`, ('n', sym) = its negation, or '?' (unknown).
Expression trees (rules/lib/mir.py) of leaf bit-twiddling functions are evaluated in this domain
for concrete values of their *configuration* inputs (bit counts, ranges) and symbolic *data*
inputs, which decides them for all data values without executing anything."""

WIDTH = {"u8": 8, "i8": 8, "u16": 16, "i16": 16, "u32": 32, "i32": 32, "u64": 64, "i64": 64, "usize": 64, "isize": 64, "bool": 1}


class Unanalysable(Exception):
    pass


class BV:
    def __init__(self, bits, signed=False):
        self.bits = list(bits)     # index 0 = least significant
        self.signed = signed

    @property
    def w(self):
        return len(self.bits)

    @staticmethod
    def const(v, ty):
        w = WIDTH[ty]
        v &= (1 << w) - 1
        return BV([(v >> i) & 1 for i in range(w)], ty.startswith("i"))

    @staticmethod
    def sym(name, ty):
        return BV([("x", name, i) for i in range(WIDTH[ty])], ty.startswith("i"))

    def is_const(self):
        return all(b in (0, 1) for b in self.bits)

    def to_int(self, signed=None):
        if not self.is_const():
            raise Unanalysable("value is not a constant")
        v = sum(b << i for i, b in enumerate(self.bits))
        s = self.signed if signed is None else signed
        if s and self.bits[-1] == 1:
            v -= 1 << self.w
        return v

    def resize(self, ty):
        w = WIDTH[ty]
        bits = self.bits[:w]
        ext = self.bits[-1] if self.signed else 0
        bits += [ext] * (w - len(bits))
        return BV(bits, ty.startswith("i"))

    def __repr__(self):
        def s(b):
            if b in (0, 1):
                return str(b)
            if b == "?":
                return "?"
            if b[0] == "x":
                return "%s%d" % (b[1], b[2])
            return "~" + s(b[1])
        return "[" + " ".join(s(b) for b in reversed(self.bits)) + "]"


def _not(b):
    if b in (0, 1):
        return 1 - b
    if b == "?":
        return "?"
    if b[0] == "n":
        return b[1]
    return ("n", b)


def _and(a, b):
    if a == 0 or b == 0:
        return 0
    if a == 1:
        return b
    if b == 1:
        return a
    if a == b:
        return a
    if _not(a) == b:
        return 0
    return "?"


def _or(a, b):
    if a == 1 or b == 1:
        return 1
    if a == 0:
        return b
    if b == 0:
        return a
    if a == b:
        return a
    if _not(a) == b:
        return 1
    return "?"


def _xor(a, b):
    if a in (0, 1) and b in (0, 1):
        return a ^ b
    if a == 0:
        return b
    if b == 0:
        return a
    if a == 1:
        return _not(b)
    if b == 1:
        return _not(a)
    if a == b:
        return 0
    return "?"


def _key(e):
    if e[0] in ("arg", "local"):
        return e[2] or "#%d" % e[1]
    if e[0] == "var":
        return e[1]
    if e[0] == "field":
        return _key(e[1]) + "." + e[2]
    if e[0] in ("deref", "ref"):
        return _key(e[1])
    raise Unanalysable("no key for %r" % (e[0],))


def ev(e, env, ty_hint=None):
    """evaluate an expression tree; env maps variable names / place keys to BV"""
    k = e[0]
    if k == "const":
        if e[2] not in WIDTH:
            raise Unanalysable("constant of type %s" % e[2])
        return BV.const(e[1], e[2])
    if k == "var":
        if e[1] in env:
            return env[e[1]]
        return ev(e[2], env, ty_hint)
    if k in ("arg", "local", "field", "deref", "ref"):
        if k == "field" and e[1][0] == "bin" and e[1][1].endswith("WithOverflow") and e[2] == "0":
            return _arith(e[1][1][: -len("WithOverflow")], e[1], env)
        try:
            key = _key(e)
        except Unanalysable:
            key = None
        if key is not None and key in env:
            return env[key]
        if k in ("deref", "ref"):
            return ev(e[1], env, ty_hint)
        raise Unanalysable("unbound input %s" % (key or e[0]))
    if k == "cast":
        v = ev(e[2], env)
        if e[1] not in WIDTH:
            raise Unanalysable("cast to %s" % e[1])
        return v.resize(e[1])
    if k == "un":
        v = ev(e[2], env)
        if e[1] == "Not":
            return BV([_not(b) for b in v.bits], v.signed)
        raise Unanalysable("unary %s" % e[1])
    if k == "bin":
        return _arith(e[1], e, env)
    if k == "call":
        c = e[1] or ""
        if "From<" in c and c.endswith(">::from") and e[2]:
            v = ev(e[2][0], env)
            if len(e) > 4 and e[4] in WIDTH:
                return v.resize(e[4])
        raise Unanalysable("call to %s" % c)
    raise Unanalysable("node %s" % k)


def _arith(op, e, env):
    a = ev(e[2], env)
    b = ev(e[3], env)
    if op in ("BitAnd", "BitOr", "BitXor"):
        if a.w != b.w:
            raise Unanalysable("width mismatch")
        f = {"BitAnd": _and, "BitOr": _or, "BitXor": _xor}[op]
        return BV([f(x, y) for x, y in zip(a.bits, b.bits)], a.signed)
    if op in ("Shl", "Shr"):
        n = b.to_int(False)
        if n < 0 or n >= a.w:
            raise Unanalysable("shift by %d of a %d-bit value" % (n, a.w))
        if op == "Shl":
            return BV([0] * n + a.bits[: a.w - n], a.signed)
        fill = a.bits[-1] if a.signed else 0
        return BV(a.bits[n:] + [fill] * n, a.signed)
    if op in ("Add", "Sub", "Mul"):
        if a.is_const() and b.is_const():
            x, y = a.to_int(), b.to_int()
            r = {"Add": x + y, "Sub": x - y, "Mul": x * y}[op]
            lo = -(1 << (a.w - 1)) if a.signed else 0
            hi = (1 << (a.w - 1)) - 1 if a.signed else (1 << a.w) - 1
            if not (lo <= r <= hi):
                raise Unanalysable("constant arithmetic overflows (%d %s %d)" % (x, op, y))
            return BV([(r >> i) & 1 for i in range(a.w)], a.signed)
        raise Unanalysable("%s on symbolic operands" % op)
    raise Unanalysable("operator %s" % op)


def ret_expr(body, depth=14):
    """the single expression returned by a body (fails when local 0 has several definitions)"""
    ds = body.defs().get(0, [])
    if len(ds) != 1 or body.defs().get(("partial", 0)):
        raise Unanalysable("%s: return place has %d definitions" % (body.path, len(ds)))
    bi, si, rv = ds[0]
    if si == "term":
        return body.expr_of_call(rv, depth, body.local_ty(0))
    return body.expr_of_rvalue(rv, depth)


# ------------------------------------------------------------------------------------------
# flow-sensitive evaluation of one CFG path of a small function (locals and `(*arg).field` places)

def _place_key(p):
    proj = []
    for e in p["proj"]:
        if e == "deref":
            proj.append("*")
        elif isinstance(e, dict) and "f" in e:
            proj.append("." + str(e.get("name", e["f"])))
        else:
            raise Unanalysable("place projection %r" % (e,))
    return (p["l"], tuple(proj))


def _ty_of_place(body, p):
    if not p["proj"]:
        return body.local_ty(p["l"])
    last = p["proj"][-1]
    if isinstance(last, dict) and "ty" in last:
        return last["ty"]
    raise Unanalysable("type of place")


def exec_path(body, path, env):
    """env: {place key: BV}.  Executes the statements and calls of the blocks in `path` (a list of
    block indices forming a CFG path) and returns the final env.  Supported calls: From<bool|u8>
    for u16 (zero extension).  SwitchInt terminators are passed through (the caller chose the path)."""
    def rd_op(op):
        if op["k"] == "const":
            if op.get("ty") == "()":
                return ("unit",)
            if "val" not in op or op["ty"] not in WIDTH:
                raise Unanalysable("constant operand of type %s" % op.get("ty"))
            return BV.const(op["val"], op["ty"])
        k = _place_key(op["p"])
        if k not in env:
            raise Unanalysable("read of unbound place %r" % (k,))
        return env[k]
    for bi in path:
        blk = body.blocks[bi]
        for s in blk["stmts"]:
            if s["k"] != "assign":
                continue
            rv = s["rv"]
            k = rv["k"]
            dst = _place_key(s["p"])
            if k == "use":
                env[dst] = rd_op(rv["op"])
            elif k == "bin":
                a, b2 = rd_op(rv["l"]), rd_op(rv["r"])
                op = rv["op"]
                if not isinstance(a, BV) or not isinstance(b2, BV):
                    env[dst] = BV(["?"], False) if op in ("Eq", "Ne", "Lt", "Le", "Gt", "Ge") else ("opaque",)
                    continue
                wo = op.endswith("WithOverflow")
                if wo:
                    op = op[: -len("WithOverflow")]
                fake = ("bin", op, ("var", "_a", None), ("var", "_b", None), rv.get("lty"))
                if op in ("Eq", "Ne", "Lt", "Le", "Gt", "Ge"):
                    if a.is_const() and b2.is_const():
                        x, y = a.to_int(), b2.to_int()
                        r = {"Eq": x == y, "Ne": x != y, "Lt": x < y, "Le": x <= y, "Gt": x > y, "Ge": x >= y}[op]
                        env[dst] = BV.const(int(r), "bool")
                    else:
                        env[dst] = BV(["?"], False)
                    env[dst + ("cmp",)] = (op, a, b2)
                else:
                    r = _arith(op, fake, {"_a": a, "_b": b2})
                    if wo:
                        env[(dst[0], dst[1] + (".0",))] = r
                        env[(dst[0], dst[1] + (".1",))] = BV.const(0, "bool")
                    else:
                        env[dst] = r
            elif k == "un":
                v = rd_op(rv["x"])
                if rv["op"] == "Not":
                    env[dst] = BV([_not(b3) for b3 in v.bits], v.signed)
                else:
                    raise Unanalysable("unary %s" % rv["op"])
            elif k == "cast":
                v = rd_op(rv["op"])
                if rv["ty"] not in WIDTH:
                    raise Unanalysable("cast to %s" % rv["ty"])
                env[dst] = v.resize(rv["ty"])
            elif k in ("ref", "rawptr"):
                env[dst] = ("ref", _place_key(rv["p"]))
            else:
                raise Unanalysable("statement %s" % k)
        t = blk["term"]
        if t["k"] == "call":
            f = t["func"]
            callee = (f.get("resolved") or {}).get("path") or f.get("fn") or ""
            dst = _place_key(t["dest"])
            if "From<" in callee and callee.endswith(">::from") and t["args"]:
                v = rd_op(t["args"][0])
                ty = _ty_of_place(body, t["dest"])
                env[dst] = v.resize(ty)
            else:
                env[dst] = ("call", callee, [t["args"]])
    return env


def simple_paths(body, limit=16):
    """all acyclic CFG paths from block 0 to a return, as block lists (fails when there are more than `limit`)"""
    out = []
    st = [[0]]
    while st:
        p = st.pop()
        t = body.blocks[p[-1]]["term"]
        if t["k"] == "return":
            out.append(p)
            if len(out) > limit:
                raise Unanalysable("too many paths")
            continue
        for s in body.succs(p[-1]):
            if s not in p:
                st.append(p + [s])
    return out
