"""Tables of the parser and the printer, extracted from MIR.

keyword_rows      Ident::from_str           string pattern -> Ident variant built (+ scrutinee provenance)
ident_display     Display for Ident         Ident variant -> text written
instr_parse_rows  Parse for AsmInstr        Ident variant -> AsmInstr variant built, constants, the ordered Parser::parse::<T> calls
                                            of the arm and, per field, which of those calls it comes from
directive_parse_rows  Parse for Directive   string pattern -> Directive variant built, ordered parse calls
display_rows      Display for AsmInstr / Directive: variant -> the text segments written (format templates decoded by fmtx)
"""
import re
from . import nf, shape, fmtx
from .panics import _unwrap_var

IDENT = "parse::lex::Ident"
ASM = "ast::asm::AsmInstr"
DIRECTIVE = "ast::asm::Directive"


class ParseTableError(Exception):
    pass


def variants(F, adt):
    a = F.adts.get(adt)
    if a is None:
        raise ParseTableError("ADT %s not found" % adt)
    return [v["name"] for v in a["variants"]]


def norm_ty(t):
    """`ast::Offset<u16, 8_u32>` -> `ast::Offset<u16, 8>`; strips the outer brackets of fn_args"""
    t = t.strip()
    if t.startswith("[") and t.endswith("]"):
        t = t[1:-1]
    return re.sub(r"(\d+)_u32", r"\1", t)


def origin_call(body, op, limit=12):
    """(block, term) of the call whose result reaches operand `op` unchanged (through moves and the `?` operator)"""
    cur = op
    for _ in range(limit):
        if cur.get("k") not in ("copy", "move"):
            return None
        l = cur["p"]["l"]
        ds = body.defs().get(l, [])
        if len(ds) != 1:
            return None
        bi, si, rv = ds[0]
        if si == "term":
            c = (rv["func"].get("resolved") or {}).get("path") or rv["func"].get("fn") or ""
            if c.endswith("Try>::branch"):
                cur = rv["args"][0]
                continue
            return (bi, rv)
        if rv["k"] == "use":
            cur = rv["op"]
            continue
        if rv["k"] == "cast":
            cur = rv["op"]
            continue
        return None
    return None


def _arm_values(body, block, want):
    """labels of the switch decisions (on discriminants satisfying `want`) under which `block` is reached"""
    pcs = nf.path_conditions(body, block, want)
    out = set()
    for pc in pcs or []:
        for d, lab in pc:
            out.add((d, lab))
    return out


def keyword_rows(F):
    """[(pattern string, Ident variant built, scrutinee nf)] from `Ident::from_str`"""
    b = F.bodies.get("<%s as std::str::FromStr>::from_str" % IDENT)
    if b is None:
        raise ParseTableError("Ident::from_str not found")
    names = variants(F, IDENT)
    rows = []
    xb = nf.XB(b)
    # every comparison `eq(scrutinee, "KW")` and the block its true edge leads to
    for bi, t, c, _ in b.calls():
        if shape.short_callee(c) in ("eq", "PartialEq::eq") and len(t["args"]) == 2:
            kw = fmtx.const_str(F, b, xb.expr_of_operand(t["args"][1], 6, (bi, "term")))
            scr = nf.pp_x(xb.expr_of_operand(t["args"][0], 12, (bi, "term")))
            if kw is None:
                continue
            # the switch on the result
            tgt = t.get("target")
            sw = b.blocks[tgt]["term"] if tgt is not None else None
            if not sw or sw["k"] != "switch":
                raise ParseTableError("comparison with %r is not switched on" % kw)
            true_edge = sw["otherwise"] if any(v == 0 for v, _ in sw["values"]) else [tb for v, tb in sw["values"] if v == 1][0]
            # the Ident aggregate built on that edge (first aggregate reachable without another comparison)
            built = None
            seen = set()
            st = [true_edge]
            while st and built is None:
                x = st.pop()
                if x in seen:
                    continue
                seen.add(x)
                for s in b.blocks[x]["stmts"]:
                    if s["k"] == "assign" and s["rv"]["k"] == "agg" and s["rv"].get("adt") == IDENT:
                        built = s["rv"]["variant"]
                        break
                if built is None and b.blocks[x]["term"]["k"] in ("goto",):
                    st.extend(b.succs(x))
            rows.append((kw, built, scr))
    # the default arm
    default = [s["rv"]["variant"] for bi, si, s in b.stmts() if s["k"] == "assign" and s["rv"]["k"] == "agg" and s["rv"].get("adt") == IDENT and s["rv"]["variant"] == "Label"]
    return rows, default, names


def ident_display(F):
    """{Ident variant: text written} from Display for Ident"""
    b = F.bodies.get("<%s as std::fmt::Display>::fmt" % IDENT)
    if b is None:
        raise ParseTableError("Display for Ident not found")
    names = variants(F, IDENT)
    out = {}
    for ev in fmtx.write_events(F, b):
        vals = _arm_values(b, ev["block"], lambda s: s.startswith("discr("))
        labs = set(lab for d, lab in vals)
        for lab in labs:
            if lab.isdigit():
                out.setdefault(names[int(lab)], []).append(ev["segs"])
    return out


def _parse_calls(body):
    out = {}
    for bi, t, c, _ in body.calls():
        if (c or "") == "parse::Parser::parse" or (c or "").endswith("Parser::parse"):
            out[bi] = ("parse", norm_ty(t["func"].get("fn_args", "?")))
        elif (c or "").endswith("Parser::match_"):
            out[bi] = ("match", norm_ty(t["func"].get("fn_args", "?")))
        elif (c or "").endswith("Parser::peek"):
            out[bi] = ("peek", "")
    return out


def _rows(F, body, adt, arm_of):
    """rows for every aggregate of `adt` built in `body`: arm labels, variant, fields, ordered parse calls"""
    pcs = _parse_calls(body)
    rows = []
    for bi, si, s in body.stmts():
        if not (s["k"] == "assign" and s["rv"]["k"] == "agg" and s["rv"].get("adt") == adt):
            continue
        arm = arm_of(bi)
        # parse calls of this arm = calls whose block can reach the aggregate and is dominated by the arm's entry decision
        calls = sorted((b2 for b2 in pcs if b2 != bi and body.can_reach(b2, bi) and arm["entry"] is not None and body.dominates(arm["entry"], b2)),
                       key=lambda x: sum(1 for y in pcs if body.dominates(y, x)))
        # order by dominance where possible (straight-line arms); conditional calls (NOP's optional operand) keep CFG order
        seq = [(b2,) + pcs[b2] + (body.dominates(b2, bi),) for b2 in calls]
        fields = []
        for f in s["rv"]["fields"]:
            if f.get("k") == "const" and "val" in f:
                fields.append(("const", f["val"]))
                continue
            oc = origin_call(body, f)
            if oc is not None and oc[0] in pcs:
                fields.append(("parse", pcs[oc[0]][1], [x[0] for x in seq].index(oc[0]) if oc[0] in [x[0] for x in seq] else None))
            else:
                fields.append(("other", nf.pp_x(nf.XB(body).expr_of_operand(f, 14, (bi, si)))))
        rows.append({"arm": arm["labels"], "variant": s["rv"]["variant"], "fields": fields, "seq": [(k, ty, dom) for _, k, ty, dom in seq], "line": s["line"], "block": bi})
    return rows


def instr_parse_rows(F):
    b = F.bodies.get("<%s as parse::Parse>::parse" % ASM)
    if b is None:
        raise ParseTableError("Parse for AsmInstr not found")
    names = variants(F, IDENT)
    # the switch on the opcode identifier
    sw = [(bi, t) for bi, t in b.terms("switch") if len(t["values"]) >= 20]
    if len(sw) != 1:
        raise ParseTableError("opcode switch not found (%d candidates)" % len(sw))
    sbi, st = sw[0]
    discr = nf.pp_x(nf.XB(b).expr_of_operand(st["discr"], 10, (sbi, "term")))
    targets = {}
    for v, tb in st["values"]:
        targets.setdefault(tb, []).append(names[v] if v < len(names) else str(v))

    def arm_of(block):
        labs = []
        entry = None
        for tb, ns in targets.items():
            if tb == block or b.dominates(tb, block):
                labs += ns
                entry = tb
        return {"labels": sorted(labs), "entry": entry}
    return _rows(F, b, ASM, arm_of), discr, sorted(n for ns in targets.values() for n in ns)


def directive_parse_rows(F):
    b = F.bodies.get("<%s as parse::Parse>::parse" % DIRECTIVE)
    if b is None:
        raise ParseTableError("Parse for Directive not found")
    xb = nf.XB(b)
    arms = {}          # true-edge block -> keyword
    scr = set()
    for bi, t, c, _ in b.calls():
        if shape.short_callee(c) in ("eq", "PartialEq::eq") and len(t["args"]) == 2:
            kw = fmtx.const_str(F, b, xb.expr_of_operand(t["args"][1], 6, (bi, "term")))
            if kw is None:
                continue
            scr.add(nf.pp_x(xb.expr_of_operand(t["args"][0], 12, (bi, "term"))))
            sw = b.blocks[t["target"]]["term"]
            true_edge = sw["otherwise"] if any(v == 0 for v, _ in sw["values"]) else [tb for v, tb in sw["values"] if v == 1][0]
            arms[true_edge] = kw

    def arm_of(block):
        labs = []
        entry = None
        for tb, kw in arms.items():
            if tb == block or b.dominates(tb, block):
                labs.append(kw)
                entry = tb
        return {"labels": sorted(labs), "entry": entry}
    return _rows(F, b, DIRECTIVE, arm_of), sorted(scr), sorted(arms.values())


def display_rows(F, adt):
    """{variant: [segments of every write in the arm, in source order]} for `impl Display for <adt>`"""
    b = F.bodies.get("<%s as std::fmt::Display>::fmt" % adt)
    if b is None:
        raise ParseTableError("Display for %s not found" % adt)
    names = variants(F, adt)
    sw = [(bi, t) for bi, t in b.terms("switch") if len(t["values"]) + 1 >= len(names) - 1 and nf.pp_x(nf.XB(b).expr_of_operand(t["discr"], 6, (bi, "term"))).startswith("discr(arg1")]
    if len(sw) != 1:
        raise ParseTableError("variant switch of Display for %s not found" % adt)
    sbi, st = sw[0]
    tg = {}
    for v, tb in st["values"]:
        tg[tb] = names[v]
    covered = set(tg.values())
    rest = [n for n in names if n not in covered]
    if len(rest) == 1 and body_block_ok(b, st["otherwise"]):
        tg[st["otherwise"]] = rest[0]
    out = {n: [] for n in names}
    evs = fmtx.write_events(F, b)
    for ev in sorted(evs, key=lambda e: (e["line"], e["block"])):
        owner = [n for tb, n in tg.items() if tb == ev["block"] or b.dominates(tb, ev["block"])]
        if len(owner) != 1:
            raise ParseTableError("write at line %s belongs to %d arms" % (ev["line"], len(owner)))
        conds = sorted((d, lab) for d, lab in _arm_values(b, ev["block"], lambda s: not s.startswith("discr(")))
        out[owner[0]].append({"segs": ev["segs"], "error": ev["error"], "line": ev["line"], "conds": conds, "block": ev["block"]})
    return out, b


def body_block_ok(b, bi):
    return b.blocks[bi]["term"]["k"] != "unreachable"


def fields_of(F, adt):
    return {v["name"]: [norm_ty(f.get("ty", "?")) for f in v.get("fields", [])] for v in F.adts[adt]["variants"]}
