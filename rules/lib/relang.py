"""Language facts about the token regexes (rule family R10).

A pattern is a list of atoms {set: [(lo,hi)], q: ''|'?'|'*'|'+'} as produced by lexattrs.parse_regex
(the subset the `logos` attributes of this crate use: classes, literals, `? * +`, concatenation).
Languages are compared exactly (subset construction over the partition of the code-point range induced
by all class boundaries), never by comparing regex text: a fact like "#?[0-9]+ is inside the union of the
Unsigned patterns" survives any rewrite of the attribute that keeps the language large enough, and fails
when a rewrite loses strings.
"""
from . import lexattrs

MAXC = 0x10FFFF


def atoms(src):
    return lexattrs.parse_regex(src)


def _partition(patterns):
    pts = {0, MAXC + 1}
    for p in patterns:
        for a in p:
            for lo, hi in a["set"]:
                pts.add(lo)
                pts.add(hi + 1)
    pts = sorted(pts)
    return [(pts[i], pts[i + 1] - 1) for i in range(len(pts) - 1)]


def _in(cls, st):
    lo, hi = cls
    return any(a <= lo and hi <= b for a, b in st)


class NFA:
    """positions 0..n; position i = before atom i; n = accept"""

    def __init__(self, pat):
        self.p = pat
        self.n = len(pat)

    def closure(self, S):
        S = set(S)
        st = list(S)
        while st:
            i = st.pop()
            if i < self.n and self.p[i]["q"] in ("?", "*") and i + 1 not in S:
                S.add(i + 1)
                st.append(i + 1)
        return frozenset(S)

    def start(self):
        return self.closure({0})

    def step(self, S, cls):
        out = set()
        for i in S:
            if i < self.n and _in(cls, self.p[i]["set"]):
                q = self.p[i]["q"]
                out.add(i + 1)
                if q in ("*", "+"):
                    out.add(i)
        return self.closure(out)

    def accepting(self, S):
        return self.n in S


class Union:
    def __init__(self, pats):
        self.ns = [NFA(p) for p in pats]

    def start(self):
        return tuple(n.start() for n in self.ns)

    def step(self, S, cls):
        return tuple(n.step(s, cls) for n, s in zip(self.ns, S))

    def accepting(self, S):
        return any(n.accepting(s) for n, s in zip(self.ns, S))

    def dead(self, S):
        return all(not s for s in S)


def included(a_pats, b_pats):
    """L(union a_pats) subset of L(union b_pats)?  -> (bool, witness string or None)"""
    A, B = Union(a_pats), Union(b_pats)
    part = _partition(list(a_pats) + list(b_pats))
    start = (A.start(), B.start())
    seen = {start: None}
    dq = [start]
    while dq:
        cur = dq.pop(0)
        sa, sb = cur
        if A.accepting(sa) and not B.accepting(sb):
            w = []
            x = cur
            while seen[x] is not None:
                x, c = seen[x]
                w.append(c)
            return False, "".join(chr(c) if 32 <= c < 127 else "\\u{%x}" % c for c in reversed(w))
        for cls in part:
            na = A.step(sa, cls)
            if A.dead(na):
                continue
            nb = B.step(sb, cls)
            nxt = (na, nb)
            if nxt not in seen:
                seen[nxt] = (cur, cls[0])
                dq.append(nxt)
    return True, None


def equal(a_pats, b_pats):
    ok1, w1 = included(a_pats, b_pats)
    ok2, w2 = included(b_pats, a_pats)
    return ok1 and ok2, (w1 if not ok1 else w2)


def concat(pat, extra):
    return list(pat) + list(extra)


def closed_under_append(pats, cls_pat, within=None):
    """every string of L(pats) followed by one or more characters of the class stays inside L(within or pats)"""
    ext = [concat(p, cls_pat) for p in pats]
    return included(ext, within or pats)


def first_sets(pats):
    """the set of possible first characters (as intervals) of non-empty strings of the languages"""
    out = []
    for p in pats:
        for a in p:
            out.extend(a["set"])
            if a["q"] in ("", "+"):
                break
    return lexattrs._norm(out)
