"""format_args! as data: decodes the template byte strings that rustc (1.9x) passes to
`core::fmt::Arguments::new` (layout documented in library/core/src/fmt/mod.rs: literal pieces
prefixed by their length, placeholders 0b11______ with optional flags/width/precision/arg index,
terminated by 0) and pairs every placeholder with the `Argument::new_*` call that feeds it.

A write site becomes a list of segments
    ("lit", text)
    ("val", trait, value, opts)   trait in display|debug|upper_hex|lower_hex|..., value = normal form of the
                                  formatted expression (named constants are folded to ("lit", text)),
                                  opts = {fill, zero, width, align, precision, alt, plus} (width may be ("arg", nf))
so that rules can compare *what is printed* (radix, padding, separators) with what a reader accepts,
independent of how the format string is spelled in the source.
"""
from . import nf, shape
from .panics import _unwrap_var


class FmtError(Exception):
    pass


def decode_template(b):
    """bytes -> [("lit", str) | ("ph", {flags, width, precision, arg, width_indirect, precision_indirect})]"""
    out = []
    i = 0
    n = len(b)
    while True:
        if i >= n:
            raise FmtError("template not terminated")
        c = b[i]
        i += 1
        if c == 0:
            if i != n:
                raise FmtError("bytes after the end marker")
            return out
        if c < 0x80:
            out.append(("lit", b[i:i + c].decode("utf-8")))
            i += c
        elif c == 0x80:
            ln = b[i] | (b[i + 1] << 8)
            i += 2
            out.append(("lit", b[i:i + ln].decode("utf-8")))
            i += ln
        elif c >= 0xC0:
            ph = {"flags": None, "width": None, "precision": None, "arg": None, "width_indirect": bool(c & 16), "precision_indirect": bool(c & 32)}
            if c & 1:
                ph["flags"] = int.from_bytes(b[i:i + 4], "little")
                i += 4
            if c & 2:
                ph["width"] = int.from_bytes(b[i:i + 2], "little")
                i += 2
            if c & 4:
                ph["precision"] = int.from_bytes(b[i:i + 2], "little")
                i += 2
            if c & 8:
                ph["arg"] = int.from_bytes(b[i:i + 2], "little")
                i += 2
            out.append(("ph", ph))
        else:
            raise FmtError("unknown template byte 0x%02x" % c)


def _opts(ph, args):
    fl = ph["flags"]
    o = {"fill": " ", "zero": False, "width": None, "align": None, "precision": None, "alt": False, "plus": False}
    if fl is not None:
        o["fill"] = chr(fl & 0x1FFFFF)
        o["plus"] = bool(fl & (1 << 21))
        o["alt"] = bool(fl & (1 << 23))
        o["zero"] = bool(fl & (1 << 24))
        al = (fl >> 29) & 3
        o["align"] = {0: "<", 1: ">", 2: "^", 3: None}[al]
    if ph["width"] is not None:
        o["width"] = ("arg", args[ph["width"]][1]) if ph["width_indirect"] else ph["width"]
    if ph["precision"] is not None:
        o["precision"] = ("arg", args[ph["precision"]][1]) if ph["precision_indirect"] else ph["precision"]
    return o


def const_str(F, body, op_expr):
    """text of a `&str` operand that is a literal, a named constant or a promoted reference to one; else None"""
    e = _unwrap_var(op_expr)
    while isinstance(e, tuple) and e and e[0] in ("ref", "deref"):
        e = _unwrap_var(e[1])
    if isinstance(e, tuple) and e:
        if e[0] == "str":
            return e[1]
        if e[0] == "promoted":
            idx = e[1]
            if idx < len(body.promoted):
                pb = body.promoted[idx]
                for blk in pb.blocks:
                    for s in blk["stmts"]:
                        if s["k"] == "assign" and s["rv"]["k"] == "use" and s["rv"]["op"].get("k") == "const":
                            op = s["rv"]["op"]
                            if "str" in op:
                                return op["str"]
                            if "uneval" in op and op["uneval"] in F.consts and "str" in F.consts[op["uneval"]]:
                                return F.consts[op["uneval"]]["str"]
        if e[0] == "constx" and len(e) > 1 and e[1] in F.consts and "str" in F.consts[e[1]]:
            return F.consts[e[1]]["str"]
    return None


def _template_bytes(body, op, at):
    """the `bytes` of the &[u8; N] constant behind an operand"""
    seen = 0
    cur = op
    while seen < 6:
        seen += 1
        if cur.get("k") == "const":
            if "bytes" in cur:
                return bytes.fromhex(cur["bytes"])
            return None
        if cur.get("k") in ("copy", "move"):
            l = cur["p"]["l"]
            ds = body.defs().get(l, [])
            if len(ds) != 1 or ds[0][1] == "term":
                return None
            rv = ds[0][2]
            if rv["k"] == "use":
                cur = rv["op"]
            elif rv["k"] in ("ref", "rawptr"):
                cur = {"k": "copy", "p": {"l": rv["p"]["l"], "proj": []}}
            elif rv["k"] == "cast":
                cur = rv["op"]
            else:
                return None
        else:
            return None
    return None


TRAITS = {"new_display": "display", "new_debug": "debug", "new_upper_hex": "upper_hex", "new_lower_hex": "lower_hex", "new_octal": "octal",
          "new_binary": "binary", "new_upper_exp": "upper_exp", "new_lower_exp": "lower_exp", "new_pointer": "pointer", "from_usize": "usize"}


def segments_of_arguments(F, body, e, term_block):
    """e: position-aware expression tree of a `fmt::Arguments` value -> list of segments, or raises FmtError"""
    u = _unwrap_var(e)
    if u[0] != "call":
        raise FmtError("not a format_args value: %s" % shape.pp(u)[:80])
    sc = shape.short_callee(u[1])
    if sc in ("Arguments::from_str", "Arguments::new_const"):
        s = const_str(F, body, u[2][0])
        if s is None:
            raise FmtError("unresolved literal")
        return [("lit", s)]
    if sc != "Arguments::new":
        raise FmtError("unknown Arguments constructor %s" % sc)
    raise FmtError("needs raw operands")


def write_events(F, body):
    """every `write_fmt`/`write_str`/`write_char`/`push_str` call of a body, in block order:
    {block, line, kind, segs}.  Segments as described in the module docstring."""
    xb = nf.XB(body)
    out = []
    # index Arguments::new calls by destination local
    by_dest = {}
    for bi, t in body.terms("call"):
        d = t.get("dest")
        if d and not d["proj"]:
            by_dest[d["l"]] = (bi, t)
    for bi, t, c, _ in body.calls():
        sc = shape.short_callee(c)
        if sc in ("Write::write_fmt", "write_fmt", "Formatter::write_fmt", "String::write_fmt"):
            a = t["args"][1]
            src = by_dest.get(a["p"]["l"]) if a.get("k") in ("copy", "move") else None
            segs = None
            err = None
            try:
                if src is None:
                    raise FmtError("Arguments value is not the result of a call")
                sbi, st = src
                sname = shape.short_callee((st["func"].get("resolved") or {}).get("path") or st["func"].get("fn"))
                if sname in ("Arguments::from_str", "Arguments::new_const"):
                    s = const_str(F, body, xb.expr_of_operand(st["args"][0], 8, (sbi, "term")))
                    if s is None:
                        raise FmtError("unresolved literal")
                    segs = [("lit", s)]
                elif sname == "Arguments::new":
                    tb = _template_bytes(body, st["args"][0], (sbi, "term"))
                    if tb is None:
                        raise FmtError("template bytes not found")
                    parts = decode_template(tb)
                    arr = _unwrap_var(xb.expr_of_operand(st["args"][1], 30, (sbi, "term")))
                    while arr[0] in ("ref", "deref"):
                        arr = _unwrap_var(arr[1])
                    if arr[0] != "agg" or arr[1] != "array":
                        raise FmtError("argument array not found: %s" % shape.pp(arr)[:60])
                    args = []
                    for el in arr[3]:
                        el = _unwrap_var(el)
                        if el[0] != "call" or shape.short_callee(el[1]).split("::")[-1] not in TRAITS:
                            raise FmtError("unknown argument constructor %s" % shape.pp(el)[:60])
                        tr = TRAITS[shape.short_callee(el[1]).split("::")[-1]]
                        cs = const_str(F, body, el[2][0])
                        args.append((tr, ("lit", cs) if cs is not None and tr == "display" else nf.pp_x(el[2][0])))
                    segs = []
                    nxt = 0
                    for kind, p in parts:
                        if kind == "lit":
                            segs.append(("lit", p))
                        else:
                            idx = p["arg"] if p["arg"] is not None else nxt
                            nxt = idx + 1
                            tr, val = args[idx]
                            o = _opts(p, args)
                            if isinstance(val, tuple) and val[0] == "lit" and o["width"] is None:
                                segs.append(("lit", val[1]))
                            else:
                                segs.append(("val", tr, val, o))
                else:
                    raise FmtError("unknown Arguments constructor %s" % sname)
            except (FmtError, IndexError, KeyError) as ex:
                err = str(ex)
            out.append({"block": bi, "line": t["line"], "kind": "fmt", "segs": merge(segs) if segs is not None else None, "error": err})
        elif sc in ("Write::write_str", "write_str", "Formatter::write_str", "String::push_str", "Write::write_char", "write_char", "String::push", "Formatter::write_char"):
            e = xb.expr_of_operand(t["args"][1], 20, (bi, "term"))
            cs = const_str(F, body, e)
            if cs is not None:
                segs = [("lit", cs)]
            else:
                u = _unwrap_var(e)
                if u[0] == "const" and u[2] == "char":
                    segs = [("lit", chr(u[1]))]
                else:
                    segs = [("val", "str", nf.pp_x(e), {})]
            out.append({"block": bi, "line": t["line"], "kind": "str", "segs": segs, "error": None})
    return out


def merge(segs):
    """adjacent literals joined"""
    out = []
    for s in segs:
        if s[0] == "lit" and out and out[-1][0] == "lit":
            out[-1] = ("lit", out[-1][1] + s[1])
        else:
            out.append(s)
    return out


def show(segs):
    if segs is None:
        return "<undecoded>"
    r = []
    for s in segs:
        if s[0] == "lit":
            r.append(repr(s[1]))
        else:
            o = s[3]
            spec = ""
            if o:
                if o.get("align"):
                    spec += (o["fill"] if o["fill"] != " " else "") + o["align"]
                if o.get("plus"):
                    spec += "+"
                if o.get("alt"):
                    spec += "#"
                if o.get("zero"):
                    spec += "0"
                if o.get("width") is not None:
                    spec += str(o["width"]) if not isinstance(o["width"], tuple) else "w$"
                if o.get("precision") is not None:
                    spec += "." + (str(o["precision"]) if not isinstance(o["precision"], tuple) else "p$")
            r.append("{%s:%s%s}" % (s[2] if not isinstance(s[2], tuple) else repr(s[2][1]), spec, {"display": "", "debug": "?", "upper_hex": "X", "lower_hex": "x", "usize": "usize", "str": "s"}.get(s[1], s[1])))
    return " ".join(r)
