"""Table extraction from MIR: encoder rows (SimInstr::encode), decoder rows (SimInstr::decode),
opcode table, alias expansion (AsmInstr::into_sim_instr), disassembly map.  A table is a set of
rows of (field, value) facts; rules compare tables as sets, never by position or text."""
import re
from . import panics
from .panics import _unwrap_var, interval, _agg_name

SIM = "ast::sim::SimInstr"


class TableError(Exception):
    pass


def variant_names(F, adt):
    a = F.adts.get(adt)
    if a is None:
        raise TableError("ADT %s not found" % adt)
    return [v["name"] for v in a["variants"]]


def const_range(e):
    an, fields = _agg_name(e)
    if an == "std::ops::Range" and len(fields) == 2:
        a, b = interval(fields[0]), interval(fields[1])
        if a and b and a[0] == a[1] and b[0] == b[1]:
            return (a[0], b[0])
    return None


ROOT_VARS = ("si", "instr")   # user variables that play the role of the matched value (`match si { .. }`)


def find_self_fields(e, depth=0):
    """the chain of (variant, field index, type) projections from the matched `self` down to
    the leaf that this value reads, e.g. [('ADD','2','ast::ImmOrReg<5>'), ('Imm','0','ast::Offset<i16, 5>')]"""
    while isinstance(e, tuple) and e and e[0] == "var":
        if e[1] in ROOT_VARS:
            return []
        e = e[2]
    if not isinstance(e, tuple) or depth > 25:
        return None
    if e[0] == "field" and isinstance(e[1], tuple) and e[1][0] == "downcast":
        inner = find_self_fields(e[1][1], depth + 1) or []
        return inner + [(e[1][2], e[2], e[3])]
    if e[0] in ("ref", "deref"):
        return find_self_fields(e[1], depth + 1)
    if e[0] == "cast":
        return find_self_fields(e[2], depth + 1)
    if e[0] == "call" and e[2]:
        return find_self_fields(e[2][0], depth + 1)
    if e[0] in ("arg", "local"):
        return []
    return None


def classify_source(e):
    """what an encoder field value is: ('opcode',) | ('const', v) | ('reg', pos) | ('off', pos, backing, N) | ('cc', pos)"""
    u = _unwrap_var(e)
    if u[0] == "const":
        return ("const", u[1])
    if u[0] == "call" and (u[1] or "").endswith("SimInstr::opcode"):
        return ("opcode",)
    r = repr(u)
    chain = find_self_fields(u)
    if not chain:
        return ("unknown", r[:120])
    pos = int(chain[0][1])
    leaf_ty = chain[-1][2] or ""
    if "ast::Reg::reg_no" in r and leaf_ty == "ast::Reg":
        return ("reg", pos)
    m = re.match(r"ast::Offset<(i16|u16), (\d+)>", leaf_ty)
    if m and "ast::Offset::<OFF, N>::get" in r:
        return ("off", pos, m.group(1), int(m.group(2)))
    if leaf_ty == "u8":
        return ("cc", pos)
    return ("unknown", r[:120])


def _case_of(F, body, block, self_ty=SIM):
    """(variant, subcase) of the `match self` arm that contains `block`"""
    names = variant_names(F, self_ty)
    variant = None
    sub = None
    for ex, lo, hi in panics.dominating_conditions(body, block):
        u = _unwrap_var(ex)
        if u[0] != "discr" or lo is None or lo != hi:
            continue
        chain = find_self_fields(u[1])
        if chain == []:
            variant = names[lo]
        elif chain:
            t = chain[-1][2] or ""
            if t.startswith("ast::ImmOrReg"):
                sub = ["Imm", "Reg"][lo]
    return variant, sub


def encoder_rows(F):
    """[{variant, sub, fields:[(source, lo, hi)], line}] from the join_bits calls of SimInstr::encode"""
    b = F.bodies.get("ast::sim::SimInstr::encode")
    if b is None:
        raise TableError("SimInstr::encode not found")
    rows = []
    for bi, t, callee, raw in b.calls():
        if not (callee or "").endswith("ast::sim::join_bits"):
            continue
        variant, sub = _case_of(F, b, bi)
        an, elems = _agg_name(b.expr_of_operand(t["args"][0], depth=16))
        if an != "array":
            raise TableError("join_bits argument is not an array literal at line %s" % t["line"])
        fields = []
        for el in elems:
            n2, f2 = _agg_name(el)
            if n2 != "tuple" or len(f2) != 2:
                raise TableError("join_bits element is not a (value, range) tuple at line %s" % t["line"])
            r = const_range(f2[1])
            if r is None:
                raise TableError("non-constant bit range at line %s" % t["line"])
            fields.append((classify_source(f2[0]), r[0], r[1]))
        rows.append({"variant": variant, "sub": sub, "fields": fields, "line": t["line"]})
    return rows


def opcode_table(F):
    """{variant: opcode number} from SimInstr::opcode (match self -> OP_* constant)"""
    b = F.bodies.get("ast::sim::SimInstr::opcode")
    if b is None:
        raise TableError("SimInstr::opcode not found")
    names = variant_names(F, SIM)
    out = {}
    for bi, si, s in b.stmts():
        if s["k"] == "assign" and s["p"]["l"] == 0 and not s["p"]["proj"] and s["rv"]["k"] == "use":
            iv = interval(b.expr_of_operand(s["rv"]["op"]))
            variant, _ = _case_of(F, b, bi)
            if iv and iv[0] == iv[1] and variant:
                out[variant] = iv[0]
    return out


def decoder_rows(F):
    """per opcode arm of SimInstr::decode: the constructed variant(s) and, per sub-case, which bit
    ranges feed which constructor position (with the interpreted type), which ranges are asserted
    equal to a constant and which single bits select the sub-case."""
    b = F.bodies.get("ast::sim::SimInstr::decode")
    if b is None:
        raise TableError("SimInstr::decode not found")
    # the opcode switch: discr = slice(word, 12..16)
    arms = None
    for bi, t in b.terms("switch"):
        d = _unwrap_var(b.expr_of_operand(t["discr"]))
        if d[0] == "call" and (d[1] or "").endswith("::slice") and const_range(d[2][1]) == (12, 16):
            arms = (bi, t)
            break
    if arms is None:
        raise TableError("opcode switch on word.slice(12..16) not found in decode")
    sw_block, sw = arms
    out = {"default_err": None, "arms": {}, "switch_line": sw["line"]}
    # slice-call facts
    slices = []   # (block, dest local, lo, hi)
    for bi, t, callee, raw in b.calls():
        if (callee or "").endswith("DecodeUtils>::slice") or (callee or "").endswith("DecodeUtils::slice"):
            r = const_range(b.expr_of_operand(t["args"][1]))
            if r is None:
                raise TableError("non-constant slice range at line %s" % t["line"])
            slices.append((bi, t["dest"]["l"], r[0], r[1], t["line"]))

    def slice_of(e):
        u = _unwrap_var(e)
        if u[0] == "call" and (u[1] or "").endswith("::slice"):
            return const_range(u[2][1])
        return None

    for val, target in sw["values"]:
        arm = {"asserts": [], "selects": [], "builds": [], "opcode": val}
        blocks = [x for x in range(len(b.blocks)) if b.dominates(target, x)]
        for x in blocks:
            t = b.blocks[x]["term"]
            if t["k"] == "call":
                f = t["func"]
                callee = (f.get("resolved") or {}).get("path") or f.get("fn") or ""
                if callee.endswith("assert_equals"):
                    sl = slice_of(b.expr_of_operand(t["args"][0]))
                    cv = interval(b.expr_of_operand(t["args"][1]))
                    sub = _sub_of(b, x, target)
                    if sl is None or cv is None or cv[0] != cv[1]:
                        raise TableError("assert_equals with non-slice or non-constant operand at line %s" % t["line"])
                    arm["asserts"].append({"lo": sl[0], "hi": sl[1], "val": cv[0], "sub": sub})
            elif t["k"] == "switch" and x != sw_block:
                d = _unwrap_var(b.expr_of_operand(t["discr"]))
                if d[0] == "bin" and d[1] in ("Ne", "Eq"):
                    sl = slice_of(d[2])
                    cv = interval(d[3])
                    if sl and cv and cv == (0, 0):
                        arm["selects"].append({"lo": sl[0], "hi": sl[1], "op": d[1]})
            for s in b.blocks[x]["stmts"]:
                if s["k"] == "assign" and s["rv"]["k"] == "agg" and s["rv"].get("adt") == SIM:
                    fields = []
                    for fi, fop in enumerate(s["rv"]["fields"]):
                        fields.extend(_field_sources(b, fop, fi, target))
                    arm["builds"].append({"variant": s["rv"]["variant"], "fields": fields, "line": s["line"]})
        out["arms"][val] = arm
    # default arm: returns Err(SimErr::IllegalOpcode)
    ot = sw["otherwise"]
    for x in range(len(b.blocks)):
        if b.dominates(ot, x):
            for s in b.blocks[x]["stmts"]:
                if s["k"] == "assign" and s["rv"]["k"] == "agg" and s["rv"].get("adt") == "sim::SimErr":
                    out["default_err"] = s["rv"]["variant"]
    return out


def _sub_of(b, block, arm_target):
    """'Imm' / 'Reg' / None: value of the selecting bit test that dominates `block` inside the arm"""
    for d in sorted(b.dominators().get(block, ())):
        if not b.dominates(arm_target, d):
            continue
        t = b.blocks[d]["term"]
        if t["k"] != "switch" or d == block:
            continue
        e = _unwrap_var(b.expr_of_operand(t["discr"]))
        if e[0] == "bin" and e[1] in ("Ne", "Eq") and interval(e[3]) == (0, 0):
            # which edge?
            zero_t = [tb for v, tb in t["values"] if v == 0]
            on_true = b.dominates(t["otherwise"], block) and t["otherwise"] not in zero_t
            on_false = bool(zero_t) and b.dominates(zero_t[0], block) and zero_t[0] != t["otherwise"]
            if on_true == on_false:
                continue
            truth = on_true
            bit_set = truth if e[1] == "Ne" else not truth
            return "bit=1" if bit_set else "bit=0"
    return None


def _field_sources(b, fop, pos, arm_target):
    """[{pos, sub, lo, hi, as}] for one constructor operand (several entries when the operand is a
    multiply-defined local, one per defining sub-case)"""
    e = b.expr_of_operand(fop, depth=14)
    u = _unwrap_var(e)
    out = []

    def leaf(x, sub, wrap=None):
        x = _unwrap_var(x)
        if x[0] == "call" and (x[1] or "").endswith("::interpret"):
            inner = _unwrap_var(x[2][0])
            if inner[0] == "call" and (inner[1] or "").endswith("::slice"):
                r = const_range(inner[2][1])
                return {"pos": pos, "sub": sub, "lo": r[0], "hi": r[1], "as": x[4], "wrap": wrap}
        if x[0] == "cast" and x[1] == "u8":
            inner = _unwrap_var(x[2])
            if inner[0] == "call" and (inner[1] or "").endswith("::slice"):
                r = const_range(inner[2][1])
                return {"pos": pos, "sub": sub, "lo": r[0], "hi": r[1], "as": "u8", "wrap": wrap}
        return {"pos": pos, "sub": sub, "lo": None, "hi": None, "as": "unknown:" + repr(x)[:100], "wrap": wrap}

    if u[0] == "local":
        # a `match` result: one definition per sub-case
        for (bi, si, rv) in b.defs().get(u[1], []):
            if si == "term":
                continue
            ex = b.expr_of_rvalue(rv, 14)
            an, fs = _agg_name(ex)
            sub = _sub_of(b, bi, arm_target)
            if an and an.startswith("ast::ImmOrReg") and fs:
                out.append(leaf(fs[0], sub, wrap=_unwrap_var(ex)[2][1]))
            else:
                out.append(leaf(ex, sub))
        return out
    an, fs = _agg_name(u)
    if an and an.startswith("ast::ImmOrReg") and fs:
        return [leaf(fs[0], None, wrap=u[2][1])]
    return [leaf(u, None)]


# ------------------------------------------------------------------------------------------
ASM = "ast::asm::AsmInstr"


def _operand_src(e):
    """classify one constructor operand of an alias/disassembly row"""
    u = _unwrap_var(e)
    if u[0] == "const":
        return ("const", u[1])
    an, fs = _agg_name(u)
    if an == "ast::Reg" and not fs:
        return ("reg", u[2][1])
    if an and an.startswith("ast::ImmOrReg") and fs:
        return ("wrap", u[2][1], _operand_src(fs[0]))
    if an and an.startswith("ast::PCOffset") and fs:
        return ("pcwrap", u[2][1], _operand_src(fs[0]))
    if u[0] == "call" and (u[1] or "").endswith("::new_trunc") and u[2]:
        iv = interval(u[2][0])
        if iv and iv[0] == iv[1]:
            return ("trunc", iv[0], u[4])
    r = repr(u)
    if "asm::replace_pc_offset" in r:
        # Ok value of replace_pc_offset(off, pc, sym)?
        def find_call(x):
            x = _unwrap_var(x)
            if isinstance(x, tuple):
                if x[0] == "call" and (x[1] or "") == "asm::replace_pc_offset":
                    return x
                for y in x[1:]:
                    if isinstance(y, tuple):
                        if y and isinstance(y[0], str):
                            f = find_call(y)
                            if f:
                                return f
                        else:
                            for z in y:
                                f = find_call(z)
                                if f:
                                    return f
            return None
        c = find_call(u)
        if c:
            chain = find_self_fields(c[2][0])
            pc = _unwrap_var(c[2][1])
            sym = _unwrap_var(c[2][2])
            while sym[0] in ("ref", "deref"):
                sym = _unwrap_var(sym[1])
            ok = pc[0] == "arg" and pc[2] == "pc" and sym[0] == "arg" and sym[2] == "sym"
            if chain and ok:
                return ("pcoff", int(chain[-1][1]))
            return ("pcoff?", r[:100])
    chain = find_self_fields(u)
    if chain and u[0] == "field":
        if len(chain) == 1:
            return ("same", int(chain[0][1]))
        return ("same", int(chain[0][1]), tuple(c[0] for c in chain[1:]))
    return ("unknown", r[:120])


def alias_rows(F):
    """[{asm, sim, fields}] for every arm of AsmInstr::into_sim_instr"""
    b = F.bodies.get("asm::<impl ast::asm::AsmInstr>::into_sim_instr")
    if b is None:
        raise TableError("AsmInstr::into_sim_instr not found")
    rows = []
    for bi, si, s in b.stmts():
        if s["k"] == "assign" and s["rv"]["k"] == "agg" and s["rv"].get("adt") == SIM:
            v, _ = _case_of(F, b, bi, ASM)
            rows.append({"asm": v, "sim": s["rv"]["variant"], "line": s["line"],
                         "fields": [_operand_src(b.expr_of_operand(f, depth=14)) for f in s["rv"]["fields"]]})
    return rows


def disasm_rows(F):
    """[{sim, guard, asm, fields}] for every arm of try_disassemble_line"""
    b = F.bodies.get("ast::asm::try_disassemble_line")
    if b is None:
        raise TableError("try_disassemble_line not found")
    rows = []
    for bi, si, s in b.stmts():
        if s["k"] == "assign" and s["rv"]["k"] == "agg" and s["rv"].get("adt") == ASM:
            sim = None
            guards = []
            for ex, lo, hi in panics.dominating_conditions(b, bi):
                u = _unwrap_var(ex)
                if u[0] == "discr" and lo is not None and lo == hi:
                    chain = find_self_fields(u[1])
                    if not chain:
                        sim = variant_names(F, SIM)[lo]
                    else:
                        t = chain[-1][2] or ""
                        if t.startswith("ast::ImmOrReg"):
                            guards.append(("sub", ["Imm", "Reg"][lo]))
                        elif t == "ast::Reg":
                            guards.append(("reg", variant_names(F, "ast::Reg")[lo]))
                elif u[0] == "call" and (u[1] or "").endswith("Offset::<OFF, N>::get") and lo is not None and lo == hi:
                    guards.append(("vect", lo))
            fields = []
            for f in s["rv"]["fields"]:
                fields.append(_operand_src(b.expr_of_operand(f, depth=14)))
            rows.append({"sim": sim, "guards": guards, "asm": s["rv"]["variant"], "fields": fields, "line": s["line"], "block": bi})
    return rows


def word_len_rows(F):
    b = F.bodies.get("asm::<impl ast::asm::Directive>::word_len")
    if b is None:
        raise TableError("Directive::word_len not found")
    names = variant_names(F, "ast::asm::Directive")
    out = {}
    for (bi, si, rv) in b.defs().get(0, []):
        v = None
        for ex, lo, hi in panics.dominating_conditions(b, bi):
            u = _unwrap_var(ex)
            if u[0] == "discr" and lo is not None and lo == hi and find_self_fields(u[1]) == []:
                v = names[lo]
        e = b.expr_of_call(rv, 12, "u16") if si == "term" else b.expr_of_rvalue(rv, 12)
        u = _unwrap_var(e)
        if u[0] == "const":
            out[v] = ("const", u[1])
        elif u[0] == "call" and (u[1] or "").endswith("Offset::<OFF, N>::get"):
            out[v] = ("operand-value",)
        elif u[0] == "field" and u[1][0] == "bin" and u[1][1] == "AddWithOverflow":
            a, c = _unwrap_var(u[1][2]), interval(u[1][3])
            if a[0] == "cast" and "String::len" in repr(a[2]) and c == (1, 1):
                out[v] = ("strlen+1",)
            else:
                out[v] = ("unknown", repr(u)[:100])
        else:
            out[v] = ("unknown", repr(u)[:100])
    return out


def write_directive_rows(F):
    """per Directive variant the multiset of block-writing calls in ObjBlock::write_directive"""
    b = F.bodies.get("asm::ObjectFile::new::ObjBlock::write_directive")
    if b is None:
        raise TableError("ObjBlock::write_directive not found")
    names = variant_names(F, "ast::asm::Directive")
    out = {n: [] for n in names}
    for bi, t, callee, raw in b.calls():
        c = callee or ""
        kind = None
        if c.endswith("ObjBlock::push"):
            kind = "push"
        elif c.endswith("ObjBlock::shift"):
            kind = "shift"
        elif c.endswith("Extend<u16>>::extend") and "ObjBlock" in c:
            kind = "extend"
        if kind is None:
            continue
        v = None
        for ex, lo, hi in panics.dominating_conditions(b, bi):
            u = _unwrap_var(ex)
            if u[0] == "discr" and lo is not None and lo == hi and find_self_fields(u[1]) == []:
                v = names[lo]
        arg = _unwrap_var(b.expr_of_operand(t["args"][1], depth=14))
        out.setdefault(v, []).append((kind, arg, t["line"]))
    return out
