"""Normal forms of small expression trees: a name-independent printer, closure-upvar
substitution and the (conditions -> value) cases of a small body's return value."""
from . import panics
from .panics import _unwrap_var


def short_callee(c):
    """`Type::method` for inherent paths, `method` for trait-qualified ones"""
    import re
    c = c or "?"
    prev = None
    while prev != c:
        prev = c
        c = re.sub(r"::<[^<>]*>", "", c)
    meth = c.rsplit("::", 1)[-1]
    head = c.rsplit("::", 1)[0] if "::" in c else ""
    if "<" in head or ">" in head or " " in head:
        return meth
    seg = head.rsplit("::", 1)[-1]
    return "%s::%s" % (seg, meth) if seg[:1].isupper() else meth


def pp(e, arg_names=None, depth=0):
    """name-independent rendering (local variable names are dropped, argument *positions* kept)"""
    if depth > 40:
        return "..."
    if not isinstance(e, tuple) or not e:
        return str(e)
    k = e[0]
    r = lambda x: pp(x, arg_names, depth + 1)
    if k == "var":
        return r(e[2])
    if k == "arg":
        return (arg_names or {}).get(e[1], "arg%s" % e[1])
    if k in ("deref", "ref", "copy", "move"):
        return r(e[1])
    if k == "field":
        return "%s.%s" % (r(e[1]), e[2])
    if k == "downcast":
        return "%s as %s" % (r(e[1]), e[2])
    if k == "discr":
        return "discr(%s)" % r(e[1])
    if k == "call":
        return "%s(%s)" % (short_callee(e[1]), ", ".join(r(a) for a in e[2]))
    if k == "bin":
        op, a, b = e[1], r(e[2]), r(e[3])
        if op in ("Gt", "Ge"):                      # a > b  ==  b < a
            op, a, b = {"Gt": "Lt", "Ge": "Le"}[op], b, a
        elif op in ("Eq", "Ne", "Add", "Mul", "BitAnd", "BitOr", "BitXor", "AddWithOverflow", "MulWithOverflow") and b < a:
            a, b = b, a                             # commutative: fixed operand order
        return "%s(%s, %s)" % (op, a, b)
    if k == "un":
        return "%s(%s)" % (e[1], r(e[2]))
    if k == "const":
        return str(e[1])
    if k == "cast":
        return "(%s as %s)" % (r(e[2]), e[1])
    if k == "agg":
        nm = e[2][0] if isinstance(e[2], tuple) else e[2]
        var = e[2][1] if isinstance(e[2], tuple) and len(e[2]) > 1 else None
        nm = (nm or e[1] or "").split("::")[-1]
        return "%s%s(%s)" % (nm, "::" + var if var and var != nm else "", ", ".join(r(a) for a in e[3]))
    if k == "local":
        return "local%s" % (e[1],)
    if k == "upvar":
        return "@entry{%s}" % pp(e[1], (arg_names or {}).get("parent"), depth + 1)
    return "%s[%s]" % (k, ", ".join(r(a) for a in e[1:] if isinstance(a, tuple)))


def subst_upvars(e, upvars, depth=0):
    """replace reads of closure captures (fields of the closure environment, argument 1) by the
    captured expressions of the parent body"""
    if not isinstance(e, tuple) or not e or depth > 60:
        return e
    if e[0] == "field" and isinstance(e[1], tuple):
        base = e[1]
        while isinstance(base, tuple) and base[0] in ("deref", "ref"):
            base = base[1]
        if isinstance(base, tuple) and base[0] == "arg" and base[1] == 1 and "closure@" in str(base[3]) and str(e[2]).isdigit():
            i = int(e[2])
            if i < len(upvars):
                return ("upvar", upvars[i], i)
    return tuple(subst_upvars(x, upvars, depth + 1) if isinstance(x, tuple) else x for x in e)


def closure_site(F, parent, closure_name):
    """(block, upvar expression tuple) where the parent body builds the closure"""
    pb = F.bodies.get(parent)
    if pb is None:
        return None
    for bi, si, s in pb.stmts():
        if s["k"] == "assign" and s["rv"]["k"] == "agg" and s["rv"].get("closure") == closure_name:
            return bi, tuple(pb.expr_of_operand(f, 14) for f in s["rv"]["fields"])
    return None


def return_cases(body, upvars=(), arg_names=None, depth=14):
    """[(sorted tuple of 'cond in [lo,hi]' strings, value string)] for every definition of _0"""
    out = []
    defs = []
    for bi, si, s in body.stmts():
        if s["k"] == "assign" and s["p"]["l"] == 0 and not s["p"]["proj"]:
            defs.append((bi, body.expr_of_rvalue(s["rv"], depth)))
    for bi, t in body.terms("call"):
        d = t.get("dest")
        if d and d["l"] == 0 and not d["proj"]:
            defs.append((bi, body.expr_of_call(t, depth, None)))
    for bi, e in defs:
        conds = []
        for ex, lo, hi in panics.dominating_conditions(body, bi):
            conds.append("%s in [%s,%s]" % (pp(subst_upvars(ex, upvars), arg_names), lo, hi))
        out.append((tuple(sorted(set(conds))), pp(subst_upvars(e, upvars), arg_names)))
    return sorted(out)


def edge_conds(body, block, arg_names=None, upvars=(), depth=10):
    """Structural guards of `block`: for every switch that dominates it and through only some of whose
    edges it can be reached, (discriminant rendering, tuple of edge labels taken).  No stability
    filtering: the discriminant is rendered as evaluated at the switch."""
    out = []
    for d in sorted(body.dominators().get(block, ())):
        t = body.blocks[d]["term"]
        if t["k"] != "switch" or d == block:
            continue
        edges = [(str(v), tb) for v, tb in t["values"]] + [("else", t["otherwise"])]
        edges = [(lab, tb) for lab, tb in edges if body.blocks[tb]["term"]["k"] != "unreachable"]
        via = [lab for lab, tb in edges if tb == block or body.can_reach(tb, block, avoid=(d,))]
        if len(via) == len(edges):
            continue
        if "else" in via and len(edges) - len(via) >= 1:
            # name the else edge by the values it excludes
            excl = sorted(lab for lab, tb in edges if lab not in via)
            via = [v for v in via if v != "else"] + (["1"] if t.get("discr_ty") == "bool" and excl == ["0"] else ["not{%s}" % ",".join(excl)])
        out.append((pp(subst_upvars(body.expr_of_operand(t["discr"], depth), upvars), arg_names), tuple(sorted(via))))
    return out
