"""Lazy access to the fact bases for one run."""
import json, os, subprocess
from . import facts as _facts
from . import mir as _mir


class Context:
    def __init__(self, repo="/repo", tier="quick"):
        self.repo = os.path.abspath(repo)
        self.tier = tier
        self._F = None
        self._Frel = None
        self._ast = None

    @property
    def F(self):
        if self._F is None:
            doc = _facts.load(self.repo, "debug")
            if not os.environ.get("VERIF_NO_SUBST"):
                # a renamed private function (gone at its old path, present under a new one with the same loss-free
                # skeleton) is given its old name back before anything else looks at the facts
                from . import subst as _subst0
                ren = _subst0.detect_renames(doc)
                if ren:
                    doc = _subst0.apply_renames(doc, ren)
            self._F = _mir.Facts(doc)
            self._F.renamed = doc.get("_renamed") or {}
            from . import nf as _nf
            _nf.FACTS = self._F
            if not os.environ.get("VERIF_NO_SUBST"):
                # functions respelt in a hand-verified equivalent way are analysed in their baseline shape (lib/subst.py)
                from . import subst as _subst
                doc2, hits = _subst.apply(self._F)
                if doc2 is not None:
                    self._F = _mir.Facts(doc2)
                    self._F.renamed = doc.get("_renamed") or {}
                    self._F.substituted = hits
                    _nf.FACTS = self._F
        return self._F

    @property
    def Frelease(self):
        if self._Frel is None:
            self._Frel = _mir.Facts(_facts.load(self.repo, "release"))
        return self._Frel

    @property
    def ast(self):
        if self._ast is None:
            from . import ast as _ast
            self._ast = _ast.load(self.repo)
        return self._ast

    def src(self, rel):
        with open(os.path.join(self.repo, rel)) as fh:
            return fh.read()

    @property
    def isa(self):
        """the hand-written ISA oracle (spec/lc3_isa.json)"""
        here = os.path.dirname(os.path.dirname(os.path.dirname(os.path.abspath(__file__))))
        with open(os.path.join(here, "spec", "lc3_isa.json")) as fh:
            return json.load(fh)
