"""Obligation bookkeeping, evidence files, VIOLATION / KNOWN-FINDING output."""
import json, os, re, sys, time

VERIF = os.path.dirname(os.path.dirname(os.path.dirname(os.path.abspath(__file__))))
# selftests on scratch copies redirect evidence/replay so that the real evidence is not overwritten
OUT = os.environ.get("VERIF_OUT") or VERIF


def load_known(pid):
    """known_findings.txt: `known: property=Cxx key=<key> input=<...> :: <what fails>` and
    `fixed: property=Cxx <commit> <what failed>` (the latter suppresses nothing)."""
    out = {}
    p = os.path.join(VERIF, "known_findings.txt")
    if not os.path.exists(p):
        return out
    for line in open(p):
        line = line.strip()
        if not line.startswith("known:"):
            continue
        m = re.match(r"known:\s+property=(\S+)\s+key=(.*?)\s+input=(.*?)\s+::\s+(.*)$", line)
        if m and m.group(1) == pid:
            out[m.group(2)] = m.group(4)
    return out


class Check:
    def __init__(self, pid, tier="quick", level="other", repo="/repo"):
        self.pid = pid
        self.tier = tier
        self.level = level
        self.repo = repo
        self.t0 = time.time()
        self.obls = []          # (rule, key, ok, detail, where)
        self.samples = []
        self.evaluations = 0
        self.nontrivial = set()
        self.assumptions = []
        self.trusted = []
        self.extra = {}
        self.rule_text = []
        self.explanation = ""
        self.floors = {}
        self.seed = int(os.environ.get("VERIF_SEED", "0") or 0)

    # ------------------------------------------------------------------ recording
    def ob(self, rule, key, ok, detail="", where="", nontrivial=True, sample=None):
        """One obligation = one rule instance on one source construct."""
        self.obls.append((rule, key, bool(ok), detail, where))
        self.evaluations += 1
        if nontrivial:
            self.nontrivial.add((rule, key))
        if sample is not None and len(self.samples) < 40:
            self.samples.append(sample)
        elif ok and len(self.samples) < 12:
            self.samples.append({"rule": rule, "instance": key, "where": where, "fact": detail[:300]})
        return ok

    def fail(self, rule, key, detail, where=""):
        return self.ob(rule, key, False, detail, where)

    def floor(self, rule, name, count, minimum):
        """Fail closed when a rule matched fewer instances than were counted by hand."""
        self.floors[rule + ":" + name] = {"count": count, "floor": minimum}
        if count < minimum:
            self.ob(rule, "floor:" + name, False,
                    "obligation not established: %s matched %d instances, floor is %d" % (name, count, minimum))
        else:
            self.ob(rule, "floor:" + name, True, "%s: %d instances (floor %d)" % (name, count, minimum), nontrivial=False)

    def anchor(self, rule, name, obj):
        if obj is None or obj == [] or obj == {}:
            self.ob(rule, "anchor:" + name, False, "obligation not established: anchor %s not found" % name)
            return False
        return True

    def assume(self, text):
        if text not in self.assumptions:
            self.assumptions.append(text)

    def rule(self, text):
        self.rule_text.append(text)

    def include(self, module_name, ctx, prefix, only=None, why=""):
        """Shared rule instances: run the rules of another property and adopt those of its obligations whose
        rule id is in `only` (all when None) under `<prefix>/<rule id>`.  Used where this property's behaviour
        rests on a clause that is decided by another property's rule (e.g. the disassembly round trip rests on
        decode/encode agreement): a violation of that clause is a violation here too."""
        import importlib
        if getattr(self, "_is_sub", False):
            return 0            # includes are one level deep: an included module's own includes are not followed
        mod = importlib.import_module(module_name)
        sub = Check(module_name, self.tier, getattr(mod, "LEVEL", "other"), self.repo)
        sub._is_sub = True
        try:
            mod.run(sub, ctx)
        except Exception as ex:
            self.fail(prefix, "include:" + module_name, "obligation not established: rules of %s could not be evaluated: %s" % (module_name, ex))
            return 0
        n = 0
        for (r, k, ok, d, w) in sub.obls:
            if only is not None and r not in only:
                continue
            n += 1
            self.obls.append(("%s/%s" % (prefix, r), k, ok, d, w))
            self.evaluations += 1
            if (r, k) in sub.nontrivial:
                self.nontrivial.add(("%s/%s" % (prefix, r), k))
        self.floor(prefix, "shared instances from " + module_name, n, 1)
        self.rule_text.append("%s: shared rule instances of %s %s%s" % (prefix, module_name, sorted(only) if only else "(all)", (" - " + why) if why else ""))
        return n

    # ------------------------------------------------------------------ finishing
    def finish(self):
        known = load_known(self.pid)
        bad = [(r, k, d, w) for (r, k, ok, d, w) in self.obls if not ok]
        viol = []
        kf = []
        for r, k, d, w in bad:
            full = r + "|" + k
            if full in known:
                kf.append((full, known[full]))
            else:
                viol.append((r, k, d, w))
        os.makedirs(os.path.join(OUT, "evidence"), exist_ok=True)
        os.makedirs(os.path.join(OUT, "replay"), exist_ok=True)
        n = len(self.obls)
        ok_n = sum(1 for o in self.obls if o[2])
        cov = {
            "obligations": n,
            "discharged": ok_n,
            "evaluations": max(self.evaluations, 1),
            "distinct_nontrivial": len(self.nontrivial),
            "rule": " | ".join(self.rule_text) or "rule instances enumerated from the MIR / syntax tree of /repo",
            "samples": self.samples[:40] or [{"note": "no instance"}],
            "explanation": self.explanation or "static rules over the type-checked program; see DESIGN.md",
            "checker_cmd": "./check %s --tier %s" % (self.pid, self.tier),
            "trusted_base": self.trusted or ["rustc nightly MIR construction", "mirfacts serialisation", "rules/lib"],
            "exhaustive": True,
            "floors": self.floors,
            "known_findings_matched": [k for k, _ in kf],
        }
        cov.update(self.extra)
        ev = {
            "property_id": self.pid,
            "tier": self.tier,
            "seed": self.seed,
            "level": self.level,
            "coverage": cov,
            "assumptions": self.assumptions,
            "wall_s": round(time.time() - self.t0, 3),
            "violations": len(viol),
        }
        with open(os.path.join(OUT, "evidence", self.pid + ".json"), "w") as fh:
            json.dump(ev, fh, indent=1, default=str)
        for full, what in kf:
            print("KNOWN-FINDING: property=%s %s" % (self.pid, what))
        for r, k, d, w in viol:
            safe = re.sub(r"[^A-Za-z0-9_.-]+", "_", r + "-" + k)[:120]
            rp = os.path.join(OUT, "replay", "%s-%s.json" % (self.pid, safe))
            with open(rp, "w") as fh:
                json.dump({"property": self.pid, "rule": r, "key": k, "detail": d, "where": w, "repo": self.repo}, fh, indent=1)
            print("%s: rule %s instance %s\n    %s" % (w or "(no location)", r, k, d))
            print("VIOLATION property=%s replay=%s" % (self.pid, rp))
        print("[%s %s] obligations=%d discharged=%d known=%d violations=%d wall=%.1fs" % (
            self.pid, self.tier, n, ok_n, len(kf), len(viol), time.time() - self.t0))
        return 1 if viol else 0
