"""The token language is a source artifact: the `#[regex]`, `#[token]` and `#[logos(skip ..)]`
attributes of `enum Token` in src/parse/lex.rs.  This module reads the attribute literals and
parses the (small) regex subset they use into a list of atoms, each a character set with a
quantifier.  Anything outside the subset raises (fail closed).

Character sets are lists of inclusive code-point intervals; the Unicode classes `\\d` and `\\w`
are represented by their ASCII part plus the marker interval (0x80, 0x10FFFF) (a sound
over-approximation: "some non-ASCII characters").
"""
import os, re

ASCII_D = [(0x30, 0x39)]
ASCII_W = [(0x30, 0x39), (0x41, 0x5A), (0x5F, 0x5F), (0x61, 0x7A)]
NON_ASCII = [(0x80, 0x10FFFF)]


class RegexError(Exception):
    pass


def _esc_set(c):
    if c == "d":
        return ASCII_D + NON_ASCII, True
    if c == "w":
        return ASCII_W + NON_ASCII, True
    if c == "n":
        return [(10, 10)], False
    if c == "r":
        return [(13, 13)], False
    if c == "t":
        return [(9, 9)], False
    if c in ".\\-#[]()*+?|^${}\"'":
        return [(ord(c), ord(c))], False
    raise RegexError("unsupported escape \\" + c)


def parse_regex(src):
    """-> list of atoms {set: [(lo,hi)], q: ''|'?'|'*'|'+', unicode: bool}"""
    atoms = []
    i = 0
    n = len(src)
    while i < n:
        c = src[i]
        uni = False
        if c == "[":
            j = i + 1
            neg = False
            if j < n and src[j] == "^":
                neg = True
                j += 1
            cs = []
            while j < n and src[j] != "]":
                if src[j] == "\\":
                    s, u = _esc_set(src[j + 1])
                    uni = uni or u
                    cs.extend(s)
                    j += 2
                    continue
                lo = src[j]
                if j + 2 < n and src[j + 1] == "-" and src[j + 2] != "]":
                    hi = src[j + 2]
                    cs.append((ord(lo), ord(hi)))
                    j += 3
                else:
                    cs.append((ord(lo), ord(lo)))
                    j += 1
            if j >= n:
                raise RegexError("unterminated class")
            if neg:
                cs = _complement(cs)
            st = cs
            i = j + 1
        elif c == "\\":
            st, uni = _esc_set(src[i + 1])
            i += 2
        elif c == ".":
            st = _complement([(10, 10)])
            i += 1
        elif c in "()|{}^$":
            raise RegexError("unsupported regex construct %r in %r" % (c, src))
        elif c in "*+?":
            raise RegexError("dangling quantifier in %r" % src)
        else:
            st = [(ord(c), ord(c))]
            i += 1
        q = ""
        if i < n and src[i] in "*+?":
            q = src[i]
            i += 1
        atoms.append({"set": _norm(st), "q": q, "unicode": uni})
    return atoms


def _norm(cs):
    cs = sorted(cs)
    out = []
    for lo, hi in cs:
        if out and lo <= out[-1][1] + 1:
            out[-1] = (out[-1][0], max(out[-1][1], hi))
        else:
            out.append((lo, hi))
    return out


def _complement(cs):
    cs = _norm(cs)
    out = []
    cur = 0
    for lo, hi in cs:
        if lo > cur:
            out.append((cur, lo - 1))
        cur = hi + 1
    if cur <= 0x10FFFF:
        out.append((cur, 0x10FFFF))
    return out


def is_ascii_set(cs):
    return all(hi < 0x80 for lo, hi in cs)


def first_is_one_ascii_byte(atoms):
    """every string of the language starts with exactly one mandatory ASCII character"""
    return bool(atoms) and atoms[0]["q"] in ("", "+") and is_ascii_set(atoms[0]["set"])


def set_of(s):
    return _norm([(ord(c), ord(c)) for c in s])


def load(repo):
    """-> list of {kind: regex|token|skip, pattern, callback (str|None), variant}"""
    path = os.path.join(repo, "src/parse/lex.rs")
    txt = open(path).read()
    m = re.search(r"pub enum Token\s*\{", txt)
    if not m:
        raise RegexError("enum Token not found")
    # attributes on the enum itself (skip)
    head = txt[:m.start()]
    out = []
    for ln in head[-800:].splitlines():
        ln = ln.strip()
        if not ln.startswith("#[logos("):
            continue
        km = re.search(r'skip\s+r(#*)"(.*?)"\1', ln)
        if km:
            out.append({"kind": "skip", "pattern": km.group(2), "callback": None, "variant": None})
    # body of the enum: up to the matching close brace at column 0
    body_end = txt.index("\n}", m.end())
    body = txt[m.end():body_end]
    pending = []
    for line in body.splitlines():
        s = line.strip()
        if s.startswith("//") or not s:
            continue
        am = re.match(r'#\[(regex|token)\(\s*r(#*)"(.*?)"\2\s*(?:,\s*(.*?))?\)\]', s)
        if am:
            pending.append({"kind": am.group(1), "pattern": am.group(3), "callback": (am.group(4) or None)})
            continue
        am = re.match(r'#\[(regex|token)\(\s*"((?:[^"\\\\]|\\\\.)*)"\s*(?:,\s*(.*?))?\)\]', s)
        if am:
            if "\\" in am.group(2):
                raise RegexError("escaped plain string literal in attribute: %r" % s)
            pending.append({"kind": am.group(1), "pattern": am.group(2), "callback": (am.group(3) or None)})
            continue
        if s.startswith("#["):
            continue
        vm = re.match(r"([A-Za-z_][A-Za-z0-9_]*)", s)
        if vm:
            for p in pending:
                p["variant"] = vm.group(1)
                out.append(p)
            pending = []
    if pending:
        raise RegexError("attributes without a variant")
    for e in out:
        if e["kind"] in ("regex", "skip"):
            e["atoms"] = parse_regex(e["pattern"])
        else:
            e["atoms"] = [{"set": [(ord(c), ord(c))], "q": "", "unicode": False} for c in e["pattern"]]
    return out
