"""A small reader for src/os.asm (LC-3 assembly source is analysed as source: statements, labels,
addresses, a control-flow graph per routine).  Independent of the crate's own parser on purpose."""
import re

BR_RE = re.compile(r"^BR([NZP]*)$")
TRAP_ALIASES = {"GETC": 0x20, "OUT": 0x21, "PUTC": 0x21, "PUTS": 0x22, "IN": 0x23, "PUTSP": 0x24, "HALT": 0x25}
ESC = {"n": "\n", "r": "\r", "t": "\t", "\\": "\\", "0": "\0", '"': '"'}


def num(tok):
    t = tok.strip()
    m = re.match(r"^#?(-?\d+)$", t)
    if m:
        return int(m.group(1))
    m = re.match(r"^#?(-?)[xX]([0-9a-fA-F]+)$", t)
    if m:
        return (-1 if m.group(1) else 1) * int(m.group(2), 16)
    m = re.match(r"^#?(-?)[bB]([01]+)$", t)
    if m:
        return (-1 if m.group(1) else 1) * int(m.group(2), 2)
    return None


def unescape(s):
    out = []
    i = 0
    while i < len(s):
        if s[i] == "\\" and i + 1 < len(s):
            out.append(ESC.get(s[i + 1], s[i + 1]))
            i += 2
        else:
            out.append(s[i])
            i += 1
    return "".join(out)


class Stmt:
    def __init__(self, addr, line, op, args, labels):
        self.addr, self.line, self.op, self.args, self.labels = addr, line, op, args, labels

    def __repr__(self):
        return "x%04X %s %s" % (self.addr, self.op, ",".join(str(a) for a in self.args))


class Program:
    def __init__(self, text):
        self.labels = {}
        self.stmts = []          # in address order per block
        self.at = {}             # addr -> Stmt (first word of the statement)
        self.words = {}          # addr -> ('instr', Stmt) | ('data', value-or-label) | ('char', c)
        self.errors = []
        pc = None
        pending = []
        for ln, raw in enumerate(text.splitlines(), 1):
            line = raw
            # strip comment (a ';' outside a string literal)
            q = False
            cut = len(line)
            i = 0
            while i < len(line):
                c = line[i]
                if c == '"' and (i == 0 or line[i - 1] != "\\"):
                    q = not q
                elif c == ";" and not q:
                    cut = i
                    break
                i += 1
            line = line[:cut].strip()
            while line:
                m = re.match(r"^([A-Za-z_][A-Za-z0-9_]*)\s*:\s*(.*)$", line)
                if m and m.group(1).upper() not in TRAP_ALIASES:
                    pending.append(m.group(1).upper())
                    line = m.group(2).strip()
                    continue
                break
            if not line:
                continue
            m = re.match(r"^(\.?[A-Za-z]+)\s*(.*)$", line)
            if not m:
                self.errors.append((ln, "unparsed: " + raw))
                continue
            op = m.group(1).upper()
            rest = m.group(2).strip()
            if op == ".ORIG":
                pc = num(rest)
                continue
            if op == ".END":
                pc = None
                continue
            if pc is None:
                self.errors.append((ln, "statement outside a block"))
                continue
            if op == ".STRINGZ":
                mm = re.match(r'^"((?:[^"\\]|\\.)*)"$', rest)
                if not mm:
                    self.errors.append((ln, "bad string literal"))
                    continue
                s = unescape(mm.group(1))
                st = Stmt(pc, ln, op, [s], pending)
                size = len(s) + 1
                for k, ch in enumerate(s):
                    self.words[pc + k] = ("char", ch)
                self.words[pc + len(s)] = ("char", "\0")
            else:
                args = [a.strip() for a in re.split(r"[,\s]+", rest) if a.strip()] if rest else []
                st = Stmt(pc, ln, op, args, pending)
                if op == ".FILL":
                    size = 1
                    v = num(args[0])
                    self.words[pc] = ("data", v if v is not None else args[0].upper())
                elif op == ".BLKW":
                    size = num(args[0]) or 0
                else:
                    size = 1
                    self.words[pc] = ("instr", st)
            for l in pending:
                if l in self.labels:
                    self.errors.append((ln, "duplicate label " + l))
                self.labels[l] = pc
            pending = []
            self.stmts.append(st)
            self.at[pc] = st
            pc += size

    def addr_of(self, label):
        return self.labels.get(label.upper())

    def word_value(self, addr):
        """resolved numeric value of a .fill word"""
        w = self.words.get(addr)
        if not w or w[0] != "data":
            return None
        return w[1] if isinstance(w[1], int) else self.labels.get(w[1])

    def string_at(self, addr):
        out = []
        while True:
            w = self.words.get(addr)
            if not w or w[0] != "char":
                return None
            if w[1] == "\0":
                return "".join(out)
            out.append(w[1])
            addr += 1

    def target(self, st, k=-1):
        """address named by the label / numeric offset operand of a PC-relative instruction"""
        a = st.args[k]
        v = num(a)
        if v is not None and a.strip()[0] in "#-0123456789xXbB" and not re.match(r"^[A-Za-z_]\w*$", a):
            return (st.addr + 1 + v) & 0xFFFF
        return self.labels.get(a.upper())

    def succs(self, st):
        """successor addresses of an instruction inside its routine ('ret' marks RTI/RET/JMP exits,
        'trap:<v>' a trap call which returns to the next instruction)"""
        op = st.op
        m = BR_RE.match(op)
        if m:
            cc = m.group(1) or "NZP"
            t = self.target(st)
            return [t] if set(cc) == set("NZP") else [t, st.addr + 1]
        if op in ("RTI", "RET", "JMP"):
            return ["ret"]
        if op == "HALT" or (op == "TRAP" and num(st.args[0]) == 0x25):
            return []            # the HALT routine never returns (checked as C12.3 TRAP_HALT)
        if op in ("JSR",):
            return [st.addr + 1]
        return [st.addr + 1]

    def routine(self, entry):
        """{addr: Stmt} reachable from `entry` by fallthrough and branches (not through RTI/RET)"""
        seen = {}
        st = [entry]
        while st:
            a = st.pop()
            if a in seen or a == "ret":
                continue
            w = self.words.get(a)
            if not w or w[0] != "instr":
                seen[a] = None          # falls into data: recorded as a defect by callers
                continue
            seen[a] = w[1]
            st.extend(self.succs(w[1]))
        return seen


def load(repo):
    import os
    return Program(open(os.path.join(repo, "src", "os.asm")).read())
