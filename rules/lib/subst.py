"""Canonical representatives for hand-verified equivalent spellings.

spec/equivalent_forms.json lists, per function, normal forms (hash of return cases + effect skeleton, closures inlined;
nf.full_form) that were READ and confirmed to compute the same result with the same effects as the function at the
pinned commit (source of truth: selftest/equivalent/accepted.tsv: patch, function, reason).  When the function in the
tree under analysis has one of these forms, every rule analyses the baseline body of that function (and of its
closures), stored in spec/baseline_bodies/, instead of the respelt one: the rules were written against that shape, and
the equivalence was established by review, not by the rules.  Nothing is substituted for a form that is not listed, so a
change of behaviour (a different normal form) is analysed as it stands."""
import gzip, json, os, re

_HERE = os.path.dirname(os.path.dirname(os.path.dirname(os.path.abspath(__file__))))
BODIES = os.path.join(_HERE, "spec", "baseline_bodies")


def fname(path):
    return re.sub(r"[^A-Za-z0-9_.-]+", "_", path)[:150] + ".json.gz"


def stored(path):
    p = os.path.join(BODIES, fname(path))
    if not os.path.exists(p):
        return None
    with gzip.open(p, "rt") as fh:
        return json.load(fh)


def store(path, raws):
    os.makedirs(BODIES, exist_ok=True)
    with gzip.open(os.path.join(BODIES, fname(path)), "wt") as fh:
        json.dump(raws, fh)


def family(doc, path):
    """raw bodies of `path` and of the closures (and nested items) defined inside it"""
    return [b for b in doc["bodies"] if b["path"] == path or b["path"].startswith(path + "::{closure")]


def lossy(form):
    """a normal form that contains a depth placeholder does not determine the function"""
    return "local" in form or "..." in form or "<missing" in form or "~dom:" in form or "<indirect>" in form


def _strip(o):
    if isinstance(o, list):
        return [_strip(x) for x in o]
    if isinstance(o, dict):
        return {k: _strip(v) for k, v in o.items() if k not in ("line", "exp", "file", "fn_line")}
    return o


def raw_hash(fam):
    import hashlib
    txt = json.dumps(_strip(sorted(fam, key=lambda b: b["path"])), sort_keys=True)
    txt = re.sub(r"\{closure@[^}]*\}", "{closure}", txt)   # source positions inside closure type names
    txt = re.sub(r"DefId\(\d+:\d+ ~ ", "DefId(", txt)          # definition indices shift when an item is added or removed
    txt = re.sub(r"lc3_ensemble\[[0-9a-f]+\]", "lc3_ensemble", txt)   # crate disambiguator depends on the build directory
    return hashlib.sha256(txt.encode()).hexdigest()[:20]


_BASE = None


def _baseline():
    global _BASE
    if _BASE is None:
        p = os.path.join(_HERE, "spec", "baseline_forms.json")
        q = os.path.join(BODIES, "_all.json.gz")
        if os.path.exists(p) and os.path.exists(q):
            _BASE = (json.load(open(p))["forms"], q)
        else:
            _BASE = ({}, None)
    return _BASE


def same_form_as_baseline(F):
    """{path: baseline family} for functions whose facts differ from the baseline's but whose loss-free normal form is equal"""
    from . import nf
    forms, q = _baseline()
    if not forms:
        return {}
    changed = []
    for path, h in forms.items():
        if path in F.bodies and h.get("form"):
            if raw_hash(family(F.doc, path)) != h["raw"]:
                changed.append(path)
    out = {}
    if not changed:
        return out
    bodies = None
    for path in changed:
        try:
            s = nf.full_form(F, path)
        except Exception:
            continue
        if lossy(s) or nf.form_hash(s) != forms[path]["form"]:
            continue
        if bodies is None:
            with gzip.open(q, "rt") as fh:
                bodies = json.load(fh)
        out[path] = bodies[path]
    return out


def effects_unchanged(F, path):
    """True / False / None: does `path` (with its closures) have the baseline's loss-free effect skeleton?  None when the
    baseline skeleton is not loss-free (large functions) or the function did not exist at the baseline.  Used by the pinned
    helper functions (rules/pins.py): their return-value normal form does not show effects (which setter is called with
    which value), the skeleton does."""
    from . import nf
    forms, _ = _baseline()
    h = forms.get(path)
    if not h or not h.get("form") or path not in F.bodies:
        return None
    if raw_hash(family(F.doc, path)) == h["raw"]:
        return True
    s = nf.full_form(F, path)
    if not lossy(s) and nf.form_hash(s) == h["form"]:
        return True
    return nf.is_verified_equivalent(F, path) is not None


def detect_renames(doc):
    """{new path: old path}: a baseline function that no longer exists while a function that did not exist at the baseline
    has its loss-free effect skeleton is that function under a new name (a renamed private function or method).  Must run
    before helper inlining (which would inline the 'new' function into its callers)."""
    from . import nf, mir as _mir, inline as _inline
    forms, _ = _baseline()
    if not forms:
        return {}
    present = set(b["path"] for b in doc["bodies"])
    gone = [p for p, h in forms.items() if p not in present and h.get("form")]
    if not gone:
        return {}
    base = _inline.baseline()
    cand = [b["path"] for b in doc["bodies"] if b["path"] not in base and "{closure" not in b["path"] and b.get("kind") in ("Fn", "AssocFn") and not b.get("light")]
    if not cand:
        return {}
    os.environ["VERIF_NO_INLINE"] = "1"
    try:
        F0 = _mir.Facts(doc)
    finally:
        del os.environ["VERIF_NO_INLINE"]
    prev, nf.FACTS = nf.FACTS, None
    try:
        by_hash = {}
        for p in cand:
            try:
                s = nf.full_form(F0, p)
            except Exception:
                continue
            if not lossy(s):
                by_hash.setdefault(nf.form_hash(s), []).append(p)
        out = {}
        for old in gone:
            new = by_hash.get(forms[old]["form"], [])
            # same container (module / impl) and unambiguous
            new = [n for n in new if n.rsplit("::", 1)[0] == old.rsplit("::", 1)[0]]
            if len(new) == 1 and new[0] not in out:
                out[new[0]] = old
        return out
    finally:
        nf.FACTS = prev


def apply_renames(doc, ren):
    """rewrites every occurrence of the new def-paths (the function, its closures, call sites, fn-item values) to the old ones"""
    txt = json.dumps(doc)
    for new, old in ren.items():
        a, b = json.dumps(new)[1:-1], json.dumps(old)[1:-1]
        txt = txt.replace('"%s"' % a, '"%s"' % b).replace('"%s::{' % a, '"%s::{' % b).replace("{%s}" % a, "{%s}" % b)
    doc2 = json.loads(txt)
    doc2["_renamed"] = dict(ren)
    return doc2


def apply(F):
    """-> (new doc, {path: table entry}) or (None, {})"""
    from . import nf
    tab = nf._alt_table()
    hits = {}
    forms0, _ = _baseline()
    for path in tab:
        if path in F.bodies:
            h0 = forms0.get(path)
            if h0 and raw_hash(family(F.doc, path)) == h0["raw"]:
                continue                                    # unchanged since the baseline: nothing to recognise
            e = nf.is_verified_equivalent(F, path)
            if e is not None:
                base = stored(path)
                if base:
                    hits[path] = (e, base)
    auto = same_form_as_baseline(F)
    for path, fam in auto.items():
        if path not in hits:
            hits[path] = ({"hash": "=baseline", "from": "normal form equal to the baseline's", "why": "same loss-free normal form"}, fam)
    if not hits:
        return None, {}
    doc = F.doc
    drop = set()
    add = []
    for path, (e, base) in hits.items():
        for b in family(doc, path):
            drop.add(b["path"])
        add.extend(base)
    # a baseline body may call a private function that the respelt tree no longer has (it was inlined into its only
    # caller): the representative needs that callee too
    present = set(b["path"] for b in doc["bodies"]) - drop | set(b["path"] for b in add)
    _, q = _baseline()
    allb = None
    work = list(add)
    while work and q:
        b = work.pop()
        for blk in b.get("blocks", []):
            t = blk["term"]
            if t.get("k") != "call":
                continue
            f = t.get("func") or {}
            res = f.get("resolved") or {}
            c = res.get("path") if res.get("local") else (f.get("fn") if f.get("fn_local") else None)
            if c and c not in present:
                if allb is None:
                    with gzip.open(q, "rt") as fh:
                        allb = json.load(fh)
                if c in allb:
                    add.extend(allb[c])
                    work.extend(allb[c])
                    present |= set(x["path"] for x in allb[c])
    doc = dict(doc)
    doc["bodies"] = [b for b in doc["bodies"] if b["path"] not in drop] + add
    # helpers introduced by the respelling (not in the baseline inventory) that only the replaced bodies referred to are
    # dead code of the representative: they were reviewed as part of the listed spelling and are not analysed separately
    from . import inline as _inline
    base = _inline.baseline()
    new_fns = [b["path"] for b in doc["bodies"] if b["path"] not in base and "{closure" not in b["path"] and b.get("kind") in ("Fn", "AssocFn") and b.get("vis") != "Public"]
    if new_fns:
        blob = json.dumps([b.get("blocks", []) for b in doc["bodies"] if b["path"] not in new_fns])
        dead = set(p for p in new_fns if json.dumps(p) not in blob)
        if dead:
            doc["bodies"] = [b for b in doc["bodies"] if b["path"] not in dead and not any(b["path"].startswith(d + "::{closure") for d in dead)]
            doc["_dead_helpers"] = sorted(dead)
    doc["_substituted"] = {p: {"hash": e["hash"], "from": e.get("from"), "why": e.get("why")} for p, (e, _) in hits.items()}
    return doc, doc["_substituted"]
