"""Fact extraction and caching.

`load(repo)` returns the MIR fact document of the crate at `repo` (default /repo), running
the mirfacts driver when the content hash of the sources is not cached.  The cache key is
the content of Cargo.toml, Cargo.lock, src/** and the driver binary; never mtimes.
"""
import fcntl, hashlib, json, os, shutil, subprocess, sys, tempfile, time

VERIF = os.path.dirname(os.path.dirname(os.path.dirname(os.path.abspath(__file__))))
CACHE = os.path.join(VERIF, ".cache")
DRIVER = os.path.join(VERIF, "tools/mirfacts/target/debug/mirfacts")
ASTDUMP = os.path.join(VERIF, "tools/astdump/target/debug/astdump")


class FactError(Exception):
    pass


def _files(repo):
    out = []
    for name in ("Cargo.toml", "Cargo.lock"):
        p = os.path.join(repo, name)
        if os.path.exists(p):
            out.append(p)
    for root, dirs, files in os.walk(os.path.join(repo, "src")):
        dirs.sort()
        for f in sorted(files):
            out.append(os.path.join(root, f))
    return out


def source_hash(repo, extra=()):
    h = hashlib.sha256()
    for p in _files(repo):
        h.update(os.path.relpath(p, repo).encode())
        h.update(b"\0")
        with open(p, "rb") as fh:
            h.update(fh.read())
        h.update(b"\0")
    for p in extra:
        if os.path.exists(p):
            with open(p, "rb") as fh:
                h.update(hashlib.sha256(fh.read()).digest())
    return h.hexdigest()[:24]


def _sysroot():
    return subprocess.check_output(["rustc", "+nightly", "--print", "sysroot"], text=True).strip()


SLOTS = 8


def _acquire_slot():
    """one of SLOTS build slots (each with its own cargo target directory, so that extractions for different
    source trees - the unchanged tree, mutants in scratch copies - run in parallel); blocks when all are busy"""
    os.makedirs(CACHE, exist_ok=True)
    while True:
        for i in range(SLOTS):
            fh = open(os.path.join(CACHE, "slot%d.lock" % i), "w")
            try:
                fcntl.flock(fh, fcntl.LOCK_EX | fcntl.LOCK_NB)
                return i, fh
            except OSError:
                fh.close()
        time.sleep(0.2)


def _run_driver(repo, out, profile, slot):
    """Runs `cargo +nightly check` with the mirfacts wrapper.  Dependencies are built in a
    persistent target dir under .cache (keyed by profile and slot); the fingerprint of lc3-ensemble is
    removed first so that cargo cannot skip the wrapper, and the existence of the fact file
    is asserted afterwards."""
    if not os.path.exists(DRIVER):
        raise FactError("mirfacts driver not built (run MANIFEST.setup_cmd)")
    tdir = os.path.join(CACHE, "target-%s%s" % (profile, "" if slot == 0 else "-%d" % slot))
    os.makedirs(tdir, exist_ok=True)
    prof_dir = os.path.join(tdir, "release" if profile == "release" else "debug")
    fp = os.path.join(prof_dir, ".fingerprint")
    if os.path.isdir(fp):
        for d in os.listdir(fp):
            if d.startswith("lc3-ensemble-") or d.startswith("lc3_ensemble-"):
                shutil.rmtree(os.path.join(fp, d), ignore_errors=True)
    env = dict(os.environ)
    env["LD_LIBRARY_PATH"] = _sysroot() + "/lib:" + env.get("LD_LIBRARY_PATH", "")
    env["RUSTFLAGS"] = "-Zmir-opt-level=0 -Awarnings"
    env["RUSTC_WORKSPACE_WRAPPER"] = DRIVER
    env["MIRFACTS_OUT"] = out
    env["CARGO_TARGET_DIR"] = tdir
    env["CARGO_NET_OFFLINE"] = "true"
    env.pop("RUSTC_WRAPPER", None)
    cmd = ["cargo", "+nightly", "check", "--offline", "--lib", "-q"]
    if profile == "release":
        cmd.append("--release")
    p = subprocess.run(cmd, cwd=repo, env=env, stdout=subprocess.PIPE, stderr=subprocess.STDOUT, text=True)
    if p.returncode != 0:
        raise FactError("cargo check failed on %s:\n%s" % (repo, p.stdout[-4000:]))
    if not os.path.exists(out):
        raise FactError("mirfacts wrote no fact file (wrapper skipped?)\n" + p.stdout[-2000:])


def load(repo="/repo", profile="debug"):
    repo = os.path.abspath(repo)
    os.makedirs(CACHE, exist_ok=True)
    key = source_hash(repo, extra=(DRIVER,)) + "-" + profile
    d = os.path.join(CACHE, "facts")
    os.makedirs(d, exist_ok=True)
    path = os.path.join(d, key + ".json")
    if not os.path.exists(path):
        # per-key lock: two runs on the same tree extract once; runs on different trees go in parallel (build slots)
        klock = open(os.path.join(d, key + ".lock"), "w")
        fcntl.flock(klock, fcntl.LOCK_EX)
        try:
            if not os.path.exists(path):
                slot, sfh = _acquire_slot()
                tmp = path + ".tmp%d" % os.getpid()
                t = time.time()
                try:
                    _run_driver(repo, tmp, profile, slot)
                    os.replace(tmp, path)
                finally:
                    if os.path.exists(tmp):
                        os.remove(tmp)
                    fcntl.flock(sfh, fcntl.LOCK_UN)
                    sfh.close()
                # keep the cache small: at most 40 fact files (21 MB each), least recently used first
                ents = sorted((os.path.getmtime(os.path.join(d, f)), f) for f in os.listdir(d) if f.endswith(".json"))
                for _, f in ents[:-int(os.environ.get('VERIF_FACT_CACHE', '40'))]:
                    try:
                        os.remove(os.path.join(d, f))
                    except OSError:
                        pass
                sys.stderr.write("[facts] extracted %s in %.1fs (slot %d)\n" % (key, time.time() - t, slot))
        finally:
            fcntl.flock(klock, fcntl.LOCK_UN)
            klock.close()
            try:
                os.remove(os.path.join(d, key + ".lock"))
            except OSError:
                pass
    try:
        os.utime(path, None)      # LRU: the eviction above removes the least recently *used* files
    except OSError:
        pass
    with open(path) as fh:
        doc = json.load(fh)
    if doc.get("crate") != "lc3_ensemble" or doc.get("n_bodies", 0) < 400:
        raise FactError("fact file does not describe lc3_ensemble")
    doc["_hash"] = key
    doc["_repo"] = repo
    return doc
