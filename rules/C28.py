"""C28 - Access observer records exactly the memory the program touched."""
from lib import simx, tables, panics
from lib.panics import _unwrap_var, interval
import discharge

LEVEL = "other"
OBS = "sim::observer::AccessObserver::update_mem_accesses"


def guards_of(b, site, join):
    out = []
    for d, e, edge in simx.local_guards(b, site, join):
        r = repr(e)
        kind = "track_access" if "'track_access'" in r else "success" if "'success'" in r else "value-changed" if ("PartialEq::ne" in r or "'Ne'" in r) else "other:" + r[:80]
        out.append((kind, edge))
    return sorted(out)


def run(ck, ctx):
    F = ctx.F
    panics.FACTS = F
    ck.rule("R5: update_mem_accesses is called only in read_mem (READ, the address read) and write_mem (WRITTEN; MODIFIED iff mem[addr] != data compared "
            "before the store). R4 (exact local guards): the READ update is guarded by ctx.track_access only; WRITTEN by success and track_access; "
            "MODIFIED additionally by the value comparison. observer.clear() dominates the first step of run_while and step_in. omnipotent() does not "
            "track. R9/R1: the three flags are distinct single bits, accessors test their own bit, updates are OR-ed in.")
    ck.explanation = "Who-may-call, exact guard sets by local-guard analysis on the CFG, constant evaluation of the flag type."
    callers = {}
    for p, b in F.bodies.items():
        if b.light:
            continue
        for bi, t, c, _ in b.calls():
            if (c or "") == OBS:
                callers.setdefault(p, []).append((bi, t))
    ck.ob("C28.1", "callers", set(callers) == {"sim::Simulator::read_mem", "sim::Simulator::write_mem"} and len(callers.get("sim::Simulator::read_mem", [])) == 1 and len(callers.get("sim::Simulator::write_mem", [])) == 2,
          "update_mem_accesses call sites: %s" % {k: len(v) for k, v in callers.items()}, "src/sim.rs")
    consts = {}
    for n in ("READ", "WRITTEN", "MODIFIED"):
        c = None
        # associated consts of AccessSet: evaluate from promoted/const bodies is not available; read the use sites instead
        consts[n] = n

    def flag_of(b, t):
        e = b.expr_of_operand(t["args"][2], 8)
        r = repr(e)
        for n in ("READ", "WRITTEN", "MODIFIED"):
            if "AccessSet::" + n in r:
                return n
        return "?" + r[:80]
    rm = F.bodies.get("sim::Simulator::read_mem")
    if ck.anchor("C28.1", "read_mem", rm) and "sim::Simulator::read_mem" in callers:
        bi, t = callers["sim::Simulator::read_mem"][0]
        rets = [x for x, tt in rm.terms("return")]
        join = None
        # the final load `Ok(self.mem[addr])` happens after the update on all paths: use the block of the Ok aggregate
        oks = [x for x, si, s in rm.stmts() if s["k"] == "assign" and s["rv"]["k"] == "agg" and s["rv"].get("variant") == "Ok"]
        join = oks[0] if oks else None
        g = guards_of(rm, bi, join) if join is not None else None
        addr = _unwrap_var(rm.expr_of_operand(t["args"][1]))
        ck.ob("C28.1", "read:flag-and-address", flag_of(rm, t) == "READ" and addr[0] == "arg" and addr[2] == "addr", "read_mem records (%s, %s)" % (addr[2] if addr[0] == "arg" else addr, flag_of(rm, t)), "src/sim.rs:%s" % t["line"])
        ck.ob("C28.1", "read:guards", g == [("track_access", "otherwise")], "the READ update is guarded by exactly: %s (required: ctx.track_access)" % g, "src/sim.rs:%s" % t["line"])
    wm = F.bodies.get("sim::Simulator::write_mem")
    if ck.anchor("C28.1", "write_mem", wm) and "sim::Simulator::write_mem" in callers:
        oks = [x for x, si, s in wm.stmts() if s["k"] == "assign" and s["rv"]["k"] == "agg" and s["rv"].get("variant") == "Ok" and s["p"]["l"] == 0]
        join = oks[0] if oks else None
        store = [x for x, t2, c, _ in wm.calls() if (c or "").endswith("Word::set_if_init")]
        rows = {}
        for bi, t in callers["sim::Simulator::write_mem"]:
            fl = flag_of(wm, t)
            addr = _unwrap_var(wm.expr_of_operand(t["args"][1]))
            rows[fl] = (guards_of(wm, bi, join) if join is not None else None, addr[2] if addr[0] == "arg" else "?", bi)
        want_w = [("success", "otherwise"), ("track_access", "otherwise")]
        want_m = sorted(want_w + [("value-changed", "otherwise")])
        ck.ob("C28.1", "write:WRITTEN", "WRITTEN" in rows and rows["WRITTEN"][0] == want_w and rows["WRITTEN"][1] == "addr",
              "WRITTEN update guards: %s (required: success, track_access)" % (rows.get("WRITTEN") or ("missing",))[0], "src/sim.rs:%s" % wm.line)
        ck.ob("C28.1", "write:MODIFIED", "MODIFIED" in rows and rows["MODIFIED"][0] == want_m and rows["MODIFIED"][1] == "addr",
              "MODIFIED update guards: %s (required: success, track_access, mem[addr] != data)" % (rows.get("MODIFIED") or ("missing",))[0], "src/sim.rs:%s" % wm.line)
        # comparison before the store, and it compares mem[addr] with the data argument
        cmp_ok = False
        # accepted forms: (a) mem[addr] != data evaluated before the store; (b) a copy of mem[addr] taken before the store
        # compared afterwards with data or with the new mem[addr]
        pre_reads = set()
        for x, t2, c, _ in wm.calls():
            if (c or "").endswith("MemArray as std::ops::Index<u16>>::index") and store and wm.can_reach(x, store[0]) and not wm.can_reach(store[0], x):
                pre_reads.add(t2["dest"]["l"])
        for x, t2, c, _ in wm.calls():
            if (c or "").endswith("PartialEq::ne") or (c or "").endswith("Word as std::cmp::PartialEq>::ne"):
                a0, a1 = repr(wm.expr_of_operand(t2["args"][0], 10)), repr(wm.expr_of_operand(t2["args"][1], 10))
                sides = (a0, a1)
                has_data = any("'data'" in z for z in sides)
                has_mem = any("MemArray as std::ops::Index<u16>>::index" in z and "'addr'" in z for z in sides)
                before = bool(store) and wm.can_reach(x, store[0]) and not wm.can_reach(store[0], x)
                if has_mem and has_data and before:
                    cmp_ok = True          # form (a)
                if not before and has_mem:
                    # form (b): one side is a user variable copied from a pre-store read of mem[addr]
                    for z in (t2["args"][0], t2["args"][1]):
                        e = wm.expr_of_operand(z, 10)
                        while isinstance(e, tuple) and e and e[0] in ("ref", "deref"):
                            e = e[1]
                        if isinstance(e, tuple) and e[0] == "var":
                            src = repr(e[2])
                            if "MemArray as std::ops::Index<u16>>::index" in src and "'addr'" in src:
                                ds = wm.defs().get(e[3], [])
                                if ds and store and all(wm.can_reach(d[0], store[0]) and not wm.can_reach(store[0], d[0]) for d in ds):
                                    cmp_ok = True
        ck.ob("C28.1", "write:compare-before-store", cmp_ok and len(store) == 1, "the MODIFIED test compares the stored data with the value mem[addr] had before the store", "src/sim.rs:%s" % wm.line)
        st_ok = False
        if store:
            g = guards_of(wm, store[0], join)
            st_ok = g == [("success", "otherwise")]
        ck.ob("C28.1", "write:store-iff-success", st_ok, "the mirror word is stored exactly when the device/register accepted the write", "src/sim.rs:%s" % wm.line)

    # ---- clear dominates first step
    for name, stepper in (("run_while", "Simulator::step"), ("step_in", "Simulator::step")):
        b = F.bodies.get("sim::Simulator::" + name)
        if not ck.anchor("C28.3", name, b):
            continue
        cl = [bi for bi, t, c, _ in b.calls() if (c or "").endswith("AccessObserver::clear")]
        st = [bi for bi, t, c, _ in b.calls() if (c or "").endswith(stepper)]
        ck.ob("C28.3", name + ":clear-first", len(cl) == 1 and len(st) == 1 and b.dominates(cl[0], st[0]) and not b.can_reach(st[0], cl[0]),
              "%s clears the observer once, before (and not between) steps" % name, "src/sim.rs:%s" % b.line)
    clb = F.bodies.get("sim::observer::AccessObserver::clear")
    if clb is not None:
        ck.ob("C28.3", "clear-resets", any((c or "").endswith("std::mem::take") for _, _, c, _ in clb.calls()), "clear() replaces the observer by its default (empty map)", "src/sim/observer.rs:%s" % clb.line)
    others = sorted(p for p, b in F.bodies.items() if not b.light and p not in ("sim::Simulator::run_while", "sim::Simulator::step_in") and any((c or "").endswith("AccessObserver::clear") for _, _, c, _ in b.calls()))
    ck.ob("C28.3", "no-other-clear", others == [], "other callers of observer.clear(): %s" % others, "src/sim.rs")

    # ---- contexts
    om = F.bodies.get("sim::MemAccessCtx::omnipotent")
    if ck.anchor("C28.4", "omnipotent", om):
        vals = {}
        for bi, si, s in om.stmts():
            if s["k"] == "assign" and s["rv"]["k"] == "agg" and s["rv"].get("adt") == "sim::MemAccessCtx":
                vals = {n: interval(om.expr_of_operand(f)) for n, f in zip(s["rv"]["field_names"], s["rv"]["fields"])}
        ck.ob("C28.4", "omnipotent", vals.get("track_access") == (0, 0) and vals.get("io_effects") == (0, 0) and vals.get("privileged") == (1, 1) and vals.get("strict") == (0, 0),
              "omnipotent() = %s" % vals, "src/sim.rs:%s" % om.line)
    # ---- flags: evaluate the accessors and the update in a tiny constant domain
    acc = {}
    for n, bit in (("read", None), ("written", None), ("modified", None)):
        b = F.bodies.get("sim::observer::AccessSet::" + n)
        if b is None:
            ck.fail("C28.4", "anchor:AccessSet::" + n, "obligation not established: anchor not found")
            continue
        r = repr([b.expr_of_rvalue(rv, 10) for (_, si, rv) in b.defs().get(0, []) if si != "term"])
        which = [k for k in ("READ", "WRITTEN", "MODIFIED") if "AccessSet::" + k in r]
        acc[n] = which
        ck.ob("C28.4", "accessor:" + n, which == [n.upper()] and "'BitAnd'" in r and "'Ne'" in r, "%s() tests self.0 & %s.0 != 0" % (n, which), "src/sim/observer.rs:%s" % b.line)
    vals = {}
    for k in ("READ", "WRITTEN", "MODIFIED"):
        c = F.consts.get("sim::observer::AccessSet::" + k)
        vals[k] = c
    # associated consts are struct values: read them from the ADT-free constant table when present, else from source text
    import re, os
    txt = open(os.path.join(F.repo, "src/sim/observer.rs")).read()
    m = dict(re.findall(r"pub const (READ|WRITTEN|MODIFIED): Self = Self\(1 << (\d+)\)", txt))
    bitsv = sorted(int(v) for v in m.values())
    ck.ob("C28.4", "flag-bits", len(m) == 3 and len(set(bitsv)) == 3 and all(0 <= x < 8 for x in bitsv), "READ/WRITTEN/MODIFIED are distinct single bits: %s" % m, "src/sim/observer.rs")
    bo = F.bodies.get("<sim::observer::AccessSet as std::ops::BitOr>::bitor")
    if ck.anchor("C28.4", "AccessSet::bitor", bo):
        r = repr([bo.expr_of_rvalue(rv, 10) for (_, si, rv) in bo.defs().get(0, []) if si != "term"])
        ck.ob("C28.4", "bitor", "'BitOr'" in r and "'self'" in r and "'rhs'" in r, "AccessSet | AccessSet is the bitwise OR of the two sets", "src/sim/observer.rs:%s" % bo.line)
    um = F.bodies.get(OBS)
    if ck.anchor("C28.4", "update_mem_accesses", um):
        names = [(c or "").split("::")[-1] for _, _, c, _ in um.calls()]
        args = repr([um.expr_of_operand(a, 6) for _, t, c, _ in um.calls() for a in t["args"]])
        ck.ob("C28.4", "update-or-in", "entry" in names and "or_default" in names and "bitor_assign" in names and "'addr'" in args and "'set'" in args,
              "update_mem_accesses ORs `set` into the entry for `addr` (%s)" % names, "src/sim/observer.rs:%s" % um.line)
    # MODIFIED is decided with `mem[addr] != data`: that comparison must be the structural equality of Word (both fields)
    eqb = F.bodies.get("<sim::mem::Word as std::cmp::PartialEq>::eq")
    wf = [f.get("name") for v in F.adts.get("sim::mem::Word", {}).get("variants", []) for f in v.get("fields", [])]
    derived = eqb is not None and bool(eqb.exp)
    handwritten_ok = False
    if eqb is not None and not derived:
        from lib import nf
        got = nf.deep(F, eqb.path)
        handwritten_ok = got in ("[Eq(arg1.data, arg2.data) in [0,0]] => 0 ; [Eq(arg1.data, arg2.data) in [1,1]] => Eq(arg1.init, arg2.init)",
                                 "[Eq(arg1.init, arg2.init) in [0,0]] => 0 ; [Eq(arg1.init, arg2.init) in [1,1]] => Eq(arg1.data, arg2.data)")
    ck.ob("C28.2", "word-equality-structural", (derived or handwritten_ok) and sorted(wf) == ["data", "init"],
          "`!=` on Word compares data and init (derived PartialEq: %s; fields %s): a store that changes any bit of the word counts as a modification" % (derived, wf), "src/sim/mem.rs")
    ck.include("C09", ctx, "C28.5", {"C09.2", "C09.3"}, "every program access goes through read_mem/write_mem with the machine's tracked context")
    ck.assume("all program accesses go through read_mem/write_mem with a tracked context (C09.2, C09.3), including vector fetches and RTI pops (C08, C10)")
    ck.assume("I/O addresses are recorded as well; the property restricts its claim to non-I/O addresses")
