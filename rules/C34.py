"""C34 - Timer interrupts follow the configured interval (shape of the countdown automaton)."""
from lib import panics, simx
from lib.panics import _unwrap_var, interval, _agg_name

LEVEL = "other"
T = "sim::device::timer::TimerDevice"


def _payload(u, which):
    """u is exactly `*payload` of the Bound returned by r.<which>()"""
    u = _unwrap_var(u)
    if u[0] == "deref":
        u = _unwrap_var(u[1])
    if u[0] != "field" or u[2] != "0":
        return False
    d = _unwrap_var(u[1])
    if d[0] != "downcast":
        return False
    c = _unwrap_var(d[1])
    return c[0] == "call" and (c[1] or "").endswith("RangeBounds::" + which) and "('arg', 1," in repr(c[2][0])


def run(ck, ctx):
    F = ctx.F
    panics.FACTS = F
    ck.rule("R4: TimerDevice::poll_interrupt first returns None when !enabled, before any store or call; otherwise it is a three-arm automaton on `time`: "
            "{0} -> resample (reset_remaining), None; {1} -> time := 0, Some(vectored(vect, priority)); [2, inf) -> time -= 1, None. R6: sampling is "
            "random_range over exactly the stored bounds with the inclusive/exclusive flag carried; io_reset and reset_remaining resample.")
    ck.explanation = ("With these arms the number of None polls between two Some polls equals the sampled value t >= 1 (after Some: time = 0; one None "
                      "resamples to t; t-1 decrements; then Some), and the first interrupt comes at most one poll after the range's maximum. The arms "
                      "are extracted from the SwitchInt on self.time and normalised to intervals.")
    b = F.bodies.get("<sim::device::timer::TimerDevice as sim::device::ExternalDevice>::poll_interrupt")
    if not ck.anchor("C34.1", "poll_interrupt", b):
        return
    where = "src/sim/device/timer.rs:%s" % b.line
    # ---- enabled guard first
    t0 = b.blocks[0]["term"]
    d0 = _unwrap_var(b.expr_of_operand(t0["discr"], 8)) if t0["k"] == "switch" else None
    first_ok = d0 is not None and d0[0] == "field" and d0[2] == "enabled" and not [s for s in b.blocks[0]["stmts"] if s["k"] == "assign" and s["p"]["proj"]]
    none_ret = False
    if first_ok:
        dis = [tb for v, tb in t0["values"] if v == 0]
        # the disabled edge leads to `return None` without any call or store
        seen = set()
        st = list(dis)
        clean = True
        got_none = False
        while st:
            x = st.pop()
            if x in seen:
                continue
            seen.add(x)
            blk = b.blocks[x]
            for s in blk["stmts"]:
                if s["k"] == "assign" and s["p"]["proj"]:
                    clean = False
                if s["k"] == "assign" and s["p"]["l"] == 0 and s["rv"]["k"] == "agg" and s["rv"].get("variant") == "None":
                    got_none = True
            if blk["term"]["k"] == "call":
                clean = False
            st.extend(b.succs(x))
        none_ret = clean and got_none and bool(dis)
    ck.ob("C34.1", "disabled-first", first_ok and none_ret, "the first test is self.enabled; the disabled edge returns None with no store and no call", where)
    # ---- arms on self.time
    sw = None
    for bi, t in b.terms("switch"):
        d = _unwrap_var(b.expr_of_operand(t["discr"], 8))
        if d[0] == "field" and d[2] == "time":
            sw = (bi, t)
    if sw is None:
        ck.fail("C34.1", "arms", "obligation not established: match on self.time not found", where)
        return
    bi, t = sw
    arms = {v: tb for v, tb in t["values"]}
    arms["rest"] = t["otherwise"]
    ck.ob("C34.1", "arm-values", set(k for k in arms if k != "rest") == {0, 1}, "explicit arms of the match on time: %s" % sorted(k for k in arms if k != "rest"), where)

    def arm_facts(tb):
        blocks = [x for x in range(len(b.blocks)) if b.dominates(tb, x)]
        calls = [(c or "").split("::")[-1] for x, tt, c in simx.calls_in(b, blocks, [""])]
        stores = []
        for x in blocks:
            for s in b.blocks[x]["stmts"]:
                if s["k"] == "assign" and s["p"]["proj"] and any(isinstance(e, dict) and e.get("name") for e in s["p"]["proj"]):
                    nm = [e.get("name") for e in s["p"]["proj"] if isinstance(e, dict) and e.get("name")][0]
                    stores.append((nm, b.expr_of_rvalue(s["rv"], 8)))
        rets = []
        for x in blocks:
            for s in b.blocks[x]["stmts"]:
                if s["k"] == "assign" and s["p"]["l"] == 0 and not s["p"]["proj"] and s["rv"]["k"] == "agg":
                    rets.append(s["rv"].get("variant"))
        return calls, stores, rets
    if 0 in arms:
        calls, stores, rets = arm_facts(arms[0])
        ck.ob("C34.1", "arm-0", calls == ["reset_remaining"] and not stores and rets == ["None"], "time == 0: calls %s, stores %s, returns %s (required: resample, None)" % (calls, [s[0] for s in stores], rets), where)
    if 1 in arms:
        calls, stores, rets = arm_facts(arms[1])
        st_ok = len(stores) == 1 and stores[0][0] == "time" and interval(stores[0][1]) == (0, 0)
        args_ok = False
        for x, tt, c in simx.calls_in(b, [y for y in range(len(b.blocks)) if b.dominates(arms[1], y)], ["Interrupt::vectored"]):
            a = [repr(b.expr_of_operand(z, 6)) for z in tt["args"]]
            args_ok = "'vect'" in a[0] and "'priority'" in a[1]
        ck.ob("C34.1", "arm-1", calls == ["vectored"] and st_ok and rets == ["Some"] and args_ok, "time == 1: calls %s, stores %s, returns %s (required: time := 0, Some(vectored(vect, priority)))" % (calls, [s[0] for s in stores], rets), where)
    calls, stores, rets = arm_facts(arms["rest"])
    dec_ok = len(stores) == 1 and stores[0][0] == "time" and "SubWithOverflow" in repr(stores[0][1]) and "('const', 1, 'u32')" in repr(stores[0][1]) and "'time'" in repr(stores[0][1])
    ck.ob("C34.1", "arm-rest", calls == [] and dec_ok and rets == ["None"], "time >= 2: calls %s, stores %s, returns %s (required: time -= 1, None)" % (calls, [s[0] for s in stores], rets), where)
    # ---- sampling
    tg = F.bodies.get(T + "::try_generate_time")
    if ck.anchor("C34.2", "try_generate_time", tg):
        rows = {}
        for bi2, tt, c, _ in tg.calls():
            if (c or "").endswith("random_range"):
                e = tg.expr_of_operand(tt["args"][1], 10)
                u = _unwrap_var(e)
                if u[0] == "call" and (u[1] or "").endswith("RangeInclusive::<Idx>::new"):
                    kind, fs = "inclusive", u[2]
                else:
                    an, fs = _agg_name(e)
                    kind = "exclusive" if an == "std::ops::Range" else "?"
                names = tuple("start" if "'start'" in repr(f) else "end" if "'end'" in repr(f) else "?" for f in fs)
                flag = None
                for ex, lo, hi in panics.dominating_conditions(tg, bi2):
                    if "'end_incl'" in repr(ex) and lo is not None and lo == hi:
                        flag = lo
                rows[flag] = (kind, names)
        ck.ob("C34.2", "sampling", rows == {1: ("inclusive", ("start", "end")), 0: ("exclusive", ("start", "end"))}, "sampling by end_incl flag: %s" % rows, "src/sim/device/timer.rs:%s" % tg.line)
    for name in (T + "::reset_remaining", "<sim::device::timer::TimerDevice as sim::device::ExternalDevice>::io_reset"):
        bb = F.bodies.get(name)
        if ck.anchor("C34.2", name, bb):
            st = [(nm) for bi2, si, s in bb.stmts() if s["k"] == "assign" and s["p"]["proj"] for nm in [e.get("name") for e in s["p"]["proj"] if isinstance(e, dict) and e.get("name")][:1]]
            calls = [(c or "").split("::")[-1] for _, _, c, _ in bb.calls()]
            ok = calls == ["try_generate_time"] and (st == ["time"] or any(t2.get("dest", {}).get("proj") and t2["dest"]["proj"][-1].get("name") == "time" for _, t2, c, _ in bb.calls()))
            ck.ob("C34.2", name.split("::")[-1] + ":resamples", ok, "%s sets time = try_generate_time()" % name.split("::")[-1], "src/sim/device/timer.rs:%s" % bb.line)
    sr = F.bodies.get("sim::device::timer::SampleRange::new")
    if ck.anchor("C34.2", "SampleRange::new", sr):
        rows = {}
        names = ["Included", "Excluded", "Unbounded"]
        for bi2, si, s in sr.stmts():
            if s["k"] == "assign" and s["rv"]["k"] == "agg" and s["rv"].get("agg") == "tuple" and len(s["rv"]["fields"]) == 2:
                fl = interval(sr.expr_of_operand(s["rv"]["fields"][1]))
                for ex, lo, hi in panics.dominating_conditions(sr, bi2):
                    if _unwrap_var(ex)[0] == "discr" and "end_bound" in repr(ex) and lo is not None and lo == hi:
                        rows[names[lo]] = fl[0] if fl else None
        # the start value per start-bound kind and the end value per end-bound kind
        srows, erows = {}, {}
        agg = [(bi2, s) for bi2, si, s in sr.stmts() if s["k"] == "assign" and s["rv"]["k"] == "agg" and s["rv"].get("adt", "").endswith("SampleRange")]
        def shape(rv_or_call, bi2):
            e = sr.expr_of_rvalue(rv_or_call, 10) if "rv_k" not in rv_or_call else None
            r = repr(e)
            u = _unwrap_var(e)
            iv = interval(e)
            if u[0] == "const":
                return "const:%s" % u[1]
            if u[0] == "call" and (u[1] or "").endswith("::expect") or u[0] == "call" and (u[1] or "").endswith("::unwrap"):
                inner = _unwrap_var(u[2][0])
                if inner[0] == "call" and (inner[1] or "").endswith("checked_add") and interval(inner[2][1]) == (1, 1) and "'downcast'" in repr(inner[2][0]) or (inner[0] == "call" and (inner[1] or "").endswith("checked_add") and interval(inner[2][1]) == (1, 1) and "Bound" in repr(inner[2][0])):
                    return "bound+1(checked)"
                return "call:" + str(u[1])
            if _payload(u, "start_bound"):
                return "bound"
            return u[0] + ":" + r[:80]
        if len(agg) == 1:
            ab, ast = agg[0]
            for fi, rows_ in ((0, srows), (1, erows)):
                op = ast["rv"]["fields"][fi]
                for (db, si2, rv) in simx.leaf_defs(sr, op["p"]["l"]) if op.get("p") else []:
                    kind = None
                    for ex, lo, hi in panics.dominating_conditions(sr, db if si2 != "term" else sr.blocks[db]["term"].get("target", db)):
                        if _unwrap_var(ex)[0] == "discr" and lo is not None and lo == hi:
                            kind = names[lo]
                    if si2 == "term":
                        e = sr.expr_of_call(sr.blocks[db]["term"], 10, None)
                        class _W(dict): pass
                        u = _unwrap_var(e)
                        sh = "?"
                        if u[0] == "call" and ((u[1] or "").endswith("::expect") or (u[1] or "").endswith("::unwrap")):
                            inner = _unwrap_var(u[2][0])
                            if inner[0] == "call" and (inner[1] or "").endswith("checked_add") and interval(inner[2][1]) == (1, 1) and _payload(inner[2][0], "start_bound"):
                                sh = "bound+1(checked)"
                        # the block of a call definition is the call block; its kind is decided by the conditions dominating it
                        for ex, lo, hi in panics.dominating_conditions(sr, db):
                            if _unwrap_var(ex)[0] == "discr" and lo is not None and lo == hi:
                                kind = names[lo]
                        rows_[kind] = sh
                    else:
                        rows_[kind] = shape(rv, db)
        # the end field comes out of the (value, flag) tuple: take the tuple's first components
        erows = {}
        for bi2, si, s in sr.stmts():
            if s["k"] == "assign" and s["rv"]["k"] == "agg" and s["rv"].get("agg") == "tuple" and len(s["rv"]["fields"]) == 2:
                e = sr.expr_of_operand(s["rv"]["fields"][0], 10)
                u = _unwrap_var(e)
                sh = "const:%s" % u[1] if u[0] == "const" else ("bound" if _payload(u, "end_bound") else "?")
                for ex, lo, hi in panics.dominating_conditions(sr, bi2):
                    if _unwrap_var(ex)[0] == "discr" and "end_bound" in repr(ex) and lo is not None and lo == hi:
                        erows[names[lo]] = sh
        ck.ob("C34.2", "start-values", srows == {"Included": "bound", "Excluded": "bound+1(checked)", "Unbounded": "const:0"}, "start bound -> start: %s" % srows, "src/sim/device/timer.rs:%s" % sr.line)
        ck.ob("C34.2", "end-values", erows == {"Included": "bound", "Excluded": "bound", "Unbounded": "const:4294967295"}, "end bound -> end: %s" % erows, "src/sim/device/timer.rs:%s" % sr.line)
        ck.ob("C34.2", "bound-flags", rows == {"Included": 1, "Excluded": 0, "Unbounded": 1}, "end bound -> end_incl: %s" % rows, "src/sim/device/timer.rs:%s" % sr.line)
    w = set()
    import discharge
    w = discharge._field_writers(F, T, "time")
    ck.ob("C34.3", "time-writers", w <= {"<sim::device::timer::TimerDevice as sim::device::ExternalDevice>::poll_interrupt", "<sim::device::timer::TimerDevice as sim::device::ExternalDevice>::io_reset", T + "::reset_remaining"},
          "writers of TimerDevice.time: %s" % sorted(w), "src/sim/device/timer.rs")
    ck.assume("the arithmetic conclusion (exactly t polls between interrupts, first interrupt within max+1 polls) is argued from the arms, not computed")
    ck.include("C31", ctx, "C34.4", {"C31.3"}, "a seeded timer is reproducible: the seed given by the host reaches StdRng::seed_from_u64 for every seed value")
