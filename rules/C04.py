"""C04 - Parsing never panics and its errors point inside the input."""
from lib import r3
import discharge

LEVEL = "other"


def entries(F):
    out = []
    for p, b in F.bodies.items():
        if b.light or b.owner is not None:
            continue
        if not (b.file == "src/parse.rs" or b.file.startswith("src/parse/")):
            continue
        # help texts, Display/Debug of errors are outside the property (it is about parse results and spans)
        if p.endswith("::help") or p.endswith("::fmt") or p.endswith("::source"):
            continue
        out.append(p)
    return sorted(out)


# logos' SpannedIter yields (token, span of that token): taking the span from its `next()` in an explicit loop is the same
# source as the closure parameter of `.spanned().map(|(tok, span)| ..)`
ALLOWED_CALLS = ("::clone", "parse::Parser::cursor", "::unwrap_or", "::unwrap_or_else", "::Deref>::deref", "<logos::SpannedIter<")


def _bad_nodes(e, acc, depth=0):
    """collect nodes that compute a span instead of passing one on"""
    if not isinstance(e, tuple) or not e or depth > 30:
        return
    k = e[0]
    if k == "bin":
        acc.append("arithmetic %s" % e[1])
    elif k == "agg" and e[1] == "adt" and e[2][0].startswith("std::ops::Range"):
        acc.append("span built ad hoc from %s" % (e[2][0],))
    elif k == "call":
        c = e[1] or "?"
        if not any(c.endswith(a) or a in c for a in ALLOWED_CALLS):
            acc.append("span computed by call to %s" % c)
            return
        if "<logos::SpannedIter<" in c:
            return                                  # a source of token spans: what the iterator is built from is not the span
    elif k == "const":
        acc.append("constant %r" % (e[1],))
    for x in e[1:]:
        if isinstance(x, tuple):
            if x and isinstance(x[0], str):
                _bad_nodes(x, acc, depth + 1)
            else:
                for y in x:
                    _bad_nodes(y, acc, depth + 1)


def span_provenance(ck, F):
    """C04.2 (R5+R6): ParseErr is only built by ParseErr::new/wrap, and at each call site the span
    argument is a token span, Parser::cursor(), a span parameter or last_label_span - passed on,
    never computed."""
    rule = "C04.2"
    ck.rule("R6: provenance of the span argument of every ParseErr::new/wrap call (no arithmetic, no ad-hoc Range)")
    # constructions of the ADT
    builders = set()
    for p, b in F.bodies.items():
        if b.light:
            continue
        for bi, si, s in b.stmts():
            if s["k"] == "assign" and s["rv"]["k"] == "agg" and s["rv"].get("adt") == "parse::ParseErr":
                builders.add(p)
    ck.ob(rule, "builders", builders == {"parse::ParseErr::new", "parse::ParseErr::wrap"},
          "ParseErr aggregates are built in %s" % sorted(builders), "src/parse.rs")
    n = 0
    for p, b in F.bodies.items():
        if b.light:
            continue
        for bb in [b] + list(b.promoted):
            idx = {}
            for bi, t, callee, raw in bb.calls():
                if callee not in ("parse::ParseErr::new", "parse::ParseErr::wrap"):
                    continue
                n += 1
                e = bb.expr_of_operand(t["args"][1])
                bad = []
                _bad_nodes(e, bad)
                k = "%s|%s" % (p, callee.split("::")[-1])
                idx[k] = idx.get(k, 0) + 1
                ck.ob(rule, "%s#%d" % (k, idx[k]), not bad,
                      "span argument: %s" % ("; ".join(bad) if bad else "passed on from a token span / cursor / parameter"),
                      "%s:%s" % (b.file, t["line"]))
    ck.floor(rule, "ParseErr::new/wrap call sites", n, 26)
    # cursor(): a token span or the empty span 0..0
    cur = F.bodies.get("parse::Parser::cursor")
    if ck.anchor(rule, "parse::Parser::cursor", cur):
        rets = cur.defs().get(0, [])
        ok = True
        why = []
        for (bi, si, rv) in rets:
            e = cur.expr_of_call(rv, 10, None) if si == "term" else cur.expr_of_rvalue(rv, 10)
            r = repr(e)
            if e[0] == "call" and (e[1] or "").endswith("::clone"):
                why.append("clone of a token span")
            elif e[0] == "agg" and e[2][0] == "std::ops::Range" and all(x == ("const", 0, "usize") for x in e[3]):
                why.append("0..0")
            else:
                ok = False
                why.append("other: " + r[:120])
        ck.ob(rule, "cursor-returns", ok and len(rets) >= 2, "cursor() returns: " + ", ".join(why), "src/parse.rs:%s" % cur.line)


def run(ck, ctx):
    F = ctx.F
    ck.rule("R3 over every function defined in src/parse.rs and src/parse/lex.rs (parse_ast, Parser, every Parse/TokenParse "
            "impl, the lexer callbacks including the inline closures that logos pastes into generated functions) and all they reach")
    ck.explanation = ("Panic reachability with discharge (see C16). The logos-generated state machine is trusted; its user "
                      "callbacks are analysed. Discharges that rely on the token language cite the token regexes read from "
                      "the #[regex] attributes (first-character facts), not regex text equality.")
    ents = entries(F)
    r3.run(ck, F, "C04.1", ents, discharge.TABLE, scope="C04", floor_sites=32, floor_bodies=70)
    ck.floor("C04.1", "entry points", len(ents), 60)
    span_provenance(ck, F)
    ck.assume("logos 0.15 generated lexer (state machine, span computation, longest match) is trusted")
    ck.assume("std str/parse functions are trusted beyond the curated list of argument-dependent panics")
