"""C25 - Source position queries are consistent (normal forms of the SourceInfo accessors, range clauses)."""
from lib import panics, nf

LEVEL = "other"
SI = "asm::SourceInfo::"


def ab(s, pairs):
    for a, b in pairs:
        s = s.replace(a, b)
    return s


def run(ck, ctx):
    F = ctx.F
    panics.FACTS = F
    ck.rule("R6 normal forms (name-, layout- and spelling-independent; multiply-assigned locals resolved by reaching definitions): nl_indices = positions "
            "of '\\n' then src.len(); count_lines = nl_indices.len(); get_line = partition_point(nl < index); raw_line_span guards line in 0..count_lines, "
            "start = 0 | nl[line-1]+1, end = min(nl[line]+1, len) | len; line_span trims by length differences only; get_pos_pair clamps the line to "
            "count_lines-1 and measures the column from that line's raw start (R4: clamp argument = fallback argument, so the fallback is live); "
            "R5: nl_indices/src are written only by from_string")
    ck.explanation = ("SourceInfo is a handful of small pure functions; each is compared in normal form with the form the property dictates. "
                      "The range clauses (line within [0, n-1], fallback never taken for a valid clamp) follow from the clamp normal form and the callee's own guard.")

    def ex(key, fn, accepted, what, x=False, abbr=()):
        b = F.bodies.get(SI + fn)
        if not ck.anchor("C25.1", SI + fn, b):
            return
        got = ab(nf.deep(F, SI + fn), abbr)
        ok = got in accepted
        ck.ob("C25.1", key, ok, "%s; normal form: %s%s" % (what, got, "" if ok else "  (accepted: %s)" % " | ".join(accepted)), "src/asm.rs:%s" % b.line)

    ex("from_string", "from_string", ["SourceInfo(arg1, Iterator::collect(Iterator::chain(Iterator::map(match_indices(deref(arg1), 10), \u03bb[arg2.0]()), array(String::len(arg1)))))"],
       "nl_indices = byte positions of every '\\n', then the length of the text; src is the same string")
    ex("new", "new", ["SourceInfo::from_string(to_string(arg1))"], "new delegates to from_string on a copy of the text")
    ex("count_lines", "count_lines", ["Vec::len(arg1.nl_indices)"], "line count = number of newlines + 1 (the sentinel)")
    ex("source", "source", ["deref(arg1.src)"], "source returns the text")
    ex("get_line", "get_line", ["partition_point(deref(arg1.nl_indices), \u03bb[Lt(arg2, @entry{arg2})](arg2))"], "line of an index = number of line ends strictly before it (a newline belongs to the line it ends)")
    g = "Range::contains(Range(0, SourceInfo::count_lines(arg1)), arg2)"
    nl = "get(deref(arg1.nl_indices), arg2)"
    ex("raw_line_span", "raw_line_span",
       ["[%s in [0,0]] => Option::None() ; [%s in [1,1]] => Option::Some(Range(phi{arg2 in [0,0] => 0 | arg2 in [1,18446744073709551615] => Add(1, index(arg1.nl_indices, Sub(arg2, 1)))}, "
        "phi{discr(%s) in [0,0] => String::len(arg1.src) | discr(%s) in [1,1] => Ord::min(Add(1, %s as Some.0), String::len(arg1.src))}))" % (g, g, nl, nl, nl)],
       "None outside 0..count_lines; start = 0 or one past the previous newline; end = one past this line's newline, capped at the length", x=True)
    R = "try(SourceInfo::raw_line_span(arg1, arg2))"
    abbr = [(R, "R"), ("SourceInfo::raw_line_span(arg1, arg2)", "raw"), ("index(arg1.src, Range(R.start, R.end))", "L")]
    ex("line_span", "line_span",
       ["[fail(raw)] => propagate(raw) ; [ok(raw)] => Option::Some(Range(Add(Sub(len(trim_end(L)), len(trim_start(trim_end(L)))), R.start), Sub(R.end, Sub(len(L), len(trim_end(L))))))"],
       "trimmed span = raw span moved inwards by the lengths trim_end / trim_start remove", x=True, abbr=abbr)
    ex("read_line", "read_line", ["Option::map(SourceInfo::line_span(arg1, arg2), \u03bb[index(@entry{arg1}.src, arg2)](arg1))"], "read_line = text of line_span in the same source")
    clamp = "Ord::min(SourceInfo::get_line(arg1, arg2), saturating_sub(SourceInfo::count_lines(arg1), 1))"
    ex("get_pos_pair", "get_pos_pair",
       ["tuple(C, Sub(arg2, Option::unwrap_or(SourceInfo::raw_line_span(arg1, C), Range(0, 0)).start))"],
       "position = (line clamped to the last line, index - raw start of that same line)", x=True, abbr=[(clamp, "C")])
    # R5: the two fields are written only by from_string (struct literal) - no other constructor, no field store
    writers = set()
    for p, b in F.bodies.items():
        if b.light or not b.file.startswith("src/"):
            continue
        for bi, si, s in b.stmts():
            if s["k"] != "assign":
                continue
            if s["rv"]["k"] == "agg" and (s["rv"].get("adt") or "").endswith("asm::SourceInfo"):
                writers.add(p)
            for e in s["p"]["proj"]:
                if isinstance(e, dict) and e.get("adt", "").endswith("asm::SourceInfo") and e.get("name") in ("src", "nl_indices"):
                    writers.add(p)
    derived = set(w for w in writers if F.bodies[w].exp)
    ck.ob("C25.2", "field-writers", writers - derived == {SI + "from_string"}, "SourceInfo's fields are written only by %s (derives: %s)" % (sorted(writers - derived), sorted(derived)), "src/asm.rs")
    ck.assume("str::match_indices, partition_point, trim_start/trim_end, Ord::min are std (trusted)")
    ck.assume("the arithmetic consequences (e.g. 0 <= column) are argued from the normal forms: the clamped line is valid, so raw_line_span returns Some and its start <= index")
