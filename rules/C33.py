"""C33 - Keyboard and display under lock contention: what a failed try-lock turns into (lock-outcome flow)."""
import re
from lib import panics, shape, nf

LEVEL = "other"
L = "λ"
KB = "sim::device::keyboard::BufferedKeyboard"
DS = "sim::device::display::BufferedDisplay"
KBT = "<%s as sim::device::keyboard::KeyboardDevice>::" % KB
DST = "<%s as sim::device::display::DisplayDevice>::" % DS
KW = "sim::device::keyboard::<impl sim::device::ExternalDevice for sim::device::DevWrapper<K, (dyn sim::device::keyboard::KeyboardDevice + 'static)>>::"
DW = "sim::device::display::<impl sim::device::ExternalDevice for sim::device::DevWrapper<D, (dyn sim::device::display::DisplayDevice + 'static)>>::"


def run(ck, ctx):
    F = ctx.F
    panics.FACTS = F
    isa = ctx.isa["memory_map"]
    ck.rule("Lock-outcome flow (effect analysis on MIR, no schedule is explored): (1) the simulator thread only ever *tries* the buffer locks (no blocking lock call "
            "in src/sim), try_input/try_output map Ok and Poisoned to the guard and WouldBlock to None; (2) readiness under a busy lock is `not ready` (the OS "
            "poll loops spin, nothing is consumed); (3) register semantics: KBSR = ready<<15 | ie<<14, DSR = ready<<15, an effectful KBDR read pops exactly the "
            "front byte, a peek does not, a DDR write pushes exactly one byte at the back; (4) atomicity: the WouldBlock outcome of a *data* access (pop_input, "
            "send_output) must not reach a path on which the simulated instruction completes as if the access had happened - traced through the delegation "
            "chain (device -> DevWrapper -> SimDevice -> DeviceHandler) into read_mem/write_mem")
    ck.explanation = ("The property quantifies over thread schedules, which no static rule enumerates. What is decidable from the code is where the outcome 'lock was busy' "
                      "goes: if it is merged with 'no data'/'not handled' and the instruction still returns Ok, then holding the lock during the one data-access "
                      "instruction after a successful readiness poll loses or duplicates a byte - a necessary condition of the property, decided structurally.")
    # ---------------------------------------------------------------- C33.1 only try-locks, and what they return
    blocking, trying = [], []
    for p, b in sorted(F.bodies.items()):
        if b.light or not b.file.startswith("src/sim"):
            continue
        for bi, t, c, _ in b.calls():
            c = c or ""
            if c.endswith("RwLock::<T>::write") or c.endswith("RwLock::<T>::read") or c.endswith("Mutex::<T>::lock"):
                blocking.append((p, shape.short_callee(c), t["line"]))
            if c.endswith("RwLock::<T>::try_write") or c.endswith("RwLock::<T>::try_read") or c.endswith("Mutex::<T>::try_lock"):
                trying.append((p, shape.short_callee(c)))
    ck.ob("C33.1", "no-blocking-lock", not blocking, "blocking lock acquisitions in src/sim: %s (the simulator must never wait for a host thread)" % blocking, "src/sim/device.rs")
    ck.floor("C33.1", "try-lock sites", len(trying), 10)
    tl = "RwLock::try_write(deref(arg1.buffer))"
    want_try = ("[discr(%s as Err.0) in [0,0] & discr(%s) in [1,1]] => Option::Some(PoisonError::into_inner(%s as Err.0 as Poisoned.0)) ; "
                "[discr(%s as Err.0) in [1,1] & discr(%s) in [1,1]] => Option::None() ; [discr(%s) in [0,0]] => Option::Some(%s as Ok.0)") % ((tl,) * 7)
    nf.expect_deep(ck, F, "C33.1", "try_input", KB + "::try_input", [want_try], "keyboard buffer: Ok/Poisoned -> guard, WouldBlock -> None", file="src/sim/device/keyboard.rs")
    nf.expect_deep(ck, F, "C33.1", "try_output", DS + "::try_output", [want_try], "display buffer: Ok/Poisoned -> guard, WouldBlock -> None", file="src/sim/device/display.rs")
    # ---------------------------------------------------------------- C33.2 readiness
    nf.expect_deep(ck, F, "C33.2", "keyboard-ready", KBT + "ready", ["Option::is_some_and(BufferedKeyboard::try_input(arg1), %s[Not(VecDeque::is_empty(deref(arg2)))]())" % L],
                   "keyboard ready = lock obtained and buffer non-empty (busy lock -> not ready)", file="src/sim/device/keyboard.rs")
    nf.expect_deep(ck, F, "C33.2", "display-ready", DST + "ready", ["Option::is_some(BufferedDisplay::try_output(arg1))"], "display ready = lock obtained (busy lock -> not ready)", file="src/sim/device/display.rs")
    # ---------------------------------------------------------------- C33.3 register semantics
    kbsr, kbdr, dsr, ddr = isa["KBSR"], isa["KBDR"], isa["DSR"], isa["DDR"]
    nf.expect_deep(ck, F, "C33.3", "keyboard-io_read", KW + "io_read",
                   ["[arg2 in [0,65535]] => Option::None() ; [arg2 in [%d,%d]] => Option::Some(BitOr(Shl((KeyboardDevice::interrupts_enabled(deref(arg1)) as u16), 14), Shl((KeyboardDevice::ready(deref(arg1)) as u16), 15))) ; "
                    "[arg2 in [%d,%d] & arg3 in [0,0]] => Option::map(KeyboardDevice::get_input(deref(arg1)), fn:from) ; [arg2 in [%d,%d] & arg3 in [1,1]] => Option::map(KeyboardDevice::pop_input(deref_mut(arg1)), fn:from)" % (kbsr, kbsr, kbdr, kbdr, kbdr, kbdr)],
                   "KBSR = ready<<15 | ie<<14; KBDR consumes only when the access is effectful", file="src/sim/device/keyboard.rs")
    nf.expect_deep(ck, F, "C33.3", "display-io_read", DW + "io_read", ["[arg2 in [0,65535]] => Option::None() ; [arg2 in [%d,%d]] => Option::Some(Shl((DisplayDevice::ready(deref(arg1)) as u16), 15))" % (dsr, dsr)],
                   "DSR = ready<<15", file="src/sim/device/display.rs")
    nf.expect_deep(ck, F, "C33.3", "display-io_write", DW + "io_write", ["[arg2 in [0,65535]] => 0 ; [arg2 in [%d,%d]] => DisplayDevice::send_output(deref_mut(arg1), (arg3 as u8))" % (ddr, ddr)],
                   "a DDR write sends the low byte", file="src/sim/device/display.rs")
    ti = "BufferedKeyboard::try_input(arg1)"
    pop_nf = "[fail(%s)] => propagate(%s) ; [ok(%s)] => VecDeque::pop_front(deref_mut(try(%s)))" % (ti, ti, ti, ti)
    peek_nf = "[fail(%s)] => propagate(%s) ; [ok(%s)] => Option::copied(VecDeque::front(deref(try(%s))))" % (ti, ti, ti, ti)
    got_pop = nf.deep(F, KBT + "pop_input")
    got_peek = nf.deep(F, KBT + "get_input")
    ck.ob("C33.3", "pop-front-once", got_pop in (pop_nf, "VecDeque::pop_front(deref_mut(BufferedKeyboard::lock_input(arg1)))"), "pop_input removes exactly the front byte: %s" % got_pop, "src/sim/device/keyboard.rs")
    ck.ob("C33.3", "peek-keeps", got_peek == peek_nf, "get_input reads the front byte without removing it: %s" % got_peek, "src/sim/device/keyboard.rs")
    so = F.bodies.get(DST + "send_output")
    if ck.anchor("C33.3", "send_output", so):
        pushes = [nf.arg_x(so, t, 1, bi, 8) for bi, t, c, _ in so.calls() if (c or "").endswith("Vec::<T, A>::push")]
        ck.ob("C33.3", "push-once", pushes == ["arg2"], "send_output appends the byte exactly once: %s" % pushes, "src/sim/device/display.rs:%s" % so.line)
    # ---------------------------------------------------------------- C33.4 atomicity: where the WouldBlock outcome of a data access goes
    # delegation chain (fail closed if it changes shape)
    chain = [
        ("<%s as sim::device::ExternalDevice>::io_read" % KB, "io_read(DevWrapper::wrap(arg1), arg2, arg3)"),
        ("<%s as sim::device::ExternalDevice>::io_write" % DS, "io_write(DevWrapper::wrap(arg1), arg2, arg3)"),
    ]
    for path, want in chain:
        nf.expect_deep(ck, F, "C33.4", "chain:" + path.split(" as ")[0].split("::")[-1] + "::" + path.rsplit("::", 1)[1], path, [want], "delegates to the register wrapper", file="src/sim/device.rs")
    sd_r = nf.deep(F, "<sim::device::internals::SimDevice as sim::device::ExternalDevice>::io_read")
    sd_w = nf.deep(F, "<sim::device::internals::SimDevice as sim::device::ExternalDevice>::io_write")
    ck.ob("C33.4", "chain:SimDevice", "=> io_read(arg1 as Keyboard.0, arg2, arg3)" in sd_r and "=> io_write(arg1 as Display.0, arg2, arg3)" in sd_w, "SimDevice forwards reads/writes and returns the device's answer unchanged", "src/sim/device.rs")
    for nm in ("io_read", "io_write"):
        hb = F.bodies.get("<sim::device::DeviceHandler as sim::device::ExternalDevice>::" + nm)
        if ck.anchor("C33.4", "DeviceHandler::" + nm, hb):
            rets = [r for r in nf.cases_x(F, hb.path) or []]
            fw = [v for c, v in rets if v.startswith(nm + "(index_mut(")]
            ck.ob("C33.4", "chain:DeviceHandler::" + nm, len(fw) == 1, "DeviceHandler::%s returns the addressed device's answer unchanged: %s" % (nm, [v[:80] for c, v in rets]), "src/sim/device.rs:%s" % hb.line)
    # -- display: send_output on lock failure, write_mem on a refused write
    so_nf = nf.deep(F, DST + "send_output")
    refused_on_busy = "[discr(BufferedDisplay::try_output(arg1)) in [0,0]] => 0" in so_nf
    wm = F.bodies.get("sim::Simulator::write_mem")
    completes = None
    if ck.anchor("C33.4", "write_mem", wm):
        iow = [bi for bi, t, c, _ in wm.calls() if shape.short_callee(c) == "io_write" and "device_handler" in nf.arg_x(wm, t, 0, bi, 6)]
        okr = [bi for bi, si, s in wm.stmts() if s["k"] == "assign" and s["p"]["l"] == 0 and s["rv"]["k"] == "agg" and s["rv"].get("variant") == "Ok"]
        mirror = [bi for bi, t, c, _ in wm.calls() if (c or "").endswith("Word::set_if_init") and "index_mut" in nf.arg_x(wm, t, 0, bi, 6)]
        if len(iow) == 1 and len(okr) == 1 and len(mirror) == 1:
            completes = wm.can_reach(iow[0], okr[0], avoid=(mirror[0],))
        ck.ob("C33.4", "write_mem:shape", completes is not None, "write_mem: one device write (%s), one mirror store (%s), one Ok return (%s)" % (iow, mirror, okr), "src/sim.rs:%s" % wm.line)
    ck.ob("C33.4", "sim::Simulator::write_mem|device-write-refused|completes-Ok", not (refused_on_busy and completes),
          ("a DDR store whose lock attempt fails is dropped while the STI/STR/ST instruction completes: send_output returns false on WouldBlock (%s), the wrapper returns that value, and write_mem "
           "reaches Ok(()) from a refused device write without storing anything (%s). With the lock taken between the DSR poll and the DDR store the byte is lost") % (refused_on_busy, completes)
          if (refused_on_busy and completes) else "a refused device write cannot complete the instruction (send_output refuses on busy lock: %s; write_mem completes after refusal: %s)" % (refused_on_busy, completes),
          "src/sim.rs:%s" % (wm.line if wm else "?"))
    # -- keyboard: pop_input on lock failure, read_mem on a device read without data
    none_on_busy = got_pop.startswith("[fail(%s)] => propagate(%s)" % (ti, ti))
    rm = F.bodies.get("sim::Simulator::read_mem")
    stale = None
    if ck.anchor("C33.4", "read_mem", rm):
        ior = [(bi, t) for bi, t, c, _ in rm.calls() if shape.short_callee(c) == "io_read" and "device_handler" in nf.arg_x(rm, t, 0, bi, 6)]
        okr = [bi for bi, si, s in rm.stmts() if s["k"] == "assign" and s["p"]["l"] == 0 and s["rv"]["k"] == "agg" and s["rv"].get("variant") == "Ok"]
        sets = [bi for bi, t, c, _ in rm.calls() if (c or "").endswith("Word::set")]
        if len(ior) == 1 and len(okr) == 1 and sets:
            stale = rm.can_reach(ior[0][0], okr[0], avoid=tuple(sets))
            val = nf.pp_x(nf.XB(rm).expr_of_operand([s for bi, si, s in rm.stmts() if s["k"] == "assign" and s["p"]["l"] == 0 and s["rv"]["k"] == "agg" and s["rv"].get("variant") == "Ok"][0]["rv"]["fields"][0], 8, (okr[0], 10 ** 5)))
        ck.ob("C33.4", "read_mem:shape", stale is not None, "read_mem: one device read (%s), mirror stores (%s), one Ok return (%s)" % ([x[0] for x in ior], sets, okr), "src/sim.rs:%s" % rm.line)
    ck.ob("C33.4", "sim::Simulator::read_mem|device-read-refused|completes-with-stale-mirror", not (none_on_busy and stale),
          ("a KBDR load whose lock attempt fails returns the stale mirror word while the LDI/LDR/LD instruction completes: pop_input returns None on WouldBlock exactly as on an empty buffer (%s), "
           "and read_mem reaches Ok(mem[addr]) from a device read that produced nothing (%s). With the lock taken between the KBSR poll and the KBDR load the program receives a byte that was never queued (or an old one again)") % (none_on_busy, stale)
          if (none_on_busy and stale) else "a device read that could not take the lock cannot complete the instruction with stale data (%s / %s)" % (none_on_busy, stale),
          "src/sim.rs:%s" % (rm.line if rm else "?"))
    ck.assume("host threads follow the lock protocol of the buffers (RwLock); byte order inside the buffers is the host's push_back / the display's push")
    ck.assume("the OS routines poll KBSR/DSR before each data access (C11.4) - the window in question is between that poll and the access")
    ck.assume("not decided: anything that needs the set of schedules itself (fairness, progress of the poll loops)")
