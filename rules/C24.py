"""C24 - Line-to-address debug mapping is one-to-one (set agreement, record site, lookup normal forms)."""
from lib import panics, shape, tables, nf
from lib.panics import _unwrap_var

LEVEL = "other"
ST_NEW = "asm::SymbolTable::new"
DIRECTIVE = "ast::asm::Directive"


def excluded_from_recording(F, b, rec_block):
    """the set of Directive variants for which the pass-1 recording block is skipped, and whether instructions are
    recorded: every acyclic path to the recording block is walked with the constants assigned on it (the bool of a
    `matches!`, also through a copy or a `!`) deciding later switches, and the labels of the switches on the statement
    kind and on the directive variant are collected.  Independent of how the test is spelt (inline, helper, if/match)."""
    names = tables.variant_names(F, DIRECTIVE)
    res = {"excluded": None, "instr_recorded": None}
    # every decision on the statement's nucleus (kind, directive variant, and anything deeper such as the operand kind of
    # a .fill) on every path to the recording block; after folding and reduction a variant counts as recorded only when no
    # deeper decision restricts it (a variant recorded for some operands only is reported as partial)
    want = lambda x: x.startswith("discr(") and ".nucleus" in x
    pcs = nf.path_conditions(b, rec_block, want, track_consts=True, else_sets=True)
    if not pcs:
        return res
    terms = set()
    for pc in pcs:
        r = nf.resolve_labels(pc)
        if r is not None:
            terms.add(frozenset((d, v[1] if v[0] == "is" else "!{%s}" % ",".join(sorted(v[1]))) for d, v in r.items()))
    terms = nf.reduce_dnf(terms, {})
    rec = set()
    instr = False
    partial = set()
    for t in terms:
        nuc = [l for d, l in t if d.endswith(".nucleus)")]
        dirs = [l for d, l in t if d.endswith(" as Directive.0)")]
        deeper = [d for d, l in t if not d.endswith(".nucleus)") and not d.endswith(" as Directive.0)")]
        if len(nuc) > 1 or len(dirs) > 1:
            return res
        kind = nuc[0] if nuc else None
        is_dir = kind == "1" or (kind is not None and kind.startswith("!{") and "1" not in kind[2:-1].split(",") and "0" in kind[2:-1].split(","))
        is_ins = kind == "0" or (kind is not None and kind.startswith("!{") and "0" not in kind[2:-1].split(",") and "1" in kind[2:-1].split(","))
        if kind is None and not dirs and not deeper:
            instr = True
            rec |= set(names)
        elif is_ins and not dirs and not deeper:
            instr = True
        elif is_dir:
            if not dirs:
                vs = set(names)
            elif not dirs[0].startswith("!{"):
                vs = {names[int(dirs[0])]}
            else:
                ex = set(dirs[0][2:-1].split(","))
                vs = set(n for i, n in enumerate(names) if str(i) not in ex)
            if deeper:
                partial |= vs
            else:
                rec |= vs
        else:
            return res
    res["partial"] = sorted(partial - rec)
    if partial - rec:
        res["excluded"] = None
        res["instr_recorded"] = instr
        return res
    res["excluded"] = set(names) - rec
    res["instr_recorded"] = instr
    return res


def run(ck, ctx):
    F = ctx.F
    panics.FACTS = F
    ck.rule("R2 set agreement: the Directive variants skipped by the pass-1 line recording = the variants whose word_len row is the constant 0, every other "
            "row is >= 1 (so recorded addresses strictly increase inside a block); R4/R6 record site: the only store into the line vector is "
            "lines[get_line(stmt.span.start)].replace(cur.lc) inside the open-block branch, before the cursor shift of the same statement; normal forms of "
            "LineSymbolMap::new/get/find/iter/block_iter (forward lookup = predecessor-or-equal block + offset, reverse lookup = every block is searched, "
            "result start + offset) and of the delegating accessors")
    ck.explanation = ("A line is recorded iff its statement occupies memory; the forward and reverse lookups are inverse on strictly increasing blocks. "
                      "Decided on MIR: switch structure of the recording guard, word_len rows, dominance of the record over the shift, name-independent normal forms.")
    b = F.bodies.get(ST_NEW)
    if not ck.anchor("C24.1", ST_NEW, b):
        return
    where = "src/asm.rs:%s" % b.line
    gl = [(bi, t) for bi, t, c, _ in b.calls() if (c or "").endswith("SourceInfo::get_line")]
    rp = []
    for bi, t, c, _ in b.calls():
        if (c or "").endswith("Option::<T>::replace"):
            a0 = nf.pp(b.expr_of_operand(t["args"][0], 12))
            if a0.startswith("index_mut("):
                rp.append((bi, t, a0))
    idx = [bi for bi, t, c, _ in b.calls() if (c or "").endswith("IndexMut<I>>::index_mut") or (c or "").endswith("::index_mut")]
    ck.ob("C24.2", "single-record-site", len(gl) == 1 and len(rp) == 1 and len(idx) == 1,
          "pass 1 has %d get_line call(s), %d store(s) into the line vector, %d index_mut call(s) (required 1/1/1)" % (len(gl), len(rp), len(idx)), where)
    if len(gl) == 1 and len(rp) == 1:
        gbi, gt = gl[0]
        rbi, rt, a0 = rp[0]
        # --- C24.1 set agreement
        ex = excluded_from_recording(F, b, gbi)
        wl = tables.word_len_rows(F)
        zero = set(k for k, v in wl.items() if v == ("const", 0))
        ck.ob("C24.1", "recorded-iff-occupies-memory", ex["excluded"] is not None and ex["excluded"] == zero,
              "variants excluded from line recording: %s%s; variants with word_len == 0: %s" % (sorted(ex["excluded"] or []) or "not established", (" (recorded only for some operands: %s)" % ex.get("partial")) if ex.get("partial") else "", sorted(zero)), where)
        names = tables.variant_names(F, DIRECTIVE)
        nonzero = {k: v for k, v in wl.items() if k not in zero}
        ok_rows = set(nonzero) == set(names) - zero and all(v in (("const", 1), ("operand-value",), ("strlen+1",)) or (v[0] == "const" and v[1] >= 1) for v in nonzero.values())
        ck.ob("C24.1", "other-rows-nonzero", ok_rows, "word_len rows of recorded directives: %s (Blkw is non-zero by the parser's guard, C05)" % sorted(nonzero.items()), where)
        ck.floor("C24.1", "Directive variants", len(wl), 6)
        # --- C24.2 record site
        a_line = nf.pp(b.expr_of_operand(gt["args"][1], 12))
        ck.ob("C24.2", "line-of-nucleus", a_line.endswith(".span.start") and "nucleus" not in a_line and "labels" not in a_line,
              "the recorded line is get_line(%s) (the statement's own span, which starts at its instruction/directive)" % a_line, where)
        a_val = nf.pp(b.expr_of_operand(rt["args"][1], 12))
        ck.ob("C24.2", "records-lc", a_val.endswith(".lc") and "get_line" in a0, "the line vector slot %s receives %s" % (a0[:80], a_val), where)
        sh = [bi for bi, t, c, _ in b.calls() if (c or "").endswith("Cursor::shift")]
        nx = [bi for bi, t, c, _ in b.calls() if (c or "").endswith("Iterator>::next") and b.dominates(bi, rbi)]
        head = max(nx) if nx else None
        before = bool(sh) and head is not None and all(b.can_reach(rbi, s, avoid=(head,)) and not b.can_reach(s, rbi, avoid=(head,)) for s in sh)
        ck.ob("C24.2", "record-before-shift", before and len(sh) >= 1,
              "within one loop iteration the record (block %s) precedes every cursor shift (blocks %s) and cannot follow one" % (rbi, sh), where)
        opn = [d for d, via in shape.edge_conds(b, rbi)]
        ck.ob("C24.2", "inside-open-block", len([d for d in opn if d.startswith("discr(Option::")]) >= 2,
              "recording is guarded by the open-block cursor and by the presence of debug info: %s" % opn, where)
    # lines vector length = count_lines
    cls = [F.bodies[c] for c in F.children.get(ST_NEW, []) if "from_elem" in nf.render(nf.cases(F, c) or [])]
    cl = cls[0] if len(cls) == 1 else None
    if ck.anchor("C24.2", "debug_sym closure", cl):
        got = nf.render(nf.cases(F, cl.path))
        ck.ob("C24.2", "vector-len", "from_elem(Option::None(), SourceInfo::count_lines(" in got and "SourceInfo::new(arg2)" in got,
              "the line vector has count_lines() empty slots of the same SourceInfo: %s" % got[:200], where)
    # --- C24.3 LineSymbolMap
    LM = "asm::LineSymbolMap::"
    nb = F.bodies.get(LM + "new")
    if ck.anchor("C24.3", LM + "new", nb):
        pushes = [nf.pp(nb.expr_of_operand(t["args"][1], 12)) for bi, t, c, _ in nb.calls() if (c or "").endswith("Vec::<T, A>::push")]
        ins = [(nf.pp(nb.expr_of_operand(t["args"][1], 12)), nf.pp(nb.expr_of_operand(t["args"][2], 12))) for bi, t, c, _ in nb.calls() if (c or "").endswith("BTreeMap::<K, V, A>::insert")]
        item = "next(into_iter(Iterator::enumerate(into_iter(arg1)))) as Some.0"
        ok = pushes == [item + ".1 as Some.0"] and ins == [("Sub(%s.0, Vec::len(Option::take(Option::None()) as Some.0))" % item, "Option::take(Option::None()) as Some.0")]
        ck.ob("C24.3", "new:condense", ok, "runs of Some(addr) are collected in order and stored under key (index of the first None after the run) - (run length): pushes %s inserts %s" % (pushes, ins), "src/asm.rs:%s" % nb.line)
        nf.expect(ck, F, "C24.3", "new:result", LM + "new", ["[discr(next(into_iter(Iterator::enumerate(into_iter(arg1))))) in [0,0]] => LineSymbolMap::from_blocks(BTreeMap::new())"], "after the loop the blocks are validated by from_blocks")
    g = "next_back(BTreeMap::range(arg1.0, RangeToInclusive(arg2)))"
    nf.expect_deep(ck, F, "C24.3", "get", LM + "get",
                   ["[fail(%s)] => propagate(%s) ; [ok(%s)] => Option::copied(get(deref(try(%s).1), Sub(arg2, try(%s).0)))" % (g, g, g, g, g)],
                   "forward lookup: last block starting at or before the line, element line - start")
    nf.expect_deep(ck, F, "C24.3", "find", LM + "find",
                   ["Iterator::find_map(BTreeMap::iter(arg1.0), \u03bb[Option::map(Result::ok(binary_search(deref(arg2.1), @entry{arg2})), \u03bb[Add(arg1.0, arg2)](arg2.0))](arg2))"],
                   "reverse lookup: every block is searched (no element-dropping adaptor) by binary search; a hit at offset o gives start + o")
    nf.expect_deep(ck, F, "C24.3", "iter", LM + "iter",
                   ["Iterator::flat_map(LineSymbolMap::block_iter(arg1), \u03bb[Iterator::map(Iterator::enumerate(iter(arg2.1)), \u03bb[tuple(Add(arg1.0, arg2.0), arg2.1)](arg2.0))]())"],
                   "line listing: every word of every block as (start + offset, address)")
    nf.expect_deep(ck, F, "C24.3", "block_iter", LM + "block_iter", ["Iterator::map(BTreeMap::iter(arg1.0), \u03bb[tuple(arg2.0, Vec::as_slice(arg2.1))]())"], "block listing: every block as (start line, words)")
    # --- C24.4 delegation
    d = "Option::as_ref(arg1.debug_symbols)"
    nf.expect_deep(ck, F, "C24.4", "DebugSymbols::lookup_line", "asm::DebugSymbols::lookup_line", ["LineSymbolMap::get(arg1.line_map, arg2)"], "delegates")
    nf.expect_deep(ck, F, "C24.4", "DebugSymbols::rev_lookup_line", "asm::DebugSymbols::rev_lookup_line", ["LineSymbolMap::find(arg1.line_map, arg2)"], "delegates")
    nf.expect_deep(ck, F, "C24.4", "SymbolTable::lookup_line", "asm::SymbolTable::lookup_line",
                   ["[fail(%s)] => propagate(%s) ; [ok(%s)] => DebugSymbols::lookup_line(try(%s), arg2)" % (d, d, d, d)], "None without debug symbols, else delegates")
    nf.expect_deep(ck, F, "C24.4", "SymbolTable::rev_lookup_line", "asm::SymbolTable::rev_lookup_line",
                   ["[fail(%s)] => propagate(%s) ; [ok(%s)] => DebugSymbols::rev_lookup_line(try(%s), arg2)" % (d, d, d, d)], "None without debug symbols, else delegates")
    nf.expect_deep(ck, F, "C24.4", "SymbolTable::line_iter", "asm::SymbolTable::line_iter", ["Iterator::flat_map(Option::iter(arg1.debug_symbols), \u03bb[LineSymbolMap::iter(arg2.line_map)]())"], "lists the line map when present")
    # who writes the line map: constructors only
    writers = []
    for p, bb in F.bodies.items():
        if bb.light or not bb.file.startswith("src/asm"):
            continue
        for bi, si, s in bb.stmts():
            if s["k"] == "assign" and s["rv"]["k"] == "agg" and (s["rv"].get("adt") or "").endswith("asm::LineSymbolMap"):
                writers.append(p)
    ck.ob("C24.3", "constructors", writers and all(w.startswith("asm::LineSymbolMap::from_blocks::{closure#") for w in writers), "LineSymbolMap values are built only in %s (allowed: validated constructor)" % sorted(set(writers)), "src/asm.rs")
    ck.assume("`src` given to assemble_debug is the text the AST was parsed from (spans index that text)")
    ck.include("C25", ctx, "C24.5", {"C25.1"}, "the recorded line of a statement is get_line(byte offset) over the newline byte offsets of from_string")
    ck.assume("strict increase inside a block follows from C24.1 + Cursor::shift (C02); .blkw 0 is rejected by the parser (C05)")
    ck.assume("not decided: the arithmetic consequence 'get(find(a)) == a' itself; it is argued from the normal forms (predecessor block + offset vs. binary search + start)")
