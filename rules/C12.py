"""C12 - Real and virtual traps agree except at HALT and exceptions (table clauses)."""
import discharge
from lib import panics, shape, asmx
from lib.panics import _unwrap_var, interval

LEVEL = "other"
S = "sim::Simulator::"
# classification of SimErr (a new variant must be classified here or the rule fails closed)
EXCEPTIONS = {"IllegalOpcode": "IllegalOpcode", "InvalidInstrFormat": "IllegalOpcode", "PrivilegeViolation": "PrivilegeViolation", "AccessViolation": "AccessViolation"}
OTHER_ERRS = {"UnresolvedExternal", "Interrupt", "StrictRegSetUninit", "StrictMemSetUninit", "StrictIOSetUninit", "StrictJmpAddrUninit", "StrictSRAddrUninit",
              "StrictMemAddrUninit", "StrictPCCurrUninit", "StrictPCNextUninit", "StrictPSRSetUninit"}
MESSAGES = {"PrivilegeViolation": "privilege violation", "IllegalOpcode": "illegal opcode", "AccessViolation": "access violation"}


def run(ck, ctx):
    F = ctx.F
    panics.FACTS = F
    ck.rule("R1 sibling tables: RealIntVect's discriminants, its TryFrom<u16> rows, the virtual short-circuit rows in handle_interrupt and the real "
            "re-dispatch rows in step are mutually inverse (Halt<->x25, PrivilegeViolation<->x100, {IllegalOpcode, InvalidInstrFormat}->x101->"
            "IllegalOpcode, AccessViolation<->x102) and cover every exception-class SimErr. R5: SimFlags.use_real_traps is read only in step and "
            "handle_interrupt, guarding exactly those tables. os.asm: vectors x25/x100/x101/x102 point at TRAP_HALT and the three exception "
            "handlers, each `LEA R0,msg; PUTS; HALT` with the message for that exception; TRAP_HALT clears MCR and never returns.")
    ck.explanation = ("'Changes only what happens at HALT and at exceptions' is decided as: the flag has two readers, each reader's flag-dependent "
                      "region is a table keyed by the same four vectors, and the two tables are inverse. Equality of display output/registers for "
                      "generated programs is not computed.")
    adt = F.adts.get("sim::RealIntVect")
    se = F.adts.get("sim::SimErr")
    hi = F.bodies.get(S + "handle_interrupt")
    stp = F.bodies.get(S + "step")
    tfn = "<sim::RealIntVect as std::convert::TryFrom<u16>>::try_from"
    tf = F.bodies.get(tfn)
    for n, x in (("RealIntVect", adt), ("SimErr", se), ("handle_interrupt", hi), ("step", stp), ("RealIntVect::try_from", tf)):
        if not ck.anchor("C12.1", n, x):
            return
    vec = {v["name"]: v["discr"] for v in adt["variants"]}
    isa = ctx.isa if hasattr(ctx, "isa") else None
    ck.ob("C12.1", "vectors", vec == {"Halt": 0x25, "PrivilegeViolation": 0x100, "IllegalOpcode": 0x101, "AccessViolation": 0x102},
          "RealIntVect discriminants: %s (LC-3: HALT trap x25; exception vectors x100 privilege, x101 illegal opcode, x102 ACV)" % {k: hex(v) for k, v in vec.items()}, "src/sim.rs:%s" % adt["line"])
    errs = [v["name"] for v in se["variants"]]
    ck.ob("C12.1", "simerr-classified", set(errs) == set(EXCEPTIONS) | OTHER_ERRS, "SimErr variants unclassified: %s, stale: %s" % (sorted(set(errs) - set(EXCEPTIONS) - OTHER_ERRS), sorted((set(EXCEPTIONS) | OTHER_ERRS) - set(errs))), "src/sim.rs:%s" % se["line"])
    # try_from rows
    rows = {}
    for conds, val in shape.return_cases(tf, (), {1: "value"}):
        rows[conds] = val
    want = {("value in [%d,%d]" % (d, d),): "Result::Ok(RealIntVect::%s())" % n for n, d in vec.items()}
    want[("value in [0,65535]",)] = "Result::Err(tuple())"
    ck.ob("C12.1", "try_from-rows", rows == want, "RealIntVect::try_from rows: %s" % sorted(rows.items()), "src/sim.rs:%s" % tf.line)
    # virtual rows
    an = {1: "self", 2: "vect", 3: "priority"}
    virt = {}
    guards_ok = True
    for bi, si, s in hi.stmts():
        if s["k"] == "assign" and s["rv"]["k"] == "agg" and s["rv"].get("adt") == "sim::StepBreak":
            val = shape.pp(hi.expr_of_rvalue(s["rv"], 8))
            ec = shape.edge_conds(hi, bi, an)
            d = dict(ec)
            key = d.get("discr(try_from(vect) as Ok.0)")
            names = {str(v): k for k, v in vec.items()}
            if key and len(key) == 1 and key[0] in names:
                virt[names[key[0]]] = val
            if d.get("self.flags.use_real_traps") != ("0",) or d.get("discr(try_from(vect))") != ("0",) or len(ec) != 4 or not any(k.startswith("Option::is_some_and(priority") and v == ("0",) for k, v in ec):
                guards_ok = False
    want_v = {"Halt": "StepBreak::Halt()", "PrivilegeViolation": "StepBreak::Err(SimErr::PrivilegeViolation())", "IllegalOpcode": "StepBreak::Err(SimErr::IllegalOpcode())", "AccessViolation": "StepBreak::Err(SimErr::AccessViolation())"}
    ck.ob("C12.1", "virtual-rows", virt == want_v and guards_ok, "virtual short-circuit rows: %s; each guarded by exactly (priority passes, !use_real_traps, try_from(vect) is Ok, variant): %s" % (virt, guards_ok), "src/sim.rs:%s" % hi.line)
    # the short-circuit returns Err(break_value): the StepBreak aggregate flows into _0 = Err(..)
    # real rows
    sbn = [v["name"] for v in F.adts["sim::StepBreak"]["variants"]]
    real = {}
    real_ok = True
    n_inner = 0
    for bi, t, c, _ in stp.calls():
        if c == S + "_step_inner":
            n_inner += 1
        if c != S + "handle_interrupt":
            continue
        ec = dict(shape.edge_conds(stp, bi, {1: "self"}))
        v = interval(stp.expr_of_operand(t["args"][1], 10))
        pr = shape.pp(stp.expr_of_operand(t["args"][2], 6))
        selfarg = shape.pp(stp.expr_of_operand(t["args"][0], 6), {1: "self"})
        r0 = ec.get("discr(Simulator::_step_inner(self))")
        r1 = ec.get("discr(Simulator::_step_inner(self) as Err.0)")
        r2 = ec.get("discr(Simulator::_step_inner(self) as Err.0 as Err.0)")
        key = None
        if r0 == ("1",) and r1 and len(r1) == 1 and r1[0].isdigit():
            k1 = sbn[int(r1[0])]
            if k1 == "Halt":
                key = "Halt"
            elif r2 and len(r2) == 1 and r2[0].isdigit():
                key = "Err(%s)" % errs[int(r2[0])]
        if key is None or v is None or v[0] != v[1] or pr != "Option::None()" or selfarg != "self" or ec.get("self.flags.use_real_traps") != ("1",):
            real_ok = False
        else:
            real[key] = v[0]
    want_r = {"Halt": vec.get("Halt")}
    for e, v in EXCEPTIONS.items():
        want_r["Err(%s)" % e] = vec.get(v)
    ck.ob("C12.1", "real-rows", real == want_r and real_ok and n_inner == 1, "real re-dispatch rows in step: %s (required %s); every call is handle_interrupt(self, vector, None) under use_real_traps: %s; _step_inner calls: %d" % (real, want_r, real_ok, n_inner), "src/sim.rs:%s" % stp.line)
    # inverse
    inv = all(real.get({"StepBreak::Halt()": "Halt"}.get(virt.get(n), (virt.get(n) or "").replace("StepBreak::Err(SimErr::", "Err(").replace("())", ")"))) == d for n, d in vec.items())
    ck.ob("C12.1", "inverse", inv, "for every vector v: step re-dispatches the break value that handle_interrupt(v) yields under virtual traps back to v", "src/sim.rs:%s" % stp.line)
    rc = shape.return_cases(stp, (), {1: "self"})
    other = sorted(set(v for c, v in rc if not v.startswith("Simulator::handle_interrupt(") and v != "Simulator::_step_inner(self)"))
    ck.ob("C12.1", "step-identity", not other and any(c == ("self.flags.use_real_traps in [0,0]",) and v == "Simulator::_step_inner(self)" for c, v in rc),
          "step returns either a re-dispatch or _step_inner's result unchanged; under virtual traps always the latter (other values: %s)" % other, "src/sim.rs:%s" % stp.line)
    st = [s for _, _, s in stp.stmts() if s["k"] == "assign" and s["p"]["proj"] and s["p"]["l"] == 1]
    ck.ob("C12.1", "step-no-stores", not st, "step stores nothing itself (%d stores through self)" % len(st), "src/sim.rs:%s" % stp.line)
    # ---- flag readers
    users = discharge.field_users(F, "sim::SimFlags", "use_real_traps")
    users = set(u for u in users if "default" not in u.lower())
    ck.ob("C12.2", "flag-readers", users == {S + "step", S + "handle_interrupt"}, "functions mentioning SimFlags.use_real_traps: %s" % sorted(users), "src/sim.rs")
    # in handle_interrupt the flag guards only the short-circuit: the blocks reachable only through the flag==0 edge all end in the early return
    sw = [(bi, t) for bi, t in hi.terms("switch") if shape.pp(hi.expr_of_operand(t["discr"], 6), an) == "self.flags.use_real_traps"]
    if len(sw) != 1:
        ck.fail("C12.2", "flag-region", "obligation not established: handle_interrupt tests the flag %d times" % len(sw), "src/sim.rs:%s" % hi.line)
    else:
        bi, t = sw[0]
        real_edge = t["otherwise"]
        virt_edge = [tb for v, tb in t["values"] if v == 0][0]
        # blocks only reachable via the virtual edge
        only_virt = [x for x in hi.reachable_blocks() if hi.dominates(virt_edge, x) and not hi.dominates(real_edge, x) and x != real_edge]
        region = [x for x in only_virt if not hi.can_reach(real_edge, x)]
        calls = sorted(set((hi.blocks[x]["term"]["func"].get("fn") or "?").split("::")[-1] for x in region if hi.blocks[x]["term"]["k"] == "call"))
        stores = sorted(set(e.get("name") for x in region for s in hi.blocks[x]["stmts"] if s["k"] == "assign" and s["p"]["l"] == 1 for e in s["p"]["proj"] if isinstance(e, dict) and e.get("name")))
        ck.ob("C12.2", "flag-region", set(calls) <= {"try_from", "offset_pc", "branch", "from_residual"} and set(stores) <= {"prefetch"},
              "the flag-only region of handle_interrupt calls %s and stores %s (allowed: try_from, offset_pc(-1) with prefetch := true)" % (calls, stores), "src/sim.rs:%s" % hi.line)
        # the virtual edge with try_from == Err joins the real path
        j = real_edge
        while hi.blocks[j]["term"]["k"] == "goto" and not [s_ for s_ in hi.blocks[j]["stmts"] if s_["k"] == "assign" and s_["p"]["proj"]]:
            j = hi.blocks[j]["term"]["target"]
        ck.ob("C12.2", "non-special-vectors-join", hi.can_reach(virt_edge, j), "vectors that are not one of the four continue on the common path under virtual traps", "src/sim.rs:%s" % hi.line)
    # ---- os.asm
    P = asmx.load(ctx.repo)
    ck.ob("C12.3", "os.asm-parsed", not P.errors and len(P.stmts) >= 600, "os.asm statements read: %d, problems: %s" % (len(P.stmts), P.errors[:3]), "src/os.asm")
    hnd = {}
    for n, d in vec.items():
        hnd[n] = P.word_value(d)
    th = P.addr_of("TRAP_HALT")
    ck.ob("C12.3", "vector:Halt", hnd.get("Halt") is not None and hnd["Halt"] == th, "mem[x25] = %s, TRAP_HALT = %s" % (hnd.get("Halt"), th), "src/os.asm")
    for n, msg in MESSAGES.items():
        a = hnd.get(n)
        r = P.routine(a) if a is not None else {}
        seq = [r[k] for k in sorted(r) if r[k] is not None]
        ok = len(seq) == 3 and None not in r.values() and seq[0].op == "LEA" and seq[0].args[0].upper() == "R0" and seq[1].op == "PUTS" and seq[2].op == "HALT" and seq[0].addr == a
        s = P.string_at(P.target(seq[0])) if ok else None
        ck.ob("C12.3", "handler:" + n, ok and s is not None and msg in s.lower(), "vector x%X -> x%s: %s; message %r" % (vec[n], "%04X" % a if a is not None else "?", [(x.op, x.args) for x in seq][:4], s), "src/os.asm:%s" % (seq[0].line if seq else 0))
    # distinct handlers and messages
    ck.ob("C12.3", "handlers-distinct", len(set(hnd.values())) == 4, "the four vectors point at four different routines: %s" % hnd, "src/os.asm")
    # TRAP_HALT clears MCR and never returns
    r = P.routine(th) if th is not None else {}
    seq = [r[k] for k in sorted(r) if r[k] is not None]
    clears = False
    for i, stt in enumerate(seq):
        if stt.op == "STI" and i > 0:
            z = seq[i - 1]
            tgt = P.target(stt)
            if z.op == "AND" and z.args[0].upper() == stt.args[0].upper() and asmx.num(z.args[2]) == 0 and P.word_value(tgt) == 0xFFFE:
                clears = True
    noret = bool(seq) and None not in r.values() and not any(x.op in ("RTI", "RET", "JMP", "JSR", "JSRR") for x in seq)
    ck.ob("C12.3", "TRAP_HALT", clears and noret, "TRAP_HALT stores a zeroed register to the word at xFFFE (MCR) and loops without returning: %s" % [(x.op, x.args) for x in seq], "src/os.asm:%s" % (seq[0].line if seq else 0))
    ck.include("C11", ctx, "C12.4", {"C11.1", "C11.2", "C11.6"}, "the OS handlers print through PUTS and stop through HALT")
    ck.include("C10", ctx, "C12.5", {"C10.4"}, "exceptions reach their own OS handlers only if the vector passed to the entry sequence is the one fetched")
    ck.assume("PUTS prints the zero-terminated string at R0 (C11); HALT inside the handler reaches TRAP_HALT through the x25 vector (C08 TRAP row)")
    ck.assume("user-visible equality of display output, R0-R5 and memory between the two settings is argued from these tables, not computed")
