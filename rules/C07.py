"""C07 - Every word disassembles to text that reassembles to the same word (composition of tables)."""
from lib import tables, panics
from lib.panics import _unwrap_var
import C06, C01

LEVEL = "other"
SPEC = C06.SPEC


def run(ck, ctx):
    F = ctx.F
    panics.FACTS = F
    ck.rule("R2: the round trip word -> decode (C06) -> try_disassemble_line -> Display (C36) -> parser (C03) -> into_sim_instr (C01) -> "
            "encode (C01/C06) is a composition of tables. New obligations here: each row of try_disassemble_line maps a SimInstr variant to an "
            "AsmInstr row whose into_sim_instr row gives back the same variant with the same operands in the same positions (aliases by value); "
            "offsets are wrapped as PCOffset::Offset (never labels); the .fill fallback is taken exactly for word < x0200 or a decode error and "
            "carries new_trunc(word)")
    ck.explanation = "Sibling agreement between the disassembly table and the alias-expansion table, both extracted from MIR."
    try:
        dis = tables.disasm_rows(F)
        al = {r["asm"]: r for r in tables.alias_rows(F)}
    except tables.TableError as ex:
        ck.fail("C07.0", "tables", "obligation not established: %s" % ex)
        return
    ck.floor("C07.1", "try_disassemble_line rows", len(dis), 23)
    sim_names = tables.variant_names(F, tables.SIM)
    covered = {}
    for r in dis:
        sim, asm = r["sim"], r["asm"]
        where = "src/ast/asm.rs:%s" % r["line"]
        key = "%s%s->%s" % (sim, r["guards"] or "", asm)
        a = al.get(asm)
        if a is None:
            ck.fail("C07.1", key, "into_sim_instr has no row for %s" % asm, where)
            continue
        # compose: substitute the disassembler's operands into the alias row
        probs = []
        if a["sim"] != sim:
            probs.append("%s re-assembles to SimInstr::%s, not %s" % (asm, a["sim"], sim))
        # value of each SimInstr operand position after the round trip, expressed over the ORIGINAL SimInstr operands
        def subst(src):
            if src[0] == "same":
                return norm(r["fields"][src[1]])
            if src[0] == "pcoff":
                f = r["fields"][src[1]]
                if f[0] != "pcwrap" or f[1] != "Offset":
                    return ("label-or-unknown", f)
                return norm(f[2])
            if src[0] == "wrap":
                return ("wrap", src[1], subst(src[2]))
            return src
        def norm(f):
            # ('same', k) or ('same', k, ('Imm',)) -> position k of the original instruction (sub-case recorded separately)
            if f[0] == "same":
                return ("orig", f[1]) if len(f) == 2 else ("orig-sub", f[1], f[2])
            return f
        back = [subst(s) for s in a["fields"]]
        # required: position k gets original position k
        guards = dict((g[0], g[1]) for g in r["guards"])
        nfields = len(F.adts[tables.SIM]["variants"][sim_names.index(sim)]["fields"]) if sim in sim_names else -1
        if len(back) != nfields:
            probs.append("round trip yields %d operands for %s which has %d" % (len(back), sim, nfields))
        for k, v in enumerate(back):
            if v == ("orig", k):
                continue
            if v[0] == "wrap" and v[2] == ("orig-sub", k, (v[1],)) and guards.get("sub") == v[1]:
                continue          # JSR(Imm(x)) -> JSR off -> JSR(Imm(x)); JSR(Reg(r)) -> JSRR r -> JSR(Reg(r))
            if v[0] == "reg" and guards.get("reg") == v[1] and sim == "JMP":
                continue          # JMP R7 -> RET -> JMP R7
            if v[0] == "trunc" and guards.get("vect") == v[1] and sim == "TRAP":
                continue          # TRAP x20..x25 -> alias -> same vector
            probs.append("operand %d comes back as %r" % (k, v))
        covered.setdefault(sim, []).append(r["guards"])
        ck.ob("C07.1", key, not probs, "; ".join(probs) or "%s -> %s -> %s with operands %s" % (sim, asm, a["sim"], back), where,
              sample={"row": key, "round_trip_operands": [list(map(str, b)) if isinstance(b, tuple) else b for b in back]})
    ck.ob("C07.1", "coverage", set(covered) == set(sim_names), "SimInstr variants with a disassembly row: %s" % sorted(covered), "src/ast/asm.rs")
    # alias guards are the ISA's vectors
    vects = sorted(g[1] for r in dis for g in r["guards"] if g[0] == "vect")
    names = {r["asm"]: dict(r["guards"]).get("vect") for r in dis if dict(r["guards"]).get("vect") is not None}
    want = {"GETC": 32, "PUTC": 33, "PUTS": 34, "IN": 35, "PUTSP": 36, "HALT": 37}
    ck.ob("C07.1", "alias-vectors", names == want, "trap aliases printed by name: %s" % names, "src/ast/asm.rs")
    ret = [r for r in dis if r["asm"] == "RET"]
    ck.ob("C07.1", "ret-alias", len(ret) == 1 and ret[0]["sim"] == "JMP" and ("reg", "R7") in ret[0]["guards"], "RET is printed exactly for JMP R7", "src/ast/asm.rs")

    # ---- C07.2 fallback
    b = F.bodies.get("ast::asm::try_disassemble_line")
    if ck.anchor("C07.2", "try_disassemble_line", b):
        thr = None
        for bi, t in b.terms("switch"):
            d = _unwrap_var(b.expr_of_operand(t["discr"]))
            if d[0] == "bin" and d[1] in ("Ge", "Lt") and d[2][0] == "arg":
                iv = panics.interval(d[3])
                if iv and iv[0] == iv[1]:
                    # decode must be called only on the edge word >= threshold
                    for bj, t2, callee, raw in b.calls():
                        if (callee or "").endswith("SimInstr::decode"):
                            for ex, lo, hi in panics.dominating_conditions(b, bj):
                                if _unwrap_var(ex)[0] == "arg" and lo is not None and hi is None:
                                    thr = lo
        ck.ob("C07.2", "threshold", thr == 0x200, "decode is attempted exactly for word >= x%04X (required x0200)" % (thr or 0), "src/ast/asm.rs:%s" % b.line)
    d = F.bodies.get("ast::asm::disassemble_line")
    cl = F.bodies.get("ast::asm::disassemble_line::{closure#0}")
    if ck.anchor("C07.2", "disassemble_line", d) and ck.anchor("C07.2", "disassemble_line::{closure#0}", cl):
        uses = any((c or "").endswith("unwrap_or_else") for _, _, c, _ in d.calls()) and any((c or "").endswith("try_disassemble_line") for _, _, c, _ in d.calls())
        fill_ok = False
        for bi, si, s in cl.stmts():
            if s["k"] == "assign" and s["rv"]["k"] == "agg" and s["rv"].get("adt") == "ast::asm::Directive" and s["rv"]["variant"] == "Fill":
                src = tables._operand_src(cl.expr_of_operand(s["rv"]["fields"][0], depth=14))
                # PCOffset::Offset(Offset::new_trunc(word))
                e = _unwrap_var(cl.expr_of_operand(s["rv"]["fields"][0], depth=14))
                r = repr(e)
                captured = False
                for bj, sj, s2 in d.stmts():
                    if s2["k"] == "assign" and s2["rv"]["k"] == "agg" and s2["rv"].get("agg") == "closure":
                        caps = [_unwrap_var(d.expr_of_operand(x)) for x in s2["rv"]["fields"]]
                        captured = len(caps) == 1 and caps[0][0] == "ref" and caps[0][1][0] == "arg" and caps[0][1][2] == "word"
                fill_ok = "'Offset')" in r and "new_trunc" in r and "{closure@" in r and "'0', '&u16'" in r and captured and "ast::Offset<u16, 16>" in r
        ck.ob("C07.2", "fill-fallback", uses and fill_ok, "every other word becomes .fill Offset::<u16,16>::new_trunc(word) (identity on 16 bits by C35)", "src/ast/asm.rs:%s" % d.line)
    ck.include("C06", ctx, "C07.4", None, "decode/encode must be inverse for the word -> instruction -> word part of the round trip")
    ck.include("C36", ctx, "C07.5", {"C36.1", "C36.3", "C36.4"}, "the printed instruction must reparse to the same instruction")
    ck.include("C01", ctx, "C07.6", {"C01.1", "C01.2"}, "reassembly uses the encoder rows and the alias expansion")
    ck.include("C05", ctx, "C07.7", {"C05.1", "C05.3", "C05.5"}, "printed operands are read back by the numeric/register validators and field conversions")
    ck.include("C02", ctx, "C07.8", {"C02.2"}, "'assembled at any address': which origins pass 1 accepts (a block may end exactly at xFE00)")
    ck.assume("Display of AsmInstr/Directive and the parser agree (C36), keyword/operand parsing (C03, C05), encode/decode inverse (C06), alias expansion (C01)")
    ck.assume("logos overlap resolution between token kinds is trusted")
