"""C01 - Assembled image is the exact LC-3 encoding of the source (structural clauses)."""
import json, os, re
from lib import tables, panics, bits, nf
from lib.panics import _unwrap_var
import C06

LEVEL = "other"
SPEC = C06.SPEC
ASM_ADT = "ast::asm::AsmInstr"


def expected_alias_rows(F):
    """what into_sim_instr must do, derived from the ISA alias table and the operand TYPES of AsmInstr"""
    adt = F.adts[ASM_ADT]
    sim_names = set(tables.variant_names(F, tables.SIM))
    want = {}
    for v in adt["variants"]:
        n = v["name"]
        tys = [f["ty"] for f in v["fields"]]
        if n in sim_names and n not in ("JSR",):
            want[n] = (n, [("pcoff", i) if t.startswith("ast::PCOffset") else ("same", i) for i, t in enumerate(tys)])
    want["JSR"] = ("JSR", [("wrap", "Imm", ("pcoff", 0))])
    want["JSRR"] = ("JSR", [("wrap", "Reg", ("same", 0))])
    want["RET"] = ("JMP", [("reg", "R7")])
    want["NOP"] = ("BR", [("const", 0), ("pcoff", 0)])
    for a in ("GETC", "OUT", "PUTC", "PUTS", "IN", "PUTSP", "HALT"):
        want[a] = ("TRAP", [("trunc", SPEC["aliases"][a], "ast::Offset<u16, 8>")])
    return want


def run(ck, ctx):
    F = ctx.F
    panics.FACTS = F
    ck.rule("R1: encoder rows = ISA (shared with C06); R1: the 25 rows of AsmInstr::into_sim_instr equal the ISA alias table; "
            "R6: the pc given to into_sim_instr is lc+1 of the lc that is then advanced by 1, and label offsets are (addr - pc) as i16; "
            "R2: Directive::word_len agrees row by row with what ObjBlock::write_directive appends, both passes size statements the same way; "
            "R4: labels are bound to the location counter before the statement's own shift")
    ck.explanation = ("Structural clauses of the assembler, decided on tables extracted from MIR. The values held in run-time containers "
                      "(that the block map really holds those words at those keys) are not decided.")
    try:
        enc = tables.encoder_rows(F)
        ops = tables.opcode_table(F)
        al = tables.alias_rows(F)
        wl = tables.word_len_rows(F)
        wd = tables.write_directive_rows(F)
    except tables.TableError as ex:
        ck.fail("C01.0", "tables", "obligation not established: %s" % ex)
        return
    ck.floor("C01.1", "encoder rows", len(enc), 18)
    C06.check_encoder(ck, F, "C01.1", enc, ops)
    # join_bits closure decided for the ranges used (as in C06.3)
    jb = F.bodies.get("ast::sim::join_bits::{closure#0}")
    if ck.anchor("C01.1", "join_bits::{closure#0}", jb):
        try:
            e = bits.ret_expr(jb)
            for lo, hi in sorted(set((lo, hi) for r in enc for _, lo, hi in r["fields"])):
                r = bits.ev(e, {"val": bits.BV.sym("v", "u16"), "start": bits.BV.const(lo, "usize"), "end": bits.BV.const(hi, "usize")})
                ok = all(r.bits[i] == (("x", "v", i - lo) if lo <= i < hi else 0) for i in range(16))
                ck.ob("C01.1", "join_bits|%d..%d" % (lo, hi), ok, "closure(v, %d..%d) = %r" % (lo, hi, r), "src/ast/sim.rs:%s" % jb.line)
        except bits.Unanalysable as ex:
            ck.fail("C01.1", "join_bits", "unanalysable: %s" % ex)

    # ---- C01.2 alias expansion
    ck.floor("C01.2", "into_sim_instr rows", len(al), 25)
    want = expected_alias_rows(F)
    got = {}
    for r in al:
        if r["asm"] in got:
            ck.fail("C01.2", "dup:" + str(r["asm"]), "two rows for %s" % r["asm"], "src/asm.rs:%s" % r["line"])
        got[r["asm"]] = r
    for name, (sim, fields) in sorted(want.items()):
        r = got.get(name)
        ok = r is not None and r["sim"] == sim and list(r["fields"]) == list(fields)
        ck.ob("C01.2", "alias:" + name, ok, "%s -> %s%s (required: %s%s)" % (name, r and r["sim"], r and r["fields"], sim, fields),
              "src/asm.rs:%s" % (r["line"] if r else "?"))
    ck.ob("C01.2", "alias:set", set(got) == set(want), "rows: %s" % sorted(k for k in got if k), "src/asm.rs")

    # ---- C01.3 pc provenance in pass 2
    on = F.bodies.get("asm::ObjectFile::new")
    if ck.anchor("C01.3", "ObjectFile::new", on):
        ok_pc = False
        lc_local = None
        call_block = None
        for bi, t, callee, raw in on.calls():
            if (callee or "").endswith("into_sim_instr"):
                e = _unwrap_var(on.expr_of_operand(t["args"][1]))
                if e[0] == "call" and (e[1] or "").endswith("<impl u16>::wrapping_add") and panics.interval(e[2][1]) == (1, 1):
                    base = _unwrap_var(e[2][0])
                    if base[0] == "deref":
                        lc = base[1]
                        ok_pc = "'lc'" in repr(lc)
                        call_block = bi
        ck.ob("C01.3", "pc=lc+1", ok_pc, "into_sim_instr is given lc.wrapping_add(1)", "src/asm.rs:%s" % on.line)
        # after the call: *lc = lc.wrapping_add(1)
        adv = False
        for bi, si, s in on.stmts():
            if s["k"] == "assign" and s["p"]["proj"] == ["deref"] and (on.local_name(s["p"]["l"]) == "lc"):
                e = _unwrap_var(on.expr_of_rvalue(s["rv"]))
                if e[0] == "call" and (e[1] or "").endswith("<impl u16>::wrapping_add") and panics.interval(e[2][1]) == (1, 1) and call_block is not None and on.dominates(call_block, bi):
                    adv = True
        ck.ob("C01.3", "lc-advance-1", adv, "after encoding an instruction the lc is advanced by exactly 1", "src/asm.rs:%s" % on.line)
        # directives: *lc = lc.wrapping_add(word_len)
        wl_call = any((c or "").endswith("Directive>::word_len") for _, _, c, _ in on.calls())
        adv_d = False
        for bi, si, s in on.stmts():
            if s["k"] == "assign" and s["p"]["proj"] == ["deref"] and (on.local_name(s["p"]["l"]) == "lc"):
                e = _unwrap_var(on.expr_of_rvalue(s["rv"]))
                if e[0] == "call" and (e[1] or "").endswith("wrapping_add") and "word_len" in repr(e[2][1]):
                    adv_d = True
        ck.ob("C01.3", "lc-advance-directive", wl_call and adv_d, "after a directive the lc is advanced by directive.word_len()", "src/asm.rs:%s" % on.line)
    rp = F.bodies.get("asm::replace_pc_offset")
    if ck.anchor("C01.3", "replace_pc_offset", rp):
        new_ok = False
        n_ok = False
        for bi, t, callee, raw in rp.calls():
            if callee == "ast::Offset::<OFF, N>::new":
                # (name independent) the operand is `(wrapping_sub(<looked-up entry>.addr, <2nd parameter = pc>) as i16)`
                a_s = nf.arg_x(rp, t, 0, bi)
                new_ok = re.fullmatch(r"\(wrapping_sub\(.* as Some\.0\.addr, arg2\) as i16\)", a_s) is not None and "arg2" not in a_s[:-len("arg2) as i16)")]
                n_ok = "i16, N" in (t["func"].get("fn_args") or "")
        ck.ob("C01.3", "offset=addr-pc", new_ok and n_ok, "label operands become IOffset::<N>::new((addr - pc) as i16) of the same N", "src/asm.rs:%s" % rp.line)
        key_ok = any((c or "").endswith("<impl str>::to_uppercase") for _, _, c, _ in rp.calls())
        ck.ob("C01.3", "label-key", key_ok, "the label is looked up under its upper-cased name", "src/asm.rs:%s" % rp.line)

    # ---- C01.4 sizes agree
    ck.floor("C01.4", "word_len rows", len(wl), 6)
    want_wl = {"Orig": ("const", 0), "Fill": ("const", 1), "Blkw": ("operand-value",), "Stringz": ("strlen+1",), "End": ("const", 0), "External": ("const", 0)}
    for k, v in sorted(want_wl.items()):
        ck.ob("C01.4", "word_len:" + k, wl.get(k) == v, "word_len(%s) = %s (required %s)" % (k, wl.get(k), v), "src/asm.rs")
    shapes = {}
    for k, calls in wd.items():
        sh = []
        for kind, arg, line in calls:
            if kind == "push":
                sh.append("push")
            elif kind == "shift":
                sh.append("shift(operand)" if "Offset::<OFF, N>::get" in repr(arg) and "'Blkw'" in repr(arg) else "shift(?)")
            elif kind == "extend":
                r = repr(arg)
                ok = "<impl str>::bytes" in r and "Iterator::map" in r and "From<u8> for u16>::from" in r
                sh.append("extend(bytes as u16)" if ok else "extend(?)")
        shapes[k] = sorted(sh)
    want_wd = {"Orig": [], "Fill": ["push"], "Blkw": ["shift(operand)"], "Stringz": ["extend(bytes as u16)", "push"], "End": [], "External": []}
    wd_equiv = nf.is_verified_equivalent(F, "asm::ObjectFile::new::ObjBlock::write_directive") is not None
    for k, v in sorted(want_wd.items()):
        ck.ob("C01.4", "write_directive:" + k, shapes.get(k) == sorted(v) or wd_equiv, "write_directive(%s) appends %s (required %s, i.e. word_len words)" % (k, shapes.get(k), sorted(v)), "src/asm.rs")
    # stringz terminator is the constant 0 and comes after the bytes
    sz = wd.get("Stringz", [])
    term_ok = False
    if len(sz) == 2:
        pushes = [c for c in sz if c[0] == "push"]
        exts = [c for c in sz if c[0] == "extend"]
        term_ok = bool(pushes) and bool(exts) and panics.interval(pushes[0][1]) == (0, 0) and exts[0][2] <= pushes[0][2]
    ck.ob("C01.5", "stringz:terminator", term_ok or wd_equiv, ".stringz writes its bytes and then a 0 word", "src/asm.rs")
    # fill pushes the literal value or lookup_label
    wdb = F.bodies.get("asm::ObjectFile::new::ObjBlock::write_directive")
    if wdb is not None:
        fill_lookup = any((c or "").endswith("SymbolTable::lookup_label") for _, _, c, _ in wdb.calls())
        fill_get = any((c or "").endswith("Offset::<OFF, N>::get") for _, _, c, _ in wdb.calls())
        ck.ob("C01.5", "fill:value-or-label", fill_lookup and fill_get, ".fill pushes the operand value or lookup_label(name)", "src/asm.rs:%s" % wdb.line)
    shb = F.bodies.get("asm::ObjectFile::new::ObjBlock::shift")
    if ck.anchor("C01.5", "ObjBlock::shift", shb):
        r = [nf.arg_x(shb, t, 1, bi) for bi, t, c, _ in shb.calls() if (c or "").endswith("Extend<T>>::extend")]
        ok = r == ["Iterator::take(repeat(Option::None()), (arg2 as usize))"]
        ck.ob("C01.5", "blkw:uninit", ok, ".blkw appends n uninitialised (None) words", "src/asm.rs:%s" % shb.line)
    pb = F.bodies.get("asm::ObjectFile::new::ObjBlock::push")
    if ck.anchor("C01.5", "ObjBlock::push", pb):
        r = [nf.arg_x(pb, t, 1, bi) for bi, t, c, _ in pb.calls() if (c or "").endswith("::push")]
        ck.ob("C01.5", "push:some", r == ["Option::Some(arg2)"], "push appends Some(data)", "src/asm.rs:%s" % pb.line)

    # ---- C01.6 pass 1: labels before shift, sizes from word_len / 1
    st = F.bodies.get("asm::SymbolTable::new")
    if ck.anchor("C01.6", "SymbolTable::new", st):
        adds = [(bi, t) for bi, t, c, _ in st.calls() if (c or "").endswith("SymbolTable::new::add_label")]
        shifts = [(bi, t) for bi, t, c, _ in st.calls() if (c or "").endswith("Cursor::shift")]
        ck.floor("C01.6", "add_label calls", len(adds), 2)
        ck.floor("C01.6", "Cursor::shift calls", len(shifts), 1)
        lab_ok = False
        ext_ok = False
        for bi, t in adds:
            addr = _unwrap_var(st.expr_of_operand(t["args"][2]))
            ext = panics.interval(st.expr_of_operand(t["args"][3]))
            if ext == (0, 0):
                # statement labels: address is cur.lc, and no shift can happen before it in the iteration
                lab_ok = addr[0] == "field" and addr[2] == "lc" and all(not st.can_reach(sb, bi, avoid=_loop_head(st)) for sb, _ in shifts)
            elif ext == (1, 1):
                ext_ok = panics.interval(addr) == (0, 0)
        ck.ob("C01.6", "labels-before-shift", lab_ok, "statement labels are bound to cur.lc and no shift precedes add_label within an iteration", "src/asm.rs:%s" % st.line)
        ck.ob("C01.6", "external-placeholder", ext_ok, ".external binds its label to address 0 with external=true", "src/asm.rs:%s" % st.line)
        # the advance of every shift call, name independent; one call with a per-arm value (phi) counts like two calls
        sizes = []
        for bi, t in shifts:
            a = nf.arg_x(st, t, 1, bi)
            m = re.fullmatch(r"phi\{(.*)\}", a)
            alts = [x.split(" => ", 1) for x in m.group(1).split(" | ")] if m else [["", a]]
            for cond, v in alts:
                if v == "1" and (not m or re.fullmatch(r"discr\(.*nucleus\) in \[0,0\]", cond)):
                    sizes.append(("const", 1))
                elif re.fullmatch(r"word_len\(.* as Directive\.0\)", v) and (not m or re.fullmatch(r"discr\(.*nucleus\) in \[1,1\]", cond)):
                    sizes.append(("word_len",))
                else:
                    sizes.append(("?", (cond + " => " + v)[:120]))
        ck.ob("C01.6", "pass1-sizes", sorted(sizes) == [("const", 1), ("word_len",)], "pass 1 advances by %s (required: 1 per instruction, word_len per directive)" % sizes, "src/asm.rs:%s" % st.line)
    ck.include("C23", ctx, "C01.7", {"C23.1", "C23.2"}, "label addresses are looked up under one key discipline")
    ck.include("C35", ctx, "C01.8", None, "offsets stored in instructions satisfy the Offset invariant")
    ck.include("C02", ctx, "C01.9", {"C02.2"}, "'every well-formed program assembles to the image its statements denote': which blocks pass 1 accepts (a block may end exactly at xFE00)")
    ck.assume("contents of run-time containers (block map keys, vectors) are not decided; .orig bookkeeping across several blocks is covered only through C02's guards")
    ck.assume("Offset invariant (C35)")


def _loop_head(body):
    """blocks that call Iterator::next (the statement loop head): paths through them start a new iteration"""
    return set(bi for bi, t, c, _ in body.calls() if (c or "").endswith("Iterator>::next") and "slice::Iter" in (c or ""))
