"""C11 - Built-in OS trap routines meet their contracts (dataflow over src/os.asm)."""
from lib import panics, asmx, osflow, shape

LEVEL = "other"
TRAPS = {0x20: "TRAP_GETC", 0x21: "TRAP_PUTC", 0x22: "TRAP_PUTS", 0x23: "TRAP_IN", 0x24: "TRAP_PUTSP", 0x25: "TRAP_HALT"}
ORDER = ["TRAP_GETC", "TRAP_PUTC", "TRAP_PUTS", "TRAP_IN", "TRAP_PUTSP"]          # callees before callers
ALLOWED_R0 = {"TRAP_GETC": ("io", "KBDR"), "TRAP_IN": ("io", "KBDR")}


def run(ck, ctx):
    F = ctx.F
    panics.FACTS = F
    isa = ctx.isa
    mm = isa["memory_map"]
    io_names = {k: mm[k] for k in ("KBSR", "KBDR", "DSR", "DDR", "MCR")}
    ck.rule("Engine C (dataflow over os.asm routines, joins at merges): register value classes {entry value, entry pointer advanced by +1, constant, "
            "device load, word loaded through the string pointer, low byte of it, unknown}, a supervisor-stack frame model (push/pop idiom on R6), "
            "CC provenance and 'R0 known nonzero'. Per routine: every exit is RTI with SP restored and every register except the allowed result "
            "register holding its entry value; stores only into the own frame or through the DDR/MCR pointer words; keyboard-data reads per call "
            "exactly 1 (GETC, IN) or 0; each emitted character's class and its zero-test guard whose zero edge reaches no further emission; the "
            "string pointer advances by exactly one per loop iteration. Vector table rows x20..x25 and the pointer words agree with the ISA.")
    ck.explanation = ("What the routines do to registers, stack and devices is decided on every path of their CFG by a monotone dataflow analysis; "
                      "the arithmetic of PUTSP's high-byte extraction (eight doubling steps) and loop termination are not decided.")
    P = asmx.load(ctx.repo)
    ck.ob("C11.1", "os.asm-parsed", not P.errors and len(P.stmts) >= 600, "os.asm statements read: %d, problems: %s" % (len(P.stmts), P.errors[:3]), "src/os.asm")
    # the file analysed is the file compiled in
    cl = F.bodies.get("sim::_os_obj_file::{closure#0}")
    if ck.anchor("C11.5", "_os_obj_file::{closure#0}", cl):
        import os
        text = open(os.path.join(ctx.repo, "src", "os.asm")).read()
        strs = [s["rv"]["op"].get("str") for _, _, s in cl.stmts() if s["k"] == "assign" and s["rv"]["k"] == "use" and s["rv"]["op"].get("k") == "const" and s["rv"]["op"].get("ty") == "&str"]
        calls = [shape.short_callee(c) for _, t, c, _ in cl.calls()]
        ck.ob("C11.5", "same-source", text in strs and calls[:1] == ["parse_ast"] and "assemble_debug" in calls or (text in strs and "assemble" in " ".join(calls)),
              "the OS object is parse_ast + assemble of a string constant equal to src/os.asm (%d bytes); calls: %s" % (len(text), calls), "src/sim.rs:%s" % cl.line)
    # ---- vector table
    bad = []
    e_bad = P.addr_of("E_BAD_TRAP")
    for v in range(0x100):
        want = P.addr_of(TRAPS[v]) if v in TRAPS else e_bad
        if P.word_value(v) != want or want is None:
            bad.append(hex(v))
    ck.ob("C11.1", "trap-vectors", not bad, "trap vector table x00..xFF: x20..x25 -> GETC,PUTC,PUTS,IN,PUTSP,HALT routines, everything else E_BAD_TRAP; wrong rows: %s" % bad[:8], "src/os.asm")
    ck.floor("C11.1", "vector rows", len([a for a in range(0x200) if P.word_value(a) is not None]), 512)
    ptr_ok = {n: P.word_value(P.addr_of(n)) == v for n, v in io_names.items()}
    ck.ob("C11.3", "pointer-words", all(ptr_ok.values()), "KBSR/KBDR/DSR/DDR/MCR words hold xFE00/xFE02/xFE04/xFE06/xFFFE: %s" % ptr_ok, "src/os.asm")
    # ---- routines
    summaries = {}
    R = {}
    for name in ORDER:
        entry = P.addr_of(name)
        if not ck.anchor("C11.2", name, entry):
            return
        r = osflow.Routine(P, name, entry, summaries, io_names)
        R[name] = r
        where = "src/os.asm:%s" % P.at[entry].line
        ck.ob("C11.2", name + ":well-formed", not r.problems and not r.into_data and r.exits, "%s: %d instructions, %d RTI exits; problems: %s; falls into data at: %s" % (name, len([1 for v in r.instrs.values() if v]), len(r.exits), [(hex(a), t) for a, t in r.problems][:4], [hex(a) for a in r.into_data]), where)
        # exits
        for a, s in r.exits:
            changed = {x: s.regs[x] for x in osflow.REGS if s.regs[x] != ("orig", int(x[1]))}
            allowed = {"R0": ALLOWED_R0[name]} if name in ALLOWED_R0 else {}
            ck.ob("C11.2", "%s:exit@x%04X" % (name, a), changed == allowed and s.sp == 0, "at RTI: SP offset %d, registers not holding their entry value: %s (allowed: %s)" % (s.sp, changed, allowed), "src/os.asm:%s" % P.at[a].line)
        # stores
        badst = [(hex(a), d) for a, d, ok in r.stores if not ok]
        ck.ob("C11.3", name + ":stores", not badst, "%s: %d stores, all into the routine's own stack frame or through DDR/MCR; others: %s" % (name, len(r.stores), badst), where)
        # reads
        sm = r.summary()
        want_reads = (1, 1) if name in ("TRAP_GETC", "TRAP_IN") else (0, 0)
        ck.ob("C11.4", name + ":keyboard-reads", sm["reads"] == want_reads, "%s reads the keyboard data register %s times per call (min,max over paths; required %s)" % (name, sm["reads"], want_reads), where)
        summaries[name] = sm
    # ---- polls: the data register access is dominated by the ready edge of its status poll
    def poll_guard(r, data_addr, status):
        """the instruction before is `BRzp <load of status>` preceded by LDI Rx,status (loop until bit 15 set)"""
        br = r.instrs.get(data_addr - 1)
        # allow restoring pops between the poll and the access: walk back over non-branch instructions
        a = data_addr - 1
        while a in r.instrs and r.instrs[a] is not None and not asmx.BR_RE.match(r.instrs[a].op):
            a -= 1
        br = r.instrs.get(a)
        ld = r.instrs.get(a - 1)
        return bool(br and ld and br.op == "BRZP" and ld.op == "LDI" and ld.args[1].upper() == status and P.target(br) == ld.addr
                    and not any(p != a for p in r.instrs if r.instrs[p] is not None and (a + 1) in r.succ_addrs(p)))
    g = R["TRAP_GETC"]
    kb = [a for a, n in g.io_loads if n == "KBDR"]
    ck.ob("C11.4", "GETC:poll", len(kb) == 1 and poll_guard(g, kb[0], "KBSR"), "GETC loads KBDR once, only after the KBSR poll loop sees bit 15 set", "src/os.asm:%s" % P.at[g.entry].line)
    pc = R["TRAP_PUTC"]
    dd = [(a, v) for a, k, v, nz in pc.emits if k == "DDR"]
    ck.ob("C11.4", "PUTC:poll", len(dd) == 1 and poll_guard(pc, dd[0][0], "DSR"), "PUTC stores to DDR once, only after the DSR poll loop sees bit 15 set", "src/os.asm:%s" % P.at[pc.entry].line)
    ck.ob("C11.6", "PUTC:emits-R0", len(dd) == 1 and dd[0][1] == ("orig", 0), "PUTC writes the caller's R0 to DDR: %s" % (dd,), "src/os.asm:%s" % P.at[pc.entry].line)
    # ---- emissions
    def emission_rules(name, want_classes):
        r = R[name]
        where = "src/os.asm:%s" % P.at[r.entry].line
        em = sorted(r.emits)
        classes = [v for a, k, v, nz in em]
        ck.ob("C11.6", name + ":emitted-values", classes == want_classes and all(k == "TRAP_PUTC" for a, k, v, nz in em), "%s emits (in address order) %s via %s (required classes %s)" % (name, classes, sorted(set(k for a, k, v, nz in em)), want_classes), where)
        ck.ob("C11.6", name + ":emission-guarded", all(nz for a, k, v, nz in em), "every character %s emits is known nonzero (fallthrough of a BRz on R0)" % name, where)
        sites = set(a for a, k, v, nz in em)
        leak = [(hex(a), hex(t)) for a, t in r.guards if r.reaches(t, sites)]
        ck.ob("C11.6", name + ":zero-terminates", bool(r.guards) and not leak and len(r.guards) == len(em), "%s: %d zero tests on R0; after a zero no further character can be emitted (zero edges that still reach an emission: %s)" % (name, len(r.guards), leak), where)
        # pointer discipline
        loads = [a for a, st in r.instrs.items() if st is not None and st.op == "LDR" and st.args[1].upper() != "R6"]
        ok = False
        detail = "string loads: %d" % len(loads)
        if len(loads) == 1:
            ld = r.instrs[loads[0]]
            p = ld.args[1].upper()
            writers = [st for st in r.instrs.values() if st is not None and st.op in osflow.WRITERS and st.args[0].upper() == p and not (st.op == "LDR" and st.args[1].upper() == "R6")]
            inits = [st for st in writers if st.op == "ADD" and st.args[1].upper() == "R0" and asmx.num(st.args[2]) == 0]
            incs = [st for st in writers if st.op == "ADD" and st.args[1].upper() == p and asmx.num(st.args[2]) == 1]
            vin = r.state_in.get(inits[0].addr).regs["R0"] if inits else None
            once = len(incs) == 1 and not r.reaches(ld.addr + 1, {ld.addr}, avoid=(incs[0].addr,)) and not r.reaches(incs[0].addr + 1, {incs[0].addr}, avoid=(ld.addr,))
            ok = len(writers) == 2 and len(inits) == 1 and vin == ("orig", 0) and once and asmx.num(ld.args[2]) == 0 and not r.reaches(ld.addr, {inits[0].addr})
            detail = "pointer %s: writers %s; initialised from the caller's R0 (%s); exactly one +1 on every way round the loop: %s" % (p, [(w.op, w.args) for w in writers], vin, once)
        ck.ob("C11.6", name + ":pointer", ok, "%s: %s" % (name, detail), where)
        return r
    emission_rules("TRAP_PUTS", [("mem", 0)])
    r = emission_rules("TRAP_PUTSP", [("low", ("mem", 0)), "T"])
    em = sorted(r.emits)
    if len(em) == 2:
        dom = not r.reaches(r.entry, {em[1][0]}, avoid=(em[0][0],))
        ck.ob("C11.6", "TRAP_PUTSP:low-then-high", dom and em[0][2] == ("low", ("mem", 0)), "in each iteration the low byte (word AND x00FF) is emitted before the second character (every path to the second emission passes the first): %s" % dom, "src/os.asm:%s" % P.at[em[0][0]].line)
        ck.ob("C11.6", "TRAP_PUTSP:mask", P.word_value(P.addr_of("PUTSP_MASK")) == 0xFF, "PUTSP_MASK = x00FF", "src/os.asm")
    # IN: prompt, read, echo, result
    r = R["TRAP_IN"]
    seq = [(c, v) for a, c, v, nz in sorted(r.nested)]
    prompt = P.string_at(P.addr_of(seq[0][1][1])) if seq and isinstance(seq[0][1], tuple) and seq[0][1][0] == "addr" else None
    ck.ob("C11.6", "IN:sequence", [c for c, v in seq] == ["TRAP_PUTS", "TRAP_GETC", "TRAP_PUTC"] and prompt and seq[2][1] == ("io", "KBDR"),
          "IN = PUTS(prompt %r); GETC; PUTC(the byte just read: %s)" % (prompt, seq[2][1] if len(seq) > 2 else None), "src/os.asm:%s" % P.at[r.entry].line)
    ck.include("C33", ctx, "C11.7", {"C33.2", "C33.3"}, "the routines' contracts (emit R0's low byte, consume one queued byte) rest on the device registers: DDR write = low byte appended once, KBDR effectful read = front byte removed once, status = ready<<15")
    ck.include("C10", ctx, "C11.8", {"C10.4", "C10.5"}, "the routines leave R6 and user memory unchanged only if trap entry and RTI agree on the stack switch (entry sequence, stack swap, frame type)")
    ck.include("C09", ctx, "C11.9", {"C09.3"}, "the entry sequence stores through the supervisor context chosen after the privilege switch")
    ck.assume("TRAP does not write R7 and RTI restores PSR (condition codes, privilege) and PC: C08 effect rows, C10.5")
    ck.assume("HALT: C12.3 TRAP_HALT; the device side of KBSR/KBDR/DSR/DDR is C32/C33's concern")
    ck.assume("not decided: the arithmetic of PUTSP's high-byte extraction, termination of the poll loops, the characters themselves")
