"""C29 - Loading places exactly the object image into a fresh machine (ordering, frame rule, index ranges)."""
from lib import nf, simx, tables, panics
from lib.panics import _unwrap_var, interval, _agg_name
import discharge, C06

LEVEL = "other"
SPEC = C06.SPEC
SIM = "sim::Simulator"


def run(ck, ctx):
    F = ctx.F
    panics.FACTS = F
    ck.rule("R4: new_with_mcr builds memory and registers from the configured filler, then zero-fills [xFE00..] and then loads the OS, on every path; "
            "R8c (frame rule): load_obj_file only stores into `alloca` and only lends `mem` mutably (to copy_obj_block); the external-symbol guard "
            "dominates the first copy and the copy is unconditional inside the block loop; copy_obj_block touches memory only through the six range "
            "slices si..ei / si.. / ..ei (end = start +w chunk.len()), writes Word::new_init(v) for Some(v) and only clear_init() for None")
    ck.explanation = "Dominance order in the constructor, field-write/borrow sets of the loader, and the exact set of memory index operations of copy_obj_block."
    nb = F.bodies.get("sim::Simulator::new_with_mcr")
    if ck.anchor("C29.1", "new_with_mcr", nb):
        where = "src/sim.rs:%s" % nb.line
        fill = [bi for bi, t, c, _ in nb.calls() if (c or "").endswith("<impl [T]>::fill")]
        los = [bi for bi, t, c, _ in nb.calls() if (c or "").endswith("Simulator::load_os")]
        idx = [(bi, t) for bi, t, c, _ in nb.calls() if (c or "").endswith("IndexMut<I> for [T]>::index_mut")]
        ok = len(fill) == 1 and len(los) == 1 and nb.dominates(fill[0], los[0]) and fill[0] != los[0] and len(nb.reachable_blocks() - {b for b in nb.reachable_blocks() if nb.blocks[b]["cleanup"]}) > 0
        # straight line: no switch between entry and load_os
        sw = [bi for bi, t in nb.terms("switch") if nb.can_reach(bi, los[0])] if los else [0]
        ck.ob("C29.1", "io-page-then-os", ok and not sw, "fill of the I/O page (block %s) precedes load_os (block %s); branches before it: %s" % (fill, los, sw), where)
        rng_ok = False
        val_ok = False
        if idx and fill:
            an, fs = _agg_name(nb.expr_of_operand(idx[0][1]["args"][1], 8))
            rng_ok = an == "std::ops::RangeFrom" and interval(fs[0]) == (SPEC["memory_map"]["io_start"],) * 2 and "MemArray::as_slice_mut" in repr(nb.expr_of_operand(idx[0][1]["args"][0], 8))
            t = [t for bi, t, c, _ in nb.calls() if bi == fill[0]][0]
            v = _unwrap_var(nb.expr_of_operand(t["args"][1], 8))
            val_ok = v[0] == "call" and (v[1] or "").endswith("Word::new_init") and interval(v[2][0]) == (0, 0)
        ck.ob("C29.1", "io-page-zero", rng_ok and val_ok, "mem.as_slice_mut()[xFE00..].fill(Word::new_init(0))", where)
        agg = [s for bi, si, s in nb.stmts() if s["k"] == "assign" and s["rv"]["k"] == "agg" and s["rv"].get("adt") == SIM]
        init_ok = False
        if len(agg) == 1:
            d = dict(zip(agg[0]["rv"]["field_names"], [repr(nb.expr_of_operand(f, 8)) for f in agg[0]["rv"]["fields"]]))
            init_ok = "MemArray::new" in d["mem"] and "'filler'" in d["mem"] and "RegFile::new" in d["reg_file"] and "'filler'" in d["reg_file"] and \
                "('const', 12288, 'u16')" in d["pc"] and "PSR::new" in d["psr"] and "('const', 0, 'bool')" in d["os_loaded"]
            gen = "MachineInitStrategy::generator" in repr([nb.expr_of_local(l, 6) for l in range(len(nb.locals)) if nb.local_name(l) == "filler"])
            init_ok = init_ok and gen
        ck.ob("C29.1", "initial-state", init_ok, "mem/reg_file are drawn from flags.machine_init.generator(); pc = x3000; psr = PSR::new()", where)
    lo = F.bodies.get("sim::Simulator::load_os")
    if ck.anchor("C29.1", "load_os", lo):
        calls = [(c or "").split("::")[-1] for _, _, c, _ in lo.calls()]
        ck.ob("C29.1", "load_os", "load_obj_file" in calls and "_os_obj_file" in calls, "load_os loads _os_obj_file() (guarded by os_loaded, false in a new machine)", "src/sim.rs:%s" % lo.line)
    osf = F.bodies.get("sim::_os_obj_file::{closure#0}")
    if ck.anchor("C29.1", "_os_obj_file", osf):
        r = repr([osf.expr_of_operand(a, 6) for _, t, c, _ in osf.calls() for a in t["args"]])
        ck.ob("C29.1", "os-source", ".orig x0000" in r and "parse::parse_ast" in repr([c for _, _, c, _ in osf.calls()]), "the OS image is assembled from include_str!(\"os.asm\")", "src/sim.rs:%s" % osf.line)

    # ---- frame rule of load_obj_file
    lf = F.bodies.get("sim::Simulator::load_obj_file")
    if ck.anchor("C29.2", "load_obj_file", lf):
        where = "src/sim.rs:%s" % lf.line
        stored = set()
        borrowed = set()
        whole = []
        for bi, si, s in lf.stmts():
            if s["k"] != "assign":
                continue
            p = s["p"]
            if p["l"] == 1 and p["proj"]:
                names = [e.get("name") for e in p["proj"] if isinstance(e, dict) and "f" in e]
                stored.add(names[0] if names else "*self")
            rv = s["rv"]
            if rv["k"] in ("ref", "rawptr") and rv.get("mut") and rv["p"]["l"] == 1:
                names = [e.get("name") for e in rv["p"]["proj"] if isinstance(e, dict) and "f" in e]
                (borrowed.add(names[0]) if names else whole.append(s["line"]))
        ck.ob("C29.2", "frame-rule", stored <= {"alloca"} and borrowed <= {"mem"} and not whole,
              "load_obj_file stores into %s, lends mutably %s, lends all of self at lines %s (allowed: alloca / mem / never)" % (sorted(stored), sorted(borrowed), whole), where)
        # callees that receive the mutable borrow of mem
        recv = sorted(set((c or "") for bi, t, c, _ in lf.calls() for a in t["args"] if a.get("k") in ("copy", "move") and lf.local_ty(a["p"]["l"]).startswith("&mut sim::mem::MemArray")))
        ck.ob("C29.2", "mem-lent-to", recv == ["sim::mem::MemArray::copy_obj_block"], "the &mut MemArray is passed to: %s" % recv, where)
        ext = [bi for bi, si, s in lf.stmts() if s["k"] == "assign" and s["rv"]["k"] == "agg" and s["rv"].get("variant") == "UnresolvedExternal"]
        cp = [bi for bi, t, c, _ in lf.calls() if (c or "").endswith("MemArray::copy_obj_block")]
        ges = [bi for bi, t, c, _ in lf.calls() if (c or "").endswith("ObjectFile::get_external_symbol")]
        ok = len(ext) == 1 and len(cp) == 1 and len(ges) == 1 and lf.dominates(ges[0], cp[0]) and not lf.can_reach(cp[0], ext[0])
        ck.ob("C29.3", "external-guard-first", ok, "get_external_symbol() is consulted before the first copy; the UnresolvedExternal return cannot follow a copy", where)
        if cp:
            # complete path condition of the copy (every decision on every path to it): the block loop and the early
            # return for unresolved externals - nothing else may decide whether a block of the file is copied
            cc = nf.complete_conds(lf, cp[0])
            IT = "next(into_iter(ObjectFile::block_iter(arg2)))"
            want_cc = "discr(ObjectFile::get_external_symbol(arg2))!in{1} & discr(%s)=1" % IT
            ck.ob("C29.3", "every-block-copied", cc == want_cc, "inside load_obj_file the copy is conditional only on the block loop (the external check is an early return): %s" % cc, where)
            t = [t for bi, t, c, _ in lf.calls() if bi == cp[0]][0]
            args = [nf.arg_x(lf, t, i, cp[0]) for i in range(3)]
            ck.ob("C29.3", "copy-args", args == ["arg1.mem", IT + " as Some.0.0", IT + " as Some.0.1"], "copy_obj_block(start, words) for (start, words) in obj.block_iter(): %s" % args, where)

    # ---- copy_obj_block
    cb = F.bodies.get("sim::mem::MemArray::copy_obj_block")
    if ck.anchor("C29.4", "copy_obj_block", cb):
        where = "src/sim/mem.rs:%s" % cb.line
        ranges = []
        for bi, t, c, _ in cb.calls():
            if (c or "").endswith("IndexMut<I> for [T; N]>::index_mut") or (c or "").endswith("Index<I> for [T; N]>::index"):
                an, fs = _agg_name(cb.expr_of_operand(t["args"][1], 10))
                names = []
                for f in fs or []:
                    r = repr(f)
                    names.append("si" if "'si'" in r else "ei" if "'ei'" in r else "?")
                ranges.append(((an or "scalar").split("::")[-1], tuple(names)))
        want = sorted([("Range", ("si", "ei"))] * 2 + [("RangeFrom", ("si",))] * 2 + [("RangeTo", ("ei",))] * 2)
        scalar = [t["line"] for bi, t in cb.terms("assert") if t["kind"] == "BoundsCheck" and "65536" in repr(cb.expr_of_operand(t["ops"][0]))]
        ck.ob("C29.4", "index-ranges", sorted(ranges) == want and not scalar, "memory is indexed by %s; scalar indexing at lines %s (required: si..ei, si.., ..ei twice each, nothing else)" % (sorted(ranges), scalar), where)
        # si = usize::from(start), ei = usize::from(end), end = start.wrapping_add(chunk.len() as u16)
        defs = {}
        for l in range(len(cb.locals)):
            n = cb.local_name(l)
            if n in ("si", "ei", "end"):
                defs[n] = repr(_unwrap_var(cb.expr_of_local(l, 8)))
        ok = "From<u16> for usize>::from" in defs.get("si", "") and "'start'" in defs.get("si", "") and "From<u16> for usize>::from" in defs.get("ei", "") and "'end'" in defs.get("ei", "") \
            and "wrapping_add" in defs.get("end", "") and "'start'" in defs.get("end", "") and "<impl [T]>::len" in defs.get("end", "") and "'chunk'" in defs.get("end", "")
        ck.ob("C29.4", "range-bounds", ok, "si = usize::from(start), ei = usize::from(end), end = start.wrapping_add(chunk.len() as u16)", where)
        adv = [s for bi, si, s in cb.stmts() if s["k"] == "assign" and not s["p"]["proj"] and cb.local_name(s["p"]["l"]) == "start" and s["rv"]["k"] == "use"]
        ck.ob("C29.4", "advance", len(adv) == 1 and "'end'" in repr(cb.expr_of_operand(adv[0]["rv"]["op"], 4)), "start = end after each chunk", where)
        # init branch: new_init(unwrap) copied with copy_from_slice; uninit branch: only clear_init
        cfs = [bi for bi, t, c, _ in cb.calls() if (c or "").endswith("<impl [T]>::copy_from_slice")]
        cis = [bi for bi, t, c, _ in cb.calls() if (c or "").endswith("Word::clear_init")]
        sel = None
        for bi, t in cb.terms("switch"):
            e = _unwrap_var(cb.expr_of_operand(t["discr"], 10))
            if e[0] == "call" and (e[1] or "").endswith("Option::<T>::is_some") and "'chunk'" in repr(e):
                sel = (bi, t)
        ok = False
        if sel and len(cfs) == 3 and len(cis) == 3:
            bi, t = sel
            some_t = t["otherwise"]
            none_t = [tb for v, tb in t["values"] if v == 0][0]
            ok = all(cb.dominates(some_t, x) for x in cfs) and all(cb.dominates(none_t, x) for x in cis) and some_t != none_t
        mapped = [p for p in F.children.get(cb.path, []) if any((c or "").endswith("Option::<T>::unwrap") for _, _, c, _ in F.bodies[p].calls())]
        newinit = "sim::mem::Word::new_init" in repr([cb.expr_of_operand(a, 4) for _, t, c, _ in cb.calls() if (c or "").endswith("Iterator::map") for a in t["args"]])
        ck.ob("C29.4", "init-vs-uninit", ok and len(mapped) == 1 and newinit,
              "Some-chunks are written as Word::new_init(v) by copy_from_slice; None-chunks only call clear_init() (3 + 3 sites)", where)
    ck.include("C21", ctx, "C29.5", {"C21.2"}, "a file with unresolved externals is rejected before anything is copied")
    ck.include("C08", ctx, "C29.6", {"C08.5"}, "memory/register accessors used by the loader and the constructor")
    ck.assume("that no *other* word changes needs the index arithmetic as values; decided here only as: the sole memory accesses are the six range slices of total length chunk.len()")
    ck.assume("registers and the PC are outside load_obj_file's write set (frame rule); the OS image contents are os.asm's (C11)")
