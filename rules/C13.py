"""C13 - run, run_with_limit, run_while, step_over, step_out equal repeated single steps (loop structure)."""
from lib import panics, simx, shape
from lib.panics import _unwrap_var, interval

LEVEL = "other"
S = "sim::Simulator::"


def _self_stores(b):
    out = []
    for bi, si, s in b.stmts():
        if s["k"] == "assign" and s["p"]["l"] == 1 and s["p"]["proj"]:
            names = [e.get("name") for e in s["p"]["proj"] if isinstance(e, dict) and "f" in e]
            out.append((bi, names[0] if names else "*self"))
    for bi, t in b.terms("call"):
        d = t.get("dest")
        if d and d["l"] == 1 and d["proj"]:
            names = [e.get("name") for e in d["proj"] if isinstance(e, dict) and "f" in e]
            out.append((bi, names[0] if names else "*self"))
    return out


def run(ck, ctx):
    F = ctx.F
    panics.FACTS = F
    ck.rule("R5 one engine: `step` is called only by run_while (once, inside its loop) and step_in (once, no loop); `_step_inner` only by `step`; run/"
            "run_with_limit/step_over/step_out reach `step` only through one call of run_while and store nothing themselves. R4 loop order: each "
            "iteration of run_while is MCR load -> tripwire -> step -> breakpoint scan in dominance order with the five exits mapped to their "
            "PauseCondition; nothing effectful between a decision and its exit. Conditions: the closures' return cases in normal form.")
    ck.explanation = ("If every run-style entry point is `run_while` with a pure stop predicate evaluated before each `step`, and the per-iteration order is "
                      "fixed, then what a call executes is a prefix of the single-step sequence ending at the first boundary where its predicate "
                      "holds; the rule extracts the call graph, the loop's CFG and the predicates' normal forms from MIR.")
    need = [S + n for n in ("run_while", "run", "run_with_limit", "step_over", "step_out", "step_in", "step", "_step_inner")]
    for n in need:
        if not ck.anchor("C13.1", n, F.bodies.get(n)):
            return
    # ------------------------------------------------------------------ one engine
    step_callers = sorted((p, bi) for p, bi, t, c in F.callers_of(lambda c: c == S + "step"))
    ck.ob("C13.1", "step-callers", sorted(set(p for p, _ in step_callers)) == sorted([S + "run_while", S + "step_in"]) and len(step_callers) == 2,
          "direct callers of Simulator::step: %s" % step_callers, "src/sim.rs")
    inner_callers = sorted((p, bi) for p, bi, t, c in F.callers_of(lambda c: c == S + "_step_inner"))
    ck.ob("C13.1", "_step_inner-callers", [p for p, _ in inner_callers] == [S + "step"], "direct callers of _step_inner: %s" % inner_callers, "src/sim.rs")
    as_value = []
    for p in F.bodies:
        if F.bodies[p].light:
            continue
        for tgt, kind, line in F.edges(p):
            if kind == "value" and tgt in (S + "step", S + "_step_inner", S + "run_while"):
                as_value.append((p, tgt))
    ck.ob("C13.1", "no-fn-values", not as_value, "step/_step_inner/run_while taken as function values: %s" % as_value, "src/sim.rs")
    si = F.bodies[S + "step_in"]
    loops = [bi for bi in range(len(si.blocks)) if any(si.can_reach(s, bi) for s in si.succs(bi))]
    ck.ob("C13.1", "step_in:single", not loops and len([1 for _, _, c, _ in si.calls() if c == S + "step"]) == 1,
          "step_in calls step once and has no loop (blocks on a cycle: %s)" % loops, "src/sim.rs:%s" % si.line)
    for n in ("run", "run_with_limit", "step_over", "step_out"):
        b = F.bodies[S + n]
        local_calls = sorted((c or "?") for _, t, c, _ in b.calls() if (c or "").startswith("sim::"))
        allowed = {"run": [S + "run_while"], "run_with_limit": [S + "run_while"], "step_over": ["sim::frame::FrameStack::len", S + "run_while"], "step_out": ["sim::frame::FrameStack::len", S + "run_while"]}[n]
        st = _self_stores(b)
        cyc = [bi for bi in range(len(b.blocks)) if any(b.can_reach(s, bi) for s in b.succs(bi))]
        ck.ob("C13.1", n + ":delegates", local_calls == sorted(allowed) and not st and not cyc,
              "%s: crate calls %s, stores through self %s, loop blocks %s (required: one run_while, no store, no loop)" % (n, local_calls, st, cyc), "src/sim.rs:%s" % b.line)
    # ------------------------------------------------------------------ loop order
    rw = F.bodies[S + "run_while"]
    where = "src/sim.rs:%s" % rw.line
    cyc = sorted(bi for bi in range(len(rw.blocks)) if bi in rw.reachable_blocks() and any(rw.can_reach(s, bi) for s in rw.succs(bi)))
    def find_call(pred):
        return [(bi, t) for bi, t, c, raw in rw.calls() if pred(c or "", raw or "", t)]
    loads = find_call(lambda c, r, t: c.endswith("Atomic::<bool>::load"))
    trips = find_call(lambda c, r, t: ("FnMut" in c or "FnMut" in r) and "call_mut" in (c + r))
    steps = find_call(lambda c, r, t: c == S + "step")
    anys = find_call(lambda c, r, t: c.endswith("Iterator>::any") or "::any" in c)
    ok_counts = all(len(x) == 1 for x in (loads, trips, steps, anys))
    ck.ob("C13.2", "loop-calls", ok_counts, "in run_while: MCR loads %d, tripwire calls %d, step calls %d, breakpoint scans %d (each must be 1)" % (len(loads), len(trips), len(steps), len(anys)), where)
    if not ok_counts:
        return
    lb, tb, sb, ab = loads[0][0], trips[0][0], steps[0][0], anys[0][0]
    in_loop = all(x in cyc for x in (lb, tb, sb, ab))
    order = rw.dominates(lb, tb) and rw.dominates(tb, sb) and rw.dominates(sb, ab) and len({lb, tb, sb, ab}) == 4
    ck.ob("C13.2", "loop-order", in_loop and order, "all four are on the loop (%s) and MCR load dominates tripwire dominates step dominates breakpoint scan (%s)" % (in_loop, order), where)
    # operands: the load is on self.mcr, the tripwire is argument 2 applied to self, the scan iterates self.breakpoints
    l_e = repr(rw.expr_of_operand(loads[0][1]["args"][0], 8))
    t_e = [repr(rw.expr_of_operand(a, 8)) for a in trips[0][1]["args"]]
    a_e = repr(rw.expr_of_operand(anys[0][1]["args"][0], 10))
    ck.ob("C13.2", "loop-operands", "'mcr'" in l_e and "('arg', 2," in t_e[0] and "('arg', 1, 'self'" in t_e[1] and "'breakpoints'" in a_e and "HashSet" in a_e,
          "MCR load reads self.mcr, the tripwire is the caller's predicate applied to self, the scan iterates self.breakpoints", where)
    # the branch after each decision
    def branch_after(call_block):
        """(switch block, {value: target}, otherwise) of the switch testing the call's result"""
        t = rw.blocks[call_block]["term"]
        nb = t.get("target")
        seen = 0
        while nb is not None and rw.blocks[nb]["term"]["k"] == "goto" and seen < 4:
            nb = rw.blocks[nb]["term"]["target"]; seen += 1
        if nb is None or rw.blocks[nb]["term"]["k"] != "switch":
            return None
        sw = rw.blocks[nb]["term"]
        d = _unwrap_var(rw.expr_of_operand(sw["discr"], 6))
        return nb, sw, d
    def exit_variant(block):
        """PauseCondition variant / Err built on the straight-line path from `block` until the loop is left"""
        seen = set()
        out = []
        calls = []
        stores = []
        st = [block]
        while st:
            x = st.pop()
            if x in seen or x in cyc and x != block and rw.can_reach(x, lb) and x in (lb, tb, sb, ab):
                continue
            seen.add(x)
            blk = rw.blocks[x]
            for s in blk["stmts"]:
                if s["k"] == "assign" and s["rv"]["k"] == "agg" and s["rv"].get("adt") == "sim::PauseCondition":
                    out.append(s["rv"]["variant"])
                if s["k"] == "assign" and s["rv"]["k"] == "agg" and s["rv"].get("adt") == "std::result::Result" and s["rv"]["variant"] == "Err":
                    out.append("Err(%s)" % shape.pp(rw.expr_of_operand(s["rv"]["fields"][0], 10)))
            if x == after:
                continue
            if blk["term"]["k"] == "call":
                calls.append(blk["term"]["func"].get("fn"))
            st.extend(s for s in rw.succs(x) if rw.blocks[s]["term"]["k"] != "unreachable")
        return out, calls
    # the first block after the loop: the mcr.store(false) sequence; identify as the unique non-loop block that all exits reach
    stores = find_call(lambda c, r, t: c.endswith("Atomic::<bool>::store"))
    pre = [(bi, t) for bi, t in stores if rw.dominates(bi, lb)]
    post = [(bi, t) for bi, t in stores if bi not in cyc and not rw.dominates(bi, lb)]
    ok_st = len(pre) == 1 and len(post) == 1 and interval(rw.expr_of_operand(pre[0][1]["args"][1])) == (1, 1) and interval(rw.expr_of_operand(post[0][1]["args"][1])) == (0, 0)
    ck.ob("C13.2", "mcr-bracket", ok_st, "MCR is stored true once before the loop and false once after it (stores: %s before, %s after)" % (len(pre), len(post)), where)
    if not ok_st:
        return
    # `after`: the deref call block preceding the store(false)
    after = post[0][0]
    while True:
        ps = [p for p in rw.preds().get(after, []) if p in rw.reachable_blocks()]
        if len(ps) == 1 and ps[0] not in cyc and rw.blocks[ps[0]]["term"]["k"] in ("call", "goto"):
            after = ps[0]
        else:
            break
    exits = {}
    ba = branch_after(lb)
    okb = ba is not None and ba[2][0] == "call" and ba[2][1].endswith("load")
    if okb:
        f_edge = [tb_ for v, tb_ in ba[1]["values"] if v == 0]
        exits["mcr-false"] = exit_variant(f_edge[0]) if f_edge else None
        okb = rw.dominates(ba[1]["otherwise"], tb)
    ck.ob("C13.2", "exit:MCROff", okb and exits.get("mcr-false") == (["MCROff"], []), "the MCR-clear edge leaves with PauseCondition::MCROff and calls nothing: %s" % (exits.get("mcr-false"),), where)
    ba = branch_after(tb)
    okb = ba is not None and ba[2][0] == "call" and "call_mut" in (ba[2][1] or "") + str(ba[2][3])
    if okb:
        f_edge = [tb_ for v, tb_ in ba[1]["values"] if v == 0]
        exits["trip-false"] = exit_variant(f_edge[0]) if f_edge else None
        okb = rw.dominates(ba[1]["otherwise"], sb) and ba[1]["otherwise"] == sb
    ck.ob("C13.2", "exit:Tripwire", okb and exits.get("trip-false") == (["Tripwire"], []), "the tripwire-false edge leaves with PauseCondition::Tripwire and calls nothing; the true edge goes straight to step(): %s" % (exits.get("trip-false"),), where)
    # step result
    ba = branch_after(sb)
    okb = ba is not None and ba[2][0] == "discr"
    res = {}
    if okb:
        for v, tb_ in ba[1]["values"]:
            if v == 0:
                res["Ok"] = tb_
            if v == 1:
                # inner switch on StepBreak
                isw = rw.blocks[tb_]["term"]
                if isw["k"] == "switch":
                    adt = F.adts.get("sim::StepBreak")
                    names = [vv["name"] for vv in adt["variants"]] if adt else []
                    for v2, t2 in isw["values"]:
                        res["Err(%s)" % (names[v2] if v2 < len(names) else v2)] = t2
        e_halt = exit_variant(res["Err(Halt)"]) if "Err(Halt)" in res else None
        e_err = exit_variant(res["Err(Err)"]) if "Err(Err)" in res else None
        ok_halt = e_halt == (["Halt"], [])
        ok_err = e_err is not None and len(e_err[0]) == 1 and e_err[0][0].startswith("Err(") and "step(" in e_err[0][0] and "as Err" in e_err[0][0] and e_err[1] == []
        okc = "Ok" in res and rw.dominates(res["Ok"], ab)
        ck.ob("C13.2", "exit:Halt", ok_halt, "Err(StepBreak::Halt) leaves with PauseCondition::Halt: %s" % (e_halt,), where)
        ck.ob("C13.2", "exit:Err", ok_err, "Err(StepBreak::Err(e)) leaves with Err(e), e being the payload of step()'s result: %s" % (e_err,), where)
        between = [c for x in range(len(rw.blocks)) if "Ok" in res and rw.dominates(res["Ok"], x) and rw.can_reach(x, ab) and x != ab and rw.blocks[x]["term"]["k"] == "call" for c in [rw.blocks[x]["term"]["func"].get("fn")]]
        ck.ob("C13.2", "ok-to-scan", okc and all("HashSet" in (c or "") and (c or "").endswith("::iter") for c in between), "Ok(()) continues to the breakpoint scan; calls in between: %s" % between, where)
    else:
        ck.fail("C13.2", "step-result", "obligation not established: the result of step() is not matched directly", where)
    ba = branch_after(ab)
    okb = ba is not None and ba[2][0] == "call" and "any" in (ba[2][1] or "")
    if okb:
        t_edge = ba[1]["otherwise"]
        f_edge = [tb_ for v, tb_ in ba[1]["values"] if v == 0]
        exits["bp"] = exit_variant(t_edge)
        # back edge only from the false edge
        back = [p for p in rw.preds().get(lb, []) if p in cyc] if lb in rw.preds() else []
        hdr = lb
        # loop header may be a goto block before lb
        hs = [p for p in rw.preds().get(lb, [])]
        back_ok = bool(f_edge) and rw.can_reach(f_edge[0], lb) and not rw.can_reach(t_edge, lb)
        okb = back_ok
    ck.ob("C13.2", "exit:Breakpoint", okb and exits.get("bp") == (["Breakpoint"], []), "a matching breakpoint after the step leaves with PauseCondition::Breakpoint; only the no-match edge loops: %s" % (exits.get("bp"),), where)
    # back edges: the only way back to the MCR load is through the scan's false edge
    back_srcs = sorted(p for p in cyc for s in rw.succs(p) if s in cyc and rw.dominates(s, p) and s != p)
    ck.ob("C13.2", "single-back-edge", len(back_srcs) == 1 and rw.dominates(ab, back_srcs[0]), "back edges of the loop come from %s (must be one, after the breakpoint scan)" % back_srcs, where)
    # stores through self in run_while: only pause_condition (after the loop); take() before the loop
    st = _self_stores(rw)
    ck.ob("C13.2", "run_while-stores", [n for _, n in st] == ["pause_condition"] and all(bi not in cyc and not rw.dominates(bi, lb) for bi, _ in st),
          "stores through self in run_while: %s (only pause_condition, after the loop)" % st, where)
    crate_calls = sorted(set((c or "") for _, t, c, _ in rw.calls() if (c or "").startswith("sim::")))
    ck.ob("C13.2", "run_while-crate-calls", crate_calls == ["sim::Simulator::step", "sim::observer::AccessObserver::clear"], "crate functions called by run_while: %s" % crate_calls, where)
    w = set()
    import discharge
    w = discharge._field_writers(F, "sim::Simulator", "pause_condition")
    ck.ob("C13.2", "pause_condition-writers", w <= {S + "run_while", S + "new_with_mcr"}, "writers of Simulator.pause_condition: %s" % sorted(w), "src/sim.rs")
    # the breakpoint closure
    c0 = F.bodies.get(S + "run_while::{closure#0}")
    if ck.anchor("C13.2", "run_while::{closure#0}", c0):
        calls = [(c or "") for _, t, c, _ in c0.calls()]
        ck.ob("C13.2", "scan-closure", calls == ["sim::debug::Breakpoint::check"], "the scan predicate calls exactly Breakpoint::check: %s" % calls, "src/sim.rs:%s" % c0.line)
    # ------------------------------------------------------------------ conditions
    want = {
        "run": ([((), "1")], []),
        "run_with_limit": ([((), "Lt(wrapping_sub(sim.instructions_run, @entry{self.instructions_run}), @entry{max_steps})")], ["self.instructions_run", "max_steps"]),
        "step_over": ([(("Option::is_some(Option::take(@entry{Option::Some(tuple())})) in [0,0]",), "Lt(@entry{FrameStack::len(self.frame_stack)}, FrameStack::len(sim.frame_stack))"),
                       (("Option::is_some(Option::take(@entry{Option::Some(tuple())})) in [1,1]",), "1")], None),
        "step_out": ([(("Option::is_some(Option::take(@entry{Option::Some(tuple())})) in [0,0]",), "Le(@entry{FrameStack::len(self.frame_stack)}, FrameStack::len(sim.frame_stack))"),
                      (("Option::is_some(Option::take(@entry{Option::Some(tuple())})) in [1,1]",), "1")], None),
    }
    for n, (cases, _) in want.items():
        cname = S + n + "::{closure#0}"
        cb = F.bodies.get(cname)
        site = shape.closure_site(F, S + n, cname)
        if not ck.anchor("C13.3", cname, cb) or not ck.anchor("C13.3", cname + " construction", site):
            continue
        names = {2: "sim", "parent": {1: "self", 2: "max_steps"}}
        got = shape.return_cases(cb, site[1], names)
        # the closure has no effect besides consuming its own `first` flag
        eff = [(c or "") for _, t, c, _ in cb.calls() if not any((c or "").endswith(x) for x in ("Option::<T>::take", "Option::<T>::is_some", "FrameStack::len", "wrapping_sub"))]
        stores = [s for _, _, s in cb.stmts() if s["k"] == "assign" and s["p"]["proj"]]
        ck.ob("C13.3", n + ":condition", got == sorted(cases) and not eff and not stores, "continue-predicate of %s: %s (required %s); other calls %s" % (n, got, sorted(cases), eff), "src/sim.rs:%s" % cb.line)
        # the captured values are read before the run_while call with nothing in between
        pb = F.bodies[S + n]
        rwc = [bi for bi, t, c, _ in pb.calls() if c == S + "run_while"]
        ck.ob("C13.3", n + ":single-run_while", len(rwc) == 1, "%s calls run_while %d time(s)" % (n, len(rwc)), "src/sim.rs:%s" % pb.line)
    # step_out: the call is guarded by depth != 0 and the other edge returns Ok(()) without calling anything
    so = F.bodies[S + "step_out"]
    rwc = [bi for bi, t, c, _ in so.calls() if c == S + "run_while"]
    if rwc:
        conds = [("%s in [%s,%s]" % (shape.pp(ex, {1: "self"}), lo, hi)) for ex, lo, hi in panics.dominating_conditions(so, rwc[0])]
        ck.ob("C13.3", "step_out:depth-guard", conds in (["Ne(FrameStack::len(self.frame_stack), 0) in [1,1]"], ["FrameStack::len(self.frame_stack) in [1,None]"], ["Eq(FrameStack::len(self.frame_stack), 0) in [0,0]"]),
              "run_while in step_out is guarded by exactly `depth at entry != 0`: %s" % conds, "src/sim.rs:%s" % so.line)
    so_over = F.bodies[S + "step_over"]
    rwc2 = [bi for bi, t, c, _ in so_over.calls() if c == S + "run_while"]
    if rwc2:
        conds = panics.dominating_conditions(so_over, rwc2[0])
        ck.ob("C13.3", "step_over:unguarded", not conds, "run_while in step_over is unconditional: %s" % (conds,), "src/sim.rs:%s" % so_over.line)
    for n in ("run", "run_with_limit"):
        pb = F.bodies[S + n]
        rwc3 = [bi for bi, t, c, _ in pb.calls() if c == S + "run_while"]
        if rwc3:
            conds = panics.dominating_conditions(pb, rwc3[0])
            ck.ob("C13.3", n + ":unguarded", not conds, "run_while in %s is unconditional: %s" % (n, conds), "src/sim.rs:%s" % pb.line)
    # FrameStack::len is the frame counter
    fl = F.bodies.get("sim::frame::FrameStack::len")
    if ck.anchor("C13.3", "FrameStack::len", fl):
        from lib import bits
        r = shape.return_cases(fl, (), {1: "self"})
        ck.ob("C13.3", "depth-is-frame_no", r == [((), "self.frame_no")], "FrameStack::len returns the frame counter: %s" % r, "src/sim/frame.rs:%s" % fl.line)
    # ------------------------------------------------------------------ breakpoint predicates
    cc = F.bodies.get("sim::debug::Comparator::check")
    if ck.anchor("C13.4", "Comparator::check", cc):
        adt = F.adts["sim::debug::Comparator"]
        names = [v["name"] for v in adt["variants"]]
        rows = {}
        for conds, val in shape.return_cases(cc, (), {1: "self", 2: "operand"}):
            k = None
            for c in conds:
                if c.startswith("discr(") and c.endswith("]"):
                    lo, hi = c[c.rindex("[") + 1:-1].split(",")
                    if lo == hi:
                        k = names[int(lo)]
            rows[k] = val
        want_rows = {"Never": "0", "Always": "1"}
        for nm in ("Lt", "Le"):
            want_rows[nm] = "%s(operand, self as %s.0)" % (nm, nm)
        for nm, op in (("Gt", "Lt"), ("Ge", "Le")):       # normal form: a > b is printed as b < a
            want_rows[nm] = "%s(self as %s.0, operand)" % (op, nm)
        for nm in ("Eq", "Ne"):
            want_rows[nm] = "%s(operand, self as %s.0)" % (nm, nm)
        ck.ob("C13.4", "comparator-rows", rows == want_rows, "Comparator::check rows: %s" % rows, "src/sim/debug.rs:%s" % cc.line)
        ck.floor("C13.4", "comparator variants", len(names), 8)
    bc = F.bodies.get("sim::debug::Breakpoint::check")
    if ck.anchor("C13.4", "Breakpoint::check", bc):
        calls = sorted(set((c or "") for _, t, c, _ in bc.calls()))
        allowed = {"sim::debug::Comparator::check", "sim::mem::Word::get", "<sim::mem::RegFile as std::ops::Index<ast::Reg>>::index", "<sim::mem::MemArray as std::ops::Index<u16>>::index", "std::cmp::PartialEq::eq", "std::cmp::impls::<impl std::cmp::PartialEq<&B> for &A>::eq", "std::cmp::impls::<impl std::cmp::PartialEq for u16>::eq"}
        sig = bc.raw.get("sig", "") if hasattr(bc, "raw") else ""
        arg_ty = bc.local_ty(2)
        rows = {}
        for conds, val in shape.return_cases(bc, (), {1: "self", 2: "sim"}):
            rows[conds] = val
        ck.ob("C13.4", "breakpoint-pure", set(calls) <= allowed and arg_ty == "&sim::Simulator" and not [s for _, _, s in bc.stmts() if s["k"] == "assign" and s["p"]["proj"]],
              "Breakpoint::check takes &Simulator (%s) and calls only comparators and plain indexing (no read_mem, no device): %s" % (arg_ty, sorted(set(calls) - allowed)), "src/sim/debug.rs:%s" % bc.line)
        vals = sorted(rows.values())
        pcrow = [v for v in vals if "sim.pc" in v]
        ck.ob("C13.4", "breakpoint-rows", len(vals) == 3 and "Comparator::check(self as Mem.value, Word::get(index(sim.mem, self as Mem.addr)))" in vals and "Comparator::check(self as Reg.value, Word::get(index(sim.reg_file, self as Reg.reg)))" in vals and len(pcrow) == 1 and "self as PC.0" in pcrow[0] and pcrow[0] in ("eq(self as PC.0, sim.pc)", "eq(sim.pc, self as PC.0)", "Eq(self as PC.0, sim.pc)", "Eq(sim.pc, self as PC.0)"),
              "Breakpoint::check rows: %s" % vals, "src/sim/debug.rs:%s" % bc.line)
    ck.include("C27", ctx, "C13.6", {"C27.1", "C27.3"}, "step_over/step_out compare frame depths: push/pop ownership and the +1/-1 counter discipline")
    ck.include("C08", ctx, "C13.7", {"C08.2"}, "one instruction counter, incremented once per executed step")
    ck.assume("instructions_run has one writer adding 1 per executed step (C08.2); frame_no is changed only inside step (C27)")
    ck.assume("the segment-splitting equality itself (equal final state for any split) is argued from these facts, not computed")
    ck.assume("the tripwire of run_while is the caller's; purity of host-supplied tripwires is outside the claim")
