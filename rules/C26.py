"""C26 - Assembler and linker error spans are well-formed."""
from lib import r3, panics
import discharge

LEVEL = "other"
ALLOWED = ("::clone", "ast::Label::span", "asm::SymbolData::span", "::Iterator::collect", "::Iterator::map",
           "<impl [T]>::iter", "::Deref>::deref", "OccupiedEntry::<'a, K, V, A>::get", "OccupiedEntry::<'a, K, V, A>::key",
           "String as std::ops::Deref>::deref", "::into_iter", "::as_str")
LABEL_KINDS = {"OverlappingLabels", "CouldNotFindLabel", "OffsetExternal", "OffsetNewErr", "UndetAddrLabel"}


LEAF_CALLS = ("ast::Label::span", "asm::SymbolData::span")
PASS_CALLS = ("::clone", "::Iterator::collect", "::Iterator::map", "<impl [T]>::iter", "::Deref>::deref", "::into_iter")
FACTS = None


def bad_nodes(e, acc, depth=0):
    """nodes that compute a span instead of passing a stored one on"""
    if not isinstance(e, tuple) or not e or depth > 30:
        return
    k = e[0]
    if k == "field" and ((e[3] or "").startswith("std::ops::Range<usize>") or "ast::Label" in (e[3] or "")):
        return          # a span stored in the AST / cursor / block (Stmt.span, block_orig, orig_span)
    if k == "bin":
        acc.append("arithmetic %s" % e[1])
    elif k == "agg" and e[1] == "adt" and e[2][0].startswith("std::ops::Range"):
        acc.append("span built ad hoc (%s literal)" % e[2][0])
    elif k == "agg" and e[1] == "closure":
        body = FACTS.bodies.get(e[2][0]) if FACTS else None
        if body is None:
            acc.append("unknown closure")
        else:
            for (bi, si, rv) in body.defs().get(0, []):
                r = body.expr_of_call(rv, 10, None) if si == "term" else body.expr_of_rvalue(rv, 10)
                bad_nodes(r, acc, depth + 1)
        return
    elif k == "call":
        c = e[1] or "?"
        if any(a in c for a in LEAF_CALLS):
            return
        if not any(a in c for a in PASS_CALLS):
            acc.append("computed by %s" % c)
            return
    elif k == "const":
        acc.append("constant %r" % (e[1],))
    for x in e[1:]:
        if isinstance(x, tuple):
            if x and isinstance(x[0], str):
                bad_nodes(x, acc, depth + 1)
            else:
                for y in x:
                    bad_nodes(y, acc, depth + 1)


def kind_of(b, t):
    e = b.expr_of_operand(t["args"][0])
    an, _ = panics._agg_name(e)
    r = repr(e)
    for k in ("UndetAddrLabel", "UndetAddrStmt", "UnclosedOrig", "UnopenedOrig", "OverlappingOrig", "OverlappingLabels",
              "WrappingBlock", "BlockInIO", "OverlappingBlocks", "OffsetNewErr", "OffsetExternal", "CouldNotFindLabel"):
        if "'%s'" % k in r or "AsmErrKind::%s" % k in r:
            return k
    return "?"


def span_shapes(ck, F):
    """C26.4: the two label-span accessors return start .. start + <byte length of the name>"""
    from lib import bits
    rule = "C26.4"
    for path, start_field, len_of in (("asm::SymbolData::span", "src_start", "label"), ("ast::Label::span", "start", "name")):
        b = F.bodies.get(path)
        if not ck.anchor(rule, path, b):
            continue
        try:
            e = panics._unwrap_var(bits.ret_expr(b))
        except bits.Unanalysable as ex:
            ck.fail(rule, path, "return expression not recognised: %s" % ex, "%s:%s" % (b.file, b.line))
            continue
        ok = False
        why = "not a Range literal"
        if e[0] == "agg" and e[2][0] == "std::ops::Range" and len(e[3]) == 2:
            st, en = panics._unwrap_var(e[3][0]), panics._unwrap_var(e[3][1])
            st_ok = st[0] == "field" and st[2] == start_field
            add_ok = False
            args = None
            if en[0] == "call" and (en[1] or "").endswith("::saturating_add"):
                args = en[2]
            elif en[0] == "field" and en[1][0] == "bin" and en[1][1] == "AddWithOverflow":
                args = (en[1][2], en[1][3])
            if args:
                a0, a1 = panics._unwrap_var(args[0]), panics._unwrap_var(args[1])
                len_ok = a1[0] == "call" and ((a1[1] or "").endswith("<impl str>::len") or (a1[1] or "").endswith("String::len")) and ("'%s'" % len_of) in repr(a1[2])
                add_ok = a0[0] == "field" and a0[2] == start_field and len_ok
            ok = st_ok and add_ok
            why = "start=%s end=%s" % (repr(st)[:80], repr(en)[:160])
        ck.ob(rule, path, ok, "%s returns %s .. %s + %s.len() (byte length): %s" % (path, start_field, start_field, len_of, why), "%s:%s" % (b.file, b.line))
    ln = F.bodies.get("ast::Label::new")
    if ck.anchor(rule, "ast::Label::new", ln):
        good = False
        for bi, si, s in ln.stmts():
            if s["k"] == "assign" and s["rv"]["k"] == "agg" and s["rv"].get("adt") == "ast::Label":
                names = s["rv"]["field_names"]
                fs = [panics._unwrap_var(ln.expr_of_operand(x)) for x in s["rv"]["fields"]]
                d = dict(zip(names, fs))
                good = d.get("start", ("",))[0] == "field" and d["start"][2] == "start" and d.get("name", ("",))[0] == "arg"
        ck.ob(rule, "Label::new", good, "Label::new stores name and span.start", "src/ast.rs:%s" % ln.line)


def run(ck, ctx):
    global FACTS
    F = ctx.F
    FACTS = F
    ck.rule("R3 on ErrSpan::first/iter and every ErrSpan conversion; R5: AsmErr is only built by AsmErr::new; R6: at every "
            "AsmErr::new call reachable from assemble* the span argument is passed on from Stmt.span, Label::span(), "
            "SymbolData::span(key) or a stored .orig span, never computed")
    ck.explanation = "Span accessors are total (no undischarged panic site); span arguments are provenance-checked on MIR expression trees."
    ents = [p for p in F.bodies if p.startswith("err::ErrSpan::") or (p.startswith("<err::ErrSpan as ") and not F.bodies[p].light)]
    r3.run(ck, F, "C26.1", sorted(ents), discharge.TABLE, scope="C26", floor_sites=0, floor_bodies=8)
    first = F.bodies.get("err::ErrSpan::first")
    ck.anchor("C26.1", "err::ErrSpan::first", first)

    rule = "C26.2"
    builders = set()
    for p, b in F.bodies.items():
        if b.light:
            continue
        for bi, si, s in b.stmts():
            if s["k"] == "assign" and s["rv"]["k"] == "agg" and s["rv"].get("adt") == "asm::AsmErr":
                builders.add(p)
    ck.ob(rule, "builders", builders == {"asm::AsmErr::new"}, "AsmErr aggregates are built in %s" % sorted(builders), "src/asm.rs")

    reach = F.reach(["asm::assemble", "asm::assemble_debug"])
    n = 0
    idx = {}
    for p in reach:
        b = F.bodies[p]
        if b.light:
            continue
        for bb in [b] + list(b.promoted):
            for bi, t, callee, raw in bb.calls():
                if callee != "asm::AsmErr::new":
                    continue
                n += 1
                kind = kind_of(bb, t)
                e = bb.expr_of_operand(t["args"][1])
                bad = []
                bad_nodes(e, bad)
                r = repr(e)
                key = "%s|%s" % (p, kind)
                idx[key] = idx.get(key, 0) + 1
                ck.ob(rule, "%s#%d" % (key, idx[key]), not bad,
                      "span of %s: %s" % (kind, "; ".join(bad) if bad else "passed on"), "%s:%s" % (b.file, t["line"]))
                if kind in LABEL_KINDS:
                    lab = "ast::Label::span" in r or "asm::SymbolData::span" in r or "closure" in r and any(
                        "ast::Label::span" in (c or "") for cl in F.children.get(p, []) for _, _, c, _ in F.bodies[cl].calls())
                    ck.ob("C26.3", "%s#%d" % (key, idx[key]), lab,
                          "label error %s takes its span from Label::span()/SymbolData::span(key): %s" % (kind, lab), "%s:%s" % (b.file, t["line"]))
    ck.floor(rule, "AsmErr::new call sites reachable from assemble*", n, 14)
    span_shapes(ck, F)
    ck.include("C23", ctx, "C26.5", {"C23.2", "C23.3"}, "label error spans are rebuilt from the stored src_start: where it is stored (first occurrence, label.span().start) and SymbolData::span / Label::span")
    ck.assume("spans stored in the AST come from the parser (token spans of the same source)")
    ck.assume("link errors carry spans of two different sources (documented TODO in the code); only the no-panic clause is claimed for them")
