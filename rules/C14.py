"""C14 - Strict mode only adds uninitialized-value errors (R8a strict-taint + R5 + R6)."""
from lib import simx, tables, panics
from lib.panics import _unwrap_var, interval

LEVEL = "other"

# functions that may run in a region executed only under strict mode: no effects, cannot fail
PURE = {
    "sim::Simulator::in_alloca": "reads self.alloca only",
    "sim::mem::Word::is_init": "reads the init mask",
    "<sim::mem::MemArray as std::ops::Index<u16>>::index": "shared borrow of a memory word (peek)",
    "<ast::Reg as std::cmp::PartialEq>::ne": "derived comparison",
    "<ast::Reg as std::cmp::PartialEq>::eq": "derived comparison",
    "std::cmp::PartialEq::ne": "comparison",
    "std::cmp::PartialEq::eq": "comparison",
    "<std::result::Result<T, F> as std::ops::FromResidual<std::result::Result<std::convert::Infallible, E>>>::from_residual": "`?` error return (the error value is checked separately)",
    "<T as std::convert::Into<U>>::into": "error conversion",
    "<T as std::convert::From<T>>::from": "error conversion",
}


def mentions_strict(e, depth=0):
    if not isinstance(e, tuple) or depth > 40:
        return False
    if e and e[0] == "field" and e[2] == "strict":
        return True
    return any(mentions_strict(x, depth + 1) for x in e if isinstance(x, tuple))


def strict_true_edge(b, bi, t):
    """the successor taken when the strict-dependent discriminant is true (None if not boolean)"""
    zero = [tb for v, tb in t["values"] if v == 0]
    if len(t["values"]) == 1 and zero and t["otherwise"] != zero[0]:
        d = _unwrap_var(b.expr_of_operand(t["discr"], 20))
        neg = False
        while d[0] == "un" and d[1] == "Not":
            d = _unwrap_var(d[2])
            neg = not neg
        return (zero[0] if neg else t["otherwise"]), (t["otherwise"] if neg else zero[0])
    return None


def run(ck, ctx):
    F = ctx.F
    panics.FACTS = F
    ck.rule("R8a: every branch whose condition depends on flags.strict / ctx.strict has a strict-only region (blocks reachable only through "
            "the strict edge) that calls only functions from a pure set, stores only to locals, and constructs only SimErr::Strict* errors; "
            "R4: get_if_init/set_if_init return Err only on strict && !is_init and behave identically otherwise; R6: the error operand at each "
            "of their call sites is a SimErr::Strict* constant; R5: clear_init/new_uninit are not reachable from step")
    ck.explanation = ("Strict-taint: the strict flag may only select between 'continue exactly as without it' and 'return a Strict* error'. "
                      "Decided per function on the CFG (dominance regions) and on call-site argument expressions.")
    sim_bodies = [b for p, b in F.bodies.items() if not b.light and b.owner is None and (b.file == "src/sim.rs" or b.file.startswith("src/sim/"))]
    n_reads = 0
    n_branches = 0
    for b in sim_bodies:
        # count reads of a `strict` field
        for bi, si, s in b.stmts():
            if s["k"] == "assign" and s["rv"]["k"] == "use" and s["rv"]["op"].get("k") in ("copy", "move"):
                if any(isinstance(e, dict) and e.get("name") == "strict" for e in s["rv"]["op"]["p"]["proj"]):
                    n_reads += 1
        for bi, t in b.terms("switch"):
            d = _unwrap_var(b.expr_of_operand(t["discr"], 20))
            while d[0] == "un" and d[1] == "Not":
                d = _unwrap_var(d[2])
            # control dependence on the flag itself (values computed by get_if_init etc. are data, decided by C14.2/C14.3)
            if not (d[0] == "field" and d[2] == "strict"):
                continue
            # `write_strict` style locals: a multi-def local whose defs mention strict
            edges = strict_true_edge(b, bi, t)
            n_branches += 1
            key = "%s|switch@%d" % (b.path, n_branches)
            where = "%s:%s" % (b.file, t["line"])
            if edges is None:
                ck.fail("C14.1", key, "strict-dependent branch is not a two-way boolean test", where)
                continue
            tt, ff = edges
            # strict-only region: reachable from the true edge without passing through blocks reachable from the false edge
            from_false = set()
            st = [ff]
            while st:
                x = st.pop()
                if x in from_false:
                    continue
                from_false.add(x)
                st.extend(b.succs(x))
            region = set()
            st = [tt]
            while st:
                x = st.pop()
                if x in region or x in from_false:
                    continue
                region.add(x)
                st.extend(b.succs(x))
            bad = []
            for x in sorted(region):
                blk = b.blocks[x]
                for s in blk["stmts"]:
                    if s["k"] == "assign" and s["p"]["proj"] and s["p"]["proj"][0] == "deref":
                        bad.append("store through a reference at line %s" % s["line"])
                    if s["k"] == "assign" and s["rv"]["k"] == "agg" and s["rv"].get("adt") == "sim::SimErr" and not s["rv"]["variant"].startswith("Strict"):
                        bad.append("constructs SimErr::%s" % s["rv"]["variant"])
                tm = blk["term"]
                if tm["k"] == "call":
                    f = tm["func"]
                    c = (f.get("resolved") or {}).get("path") or f.get("fn") or "?"
                    if c not in PURE:
                        bad.append("calls %s at line %s" % (c, tm["line"]))
            ck.ob("C14.1", key, not bad, "strict-only region of %d block(s): %s" % (len(region), "; ".join(bad) or "pure, exits by Strict* error or falls through"), where)
    ck.floor("C14.1", "reads of a strict flag", n_reads, 20)
    ck.floor("C14.1", "strict-dependent branches", n_branches, 7)

    # ---- get_if_init / set_if_init
    for name in ("get_if_init", "set_if_init"):
        b = F.bodies.get("sim::mem::Word::" + name)
        if not ck.anchor("C14.2", name, b):
            continue
        errs = [(bi, s) for bi, si, s in b.stmts() if s["k"] == "assign" and s["rv"]["k"] == "agg" and s["rv"].get("variant") == "Err"]
        oks = [(bi, s) for bi, si, s in b.stmts() if s["k"] == "assign" and s["rv"]["k"] == "agg" and s["rv"].get("variant") == "Ok"]
        good = len(errs) == 1 and len(oks) == 1
        if good:
            conds = panics.dominating_conditions(b, errs[0][0])
            st_true = any(_unwrap_var(ex)[0] == "arg" and _unwrap_var(ex)[2] == "strict" and lo == 1 for ex, lo, hi in conds)
            uninit = any("Word::is_init" in repr(ex) and hi == 0 for ex, lo, hi in conds)
            # `!strict || x.is_init()` is lowered to a boolean phi: the Err edge is phi == false; the phi is the constant
            # true on the !strict edge, so phi == false means: came through the other definition, which must be the
            # is_init() result computed on the strict == true edge
            for ex, lo, hi in conds:
                u = _unwrap_var(ex)
                if u[0] == "local" and hi == 0:
                    defs = b.defs().get(u[1], [])
                    can_be_false = []
                    for (bj, sj, rv) in defs:
                        if sj != "term" and rv["k"] == "use" and interval(b.expr_of_operand(rv["op"])) == (1, 1):
                            continue
                        can_be_false.append((bj, sj, rv))
                    if len(can_be_false) == 1 and can_be_false[0][1] == "term":
                        bj, sj, call = can_be_false[0]
                        cal = (call["func"].get("resolved") or {}).get("path") or call["func"].get("fn") or ""
                        c2 = panics.dominating_conditions(b, bj)
                        if cal.endswith("Word::is_init"):
                            recv = repr(b.expr_of_operand(call["args"][0]))
                            want_recv = "'self'" if name == "get_if_init" else "'data'"
                            uninit = want_recv in recv
                            st_true = any(_unwrap_var(e2)[0] == "arg" and _unwrap_var(e2)[2] == "strict" and l2 == 1 for e2, l2, h2 in c2)
            e_arg = _unwrap_var(b.expr_of_operand(errs[0][1]["rv"]["fields"][0]))
            good = st_true and uninit and e_arg[0] == "arg" and e_arg[2] == "err"
        if good and name == "get_if_init":
            v = _unwrap_var(b.expr_of_operand(oks[0][1]["rv"]["fields"][0]))
            good = v[0] == "field" and v[2] == "data"
        if good and name == "set_if_init":
            stores = [s for bi, si, s in b.stmts() if s["k"] == "assign" and s["p"]["proj"] == ["deref"] and b.local_name(s["p"]["l"]) == "self"]
            good = len(stores) == 1 and _unwrap_var(b.expr_of_rvalue(stores[0]["rv"]))[0] == "arg"
        ck.ob("C14.2", name, good, "%s returns Err(err) exactly on strict && !is_init and otherwise does the same thing for both values of strict" % name, "src/sim/mem.rs:%s" % b.line)
    # error operands at call sites
    n = 0
    cnt = {}
    for b in sim_bodies:
        for bb in [b] + list(b.promoted):
            for bi, t, c, _ in bb.calls():
                if (c or "").endswith("Word::get_if_init") or (c or "").endswith("Word::set_if_init"):
                    n += 1
                    e = _unwrap_var(bb.expr_of_operand(t["args"][-1]))
                    ok = e[0] == "agg" and e[2][0] == "sim::SimErr" and e[2][1].startswith("Strict")
                    k = "%s|%s" % (b.path, c.split("::")[-1])
                    cnt[k] = cnt.get(k, 0) + 1
                    ck.ob("C14.3", "%s#%d" % (k, cnt[k]), ok, "error operand: %s" % (e[2][1] if e[0] == "agg" else repr(e)[:80]), "%s:%s" % (b.file, t["line"]))
    ck.floor("C14.3", "get_if_init/set_if_init call sites", n, 20)

    # ---- initialised machines stay initialised
    reach = F.reach(["sim::Simulator::step"], stop={"sim::_os_obj_file::{closure#0}"})
    for fn in ("sim::mem::Word::clear_init", "sim::mem::Word::new_uninit"):
        ck.ob("C14.4", "unreachable:" + fn.split("::")[-1], fn in F.bodies and fn not in reach, "%s is not reachable from Simulator::step" % fn, "src/sim/mem.rs")
    ws = F.bodies.get("sim::mem::Word::set")
    if ws is not None:
        r = repr([ws.expr_of_rvalue(s["rv"]) for bi, si, s in ws.stmts() if s["k"] == "assign" and any(isinstance(e, dict) and e.get("name") == "init" for e in s["p"]["proj"])])
        ck.ob("C14.4", "Word::set-initialises", "ALL_BITS" in r or "65535" in r, "Word::set stores the full init mask", "src/sim/mem.rs:%s" % ws.line)
    ck.include("C15", ctx, "C14.3", None, "initialised operands give initialised results")
    ck.assume("Word operators map fully initialised operands to fully initialised results (C15)")
    ck.assume("the access observer, devices and frame stack are not consulted by strict-only code (follows from the pure-region rule)")
