"""C14 - Strict mode only adds uninitialized-value errors (R8a strict-taint + R5 + R6)."""
from lib import simx, tables, panics
from lib.panics import _unwrap_var, interval

LEVEL = "other"

# functions that may run in a region executed only under strict mode: no effects, cannot fail
PURE = {
    "sim::Simulator::in_alloca": "reads self.alloca only",
    "sim::mem::Word::is_init": "reads the init mask",
    "<sim::mem::MemArray as std::ops::Index<u16>>::index": "shared borrow of a memory word (peek)",
    "<ast::Reg as std::cmp::PartialEq>::ne": "derived comparison",
    "<ast::Reg as std::cmp::PartialEq>::eq": "derived comparison",
    "std::cmp::PartialEq::ne": "comparison",
    "std::cmp::PartialEq::eq": "comparison",
    "<std::result::Result<T, F> as std::ops::FromResidual<std::result::Result<std::convert::Infallible, E>>>::from_residual": "`?` error return (the error value is checked separately)",
    "<T as std::convert::Into<U>>::into": "error conversion",
    "<T as std::convert::From<T>>::from": "error conversion",
}


def mentions_strict(e, depth=0):
    if not isinstance(e, tuple) or depth > 40:
        return False
    if e and e[0] == "field" and e[2] == "strict":
        return True
    return any(mentions_strict(x, depth + 1) for x in e if isinstance(x, tuple))


ALLOWED_ARGS = {("sim::mem::Word::get_if_init", 1), ("sim::mem::Word::set_if_init", 2)}


def strict_sinks(F, b, tainted, depth):
    """[(kind, name, ok, detail, line)] for every place a strict-dependent local of body b goes to.
    A call argument is acceptable when it is the strict parameter of get_if_init/set_if_init, or when the callee is a
    local function in which that parameter itself only reaches acceptable sinks (e.g. a constructor that stores it
    in MemAccessCtx.strict) - followed two levels deep."""
    out = []
    for bi, si, st in b.stmts():
        if st["k"] != "assign":
            continue
        rv = st["rv"]
        if rv["k"] == "agg":
            names = rv.get("field_names") or [str(i) for i in range(len(rv["fields"]))]
            for nm, f in zip(names, rv["fields"]):
                if f.get("k") in ("copy", "move") and not f["p"]["proj"] and f["p"]["l"] in tainted:
                    ok = (rv.get("adt") or "").endswith("sim::MemAccessCtx") and nm == "strict"
                    out.append(("field", "field:%s.%s" % ((rv.get("adt") or rv.get("agg") or "?").split("::")[-1], nm), ok,
                                "a strict-dependent value is stored in %s.%s (allowed: only MemAccessCtx.strict)" % (rv.get("adt") or rv.get("agg"), nm), st["line"]))
        if st["p"]["proj"] and st["p"]["proj"][0] == "deref" and rv["k"] == "use" and rv["op"].get("k") in ("copy", "move") and not rv["op"]["p"]["proj"] and rv["op"]["p"]["l"] in tainted:
            out.append(("store", "store", False, "a strict-dependent value is stored through a reference", st["line"]))
        if st["p"]["l"] == 0 and not st["p"]["proj"] and rv["k"] == "use" and rv["op"].get("k") in ("copy", "move") and not rv["op"]["p"]["proj"] and rv["op"]["p"]["l"] in tainted and depth > 0:
            out.append(("return", "return", False, "the parameter is returned to the caller", st["line"]))
    for bi, t, c, raw in b.calls():
        for i, a in enumerate(t.get("args", [])):
            if a.get("k") in ("copy", "move") and not a["p"]["proj"] and a["p"]["l"] in tainted:
                ok = (c, i) in ALLOWED_ARGS
                why = ""
                if not ok and depth < 2 and c in F.bodies and not F.bodies[c].light:
                    cb = F.bodies[c]
                    inner = strict_sinks(F, cb, strict_dependent_locals(cb, seeds={i + 1}), depth + 1)
                    ok = bool(inner) and all(x[2] for x in inner)
                    why = " - inside %s that parameter goes to: %s" % (c.split("::")[-1], sorted(set(x[1] for x in inner)) or "nowhere")
                out.append(("arg", "arg:%s#%d" % ((c or "?").split("::")[-1], i), ok,
                            "a strict-dependent value is passed as argument %d of %s (allowed: the strict parameter of Word::get_if_init/set_if_init, or a parameter that only ends up in MemAccessCtx.strict)%s" % (i, c, why), t["line"]))
    return out


def _locals_read_in(b, blocks):
    out = set()

    def op(o):
        if isinstance(o, dict) and o.get("k") in ("copy", "move"):
            out.add(o["p"]["l"])
            for e in o["p"]["proj"]:
                if isinstance(e, dict) and "idx" in e:
                    out.add(e["idx"])
    for x in blocks:
        blk = b.blocks[x]
        for s in blk["stmts"]:
            if s["k"] != "assign":
                continue
            rv = s["rv"]
            for k in ("op", "l", "r", "x"):
                if k in rv:
                    op(rv[k])
            for f in rv.get("fields", []):
                op(f)
            if rv["k"] in ("ref", "rawptr", "discr") and "p" in rv:
                out.add(rv["p"]["l"])
        t = blk["term"]
        if t["k"] == "call":
            for a in t.get("args", []):
                op(a)
        elif t["k"] == "switch":
            op(t["discr"])
    return out


def strict_dependent_locals(b, seeds=None):
    """locals whose value depends on a `strict` flag: read directly from a field named strict, assigned under a branch
    on such a value (implicit flow: `strict && x` is a branch in MIR), or computed from such locals.
    With `seeds`, the given locals (parameters) are the sources instead of the field reads."""
    tainted = set(seeds or ())
    for bi, si, s in b.stmts():
        if seeds is None and s["k"] == "assign" and not s["p"]["proj"] and s["rv"]["k"] == "use" and s["rv"]["op"].get("k") in ("copy", "move"):
            if any(isinstance(e, dict) and e.get("name") == "strict" for e in s["rv"]["op"]["p"]["proj"]):
                tainted.add(s["p"]["l"])
    changed = True
    while changed:
        changed = False
        # implicit flows
        for bi, t in b.terms("switch"):
            d = t["discr"]
            if not (d.get("k") in ("copy", "move") and not d["p"]["proj"] and d["p"]["l"] in tainted):
                continue
            succ = [tb for v, tb in t["values"]] + [t["otherwise"]]
            reach = []
            for s0 in succ:
                seen = set()
                st = [s0]
                while st:
                    x = st.pop()
                    if x in seen:
                        continue
                    seen.add(x)
                    st.extend(b.succs(x))
                reach.append(seen)
            common = set.intersection(*reach) if reach else set()
            used_after = _locals_read_in(b, common)
            for r in reach:
                for x in r - common:
                    for s in b.blocks[x]["stmts"]:
                        if s["k"] == "assign" and not s["p"]["proj"] and s["p"]["l"] not in tainted and s["p"]["l"] != 0 and s["p"]["l"] in used_after:
                            # only values that survive the join carry the flag's influence out of the region
                            tainted.add(s["p"]["l"])
                            changed = True
        # explicit flows
        for bi, si, s in b.stmts():
            if s["k"] != "assign" or s["p"]["proj"] or s["p"]["l"] in tainted:
                continue
            rv = s["rv"]
            ops = []
            if rv["k"] in ("use", "cast"):
                ops = [rv["op"]]
            elif rv["k"] == "un":
                ops = [rv["x"]]
            elif rv["k"] == "bin":
                ops = [rv["l"], rv["r"]]
            if any(o.get("k") in ("copy", "move") and not o["p"]["proj"] and o["p"]["l"] in tainted for o in ops):
                tainted.add(s["p"]["l"])
                changed = True
    return tainted


def strict_true_edge(b, bi, t):
    """the successor taken when the strict-dependent discriminant is true (None if not boolean)"""
    zero = [tb for v, tb in t["values"] if v == 0]
    if len(t["values"]) == 1 and zero and t["otherwise"] != zero[0]:
        d = _unwrap_var(b.expr_of_operand(t["discr"], 20))
        neg = False
        while d[0] == "un" and d[1] == "Not":
            d = _unwrap_var(d[2])
            neg = not neg
        return (zero[0] if neg else t["otherwise"]), (t["otherwise"] if neg else zero[0])
    return None


def run(ck, ctx):
    F = ctx.F
    panics.FACTS = F
    ck.rule("R8a: every branch whose condition depends on flags.strict / ctx.strict has a strict-only region (blocks reachable only through "
            "the strict edge) that calls only functions from a pure set, stores only to locals, and constructs only SimErr::Strict* errors; "
            "R4: get_if_init/set_if_init return Err only on strict && !is_init and behave identically otherwise; R6: the error operand at each "
            "of their call sites is a SimErr::Strict* constant; R5: clear_init/new_uninit are not reachable from step")
    ck.explanation = ("Strict-taint: the strict flag may only select between 'continue exactly as without it' and 'return a Strict* error'. "
                      "Decided per function on the CFG (dominance regions) and on call-site argument expressions.")
    sim_bodies = [b for p, b in F.bodies.items() if not b.light and b.owner is None and (b.file == "src/sim.rs" or b.file.startswith("src/sim/"))]
    n_reads = 0
    n_branches = 0
    for b in sim_bodies:
        # count reads of a `strict` field
        for bi, si, s in b.stmts():
            if s["k"] == "assign" and s["rv"]["k"] == "use" and s["rv"]["op"].get("k") in ("copy", "move"):
                if any(isinstance(e, dict) and e.get("name") == "strict" for e in s["rv"]["op"]["p"]["proj"]):
                    n_reads += 1
        for bi, t in b.terms("switch"):
            d = _unwrap_var(b.expr_of_operand(t["discr"], 20))
            while d[0] == "un" and d[1] == "Not":
                d = _unwrap_var(d[2])
            # control dependence on the flag itself (values computed by get_if_init etc. are data, decided by C14.2/C14.3)
            if not (d[0] == "field" and d[2] == "strict"):
                continue
            # `write_strict` style locals: a multi-def local whose defs mention strict
            edges = strict_true_edge(b, bi, t)
            n_branches += 1
            key = "%s|switch@%d" % (b.path, n_branches)
            where = "%s:%s" % (b.file, t["line"])
            if edges is None:
                ck.fail("C14.1", key, "strict-dependent branch is not a two-way boolean test", where)
                continue
            tt, ff = edges
            # strict-only region: reachable from the true edge without passing through blocks reachable from the false edge
            from_false = set()
            st = [ff]
            while st:
                x = st.pop()
                if x in from_false:
                    continue
                from_false.add(x)
                st.extend(b.succs(x))
            region = set()
            st = [tt]
            while st:
                x = st.pop()
                if x in region or x in from_false:
                    continue
                region.add(x)
                st.extend(b.succs(x))
            bad = []
            for x in sorted(region):
                blk = b.blocks[x]
                for s in blk["stmts"]:
                    if s["k"] == "assign" and s["p"]["proj"] and s["p"]["proj"][0] == "deref":
                        bad.append("store through a reference at line %s" % s["line"])
                    if s["k"] == "assign" and s["rv"]["k"] == "agg" and s["rv"].get("adt") == "sim::SimErr" and not s["rv"]["variant"].startswith("Strict"):
                        bad.append("constructs SimErr::%s" % s["rv"]["variant"])
                tm = blk["term"]
                if tm["k"] == "call":
                    f = tm["func"]
                    c = (f.get("resolved") or {}).get("path") or f.get("fn") or "?"
                    if c not in PURE:
                        bad.append("calls %s at line %s" % (c, tm["line"]))
            ck.ob("C14.1", key, not bad, "strict-only region of %d block(s): %s" % (len(region), "; ".join(bad) or "pure, exits by Strict* error or falls through"), where)
    ck.floor("C14.1", "reads of a strict flag", n_reads, 20)
    ck.floor("C14.1", "strict-dependent branches", n_branches, 7)

    # ---- get_if_init / set_if_init
    for name in ("get_if_init", "set_if_init"):
        b = F.bodies.get("sim::mem::Word::" + name)
        if not ck.anchor("C14.2", name, b):
            continue
        errs = [(bi, s) for bi, si, s in b.stmts() if s["k"] == "assign" and s["rv"]["k"] == "agg" and s["rv"].get("variant") == "Err"]
        oks = [(bi, s) for bi, si, s in b.stmts() if s["k"] == "assign" and s["rv"]["k"] == "agg" and s["rv"].get("variant") == "Ok"]
        good = len(errs) == 1 and len(oks) == 1
        if good:
            conds = panics.dominating_conditions(b, errs[0][0])
            st_true = any(_unwrap_var(ex)[0] == "arg" and _unwrap_var(ex)[2] == "strict" and lo == 1 for ex, lo, hi in conds)
            uninit = any("Word::is_init" in repr(ex) and hi == 0 for ex, lo, hi in conds)
            # `!strict || x.is_init()` is lowered to a boolean phi: the Err edge is phi == false; the phi is the constant
            # true on the !strict edge, so phi == false means: came through the other definition, which must be the
            # is_init() result computed on the strict == true edge
            for ex, lo, hi in conds:
                u = _unwrap_var(ex)
                if u[0] == "local" and hi == 0:
                    defs = b.defs().get(u[1], [])
                    can_be_false = []
                    for (bj, sj, rv) in defs:
                        if sj != "term" and rv["k"] == "use" and interval(b.expr_of_operand(rv["op"])) == (1, 1):
                            continue
                        can_be_false.append((bj, sj, rv))
                    if len(can_be_false) == 1 and can_be_false[0][1] == "term":
                        bj, sj, call = can_be_false[0]
                        cal = (call["func"].get("resolved") or {}).get("path") or call["func"].get("fn") or ""
                        c2 = panics.dominating_conditions(b, bj)
                        if cal.endswith("Word::is_init"):
                            recv = repr(b.expr_of_operand(call["args"][0]))
                            want_recv = "'self'" if name == "get_if_init" else "'data'"
                            uninit = want_recv in recv
                            st_true = any(_unwrap_var(e2)[0] == "arg" and _unwrap_var(e2)[2] == "strict" and l2 == 1 for e2, l2, h2 in c2)
            e_arg = _unwrap_var(b.expr_of_operand(errs[0][1]["rv"]["fields"][0]))
            good = st_true and uninit and e_arg[0] == "arg" and e_arg[2] == "err"
        if good and name == "get_if_init":
            v = _unwrap_var(b.expr_of_operand(oks[0][1]["rv"]["fields"][0]))
            good = v[0] == "field" and v[2] == "data"
        if good and name == "set_if_init":
            stores = [s for bi, si, s in b.stmts() if s["k"] == "assign" and s["p"]["proj"] == ["deref"] and b.local_name(s["p"]["l"]) == "self"]
            good = len(stores) == 1 and _unwrap_var(b.expr_of_rvalue(stores[0]["rv"]))[0] == "arg"
        ck.ob("C14.2", name, good, "%s returns Err(err) exactly on strict && !is_init and otherwise does the same thing for both values of strict" % name, "src/sim/mem.rs:%s" % b.line)
    # error operands at call sites
    n = 0
    cnt = {}
    for b in sim_bodies:
        for bb in [b] + list(b.promoted):
            for bi, t, c, _ in bb.calls():
                if (c or "").endswith("Word::get_if_init") or (c or "").endswith("Word::set_if_init"):
                    n += 1
                    e = _unwrap_var(bb.expr_of_operand(t["args"][-1]))
                    ok = e[0] == "agg" and e[2][0] == "sim::SimErr" and e[2][1].startswith("Strict")
                    k = "%s|%s" % (b.path, c.split("::")[-1])
                    cnt[k] = cnt.get(k, 0) + 1
                    ck.ob("C14.3", "%s#%d" % (k, cnt[k]), ok, "error operand: %s" % (e[2][1] if e[0] == "agg" else repr(e)[:80]), "%s:%s" % (b.file, t["line"]))
    ck.floor("C14.3", "get_if_init/set_if_init call sites", n, 20)

    # ---- initialised machines stay initialised
    reach = F.reach(["sim::Simulator::step"], stop={"sim::_os_obj_file::{closure#0}"})
    for fn in ("sim::mem::Word::clear_init", "sim::mem::Word::new_uninit"):
        ck.ob("C14.4", "unreachable:" + fn.split("::")[-1], fn in F.bodies and fn not in reach, "%s is not reachable from Simulator::step" % fn, "src/sim/mem.rs")
    ws = F.bodies.get("sim::mem::Word::set")
    if ws is not None:
        r = repr([ws.expr_of_rvalue(s["rv"]) for bi, si, s in ws.stmts() if s["k"] == "assign" and any(isinstance(e, dict) and e.get("name") == "init" for e in s["p"]["proj"])])
        ck.ob("C14.4", "Word::set-initialises", "ALL_BITS" in r or "65535" in r, "Word::set stores the full init mask", "src/sim/mem.rs:%s" % ws.line)
    # ---- C14.4 where strict-dependent *values* may go (explicit and implicit flows)
    n_sinks = 0
    for b in sim_bodies:
        tainted = strict_dependent_locals(b)
        if not tainted:
            continue
        for kind, name, ok, detail, line in strict_sinks(F, b, tainted, 0):
            n_sinks += 1
            ck.ob("C14.4", "%s|%s" % (b.path, name), ok, detail, "%s:%s" % (b.file, line), nontrivial=not ok)
    ck.floor("C14.4", "sinks of strict-dependent values", n_sinks, 8)
    ck.include("C09", ctx, "C14.5", {"C09.3"}, "with and without strict the access context must be the machine's own (privilege never derived from the strict flag)")
    ck.include("C15", ctx, "C14.3", None, "initialised operands give initialised results")
    ck.include("C16", ctx, "C14.6", {"C16.1"}, "a step that strict mode rejects must fail with a strict error, not panic: the strict-only code (in_alloca, the init checks) is panic-free")
    ck.assume("Word operators map fully initialised operands to fully initialised results (C15)")
    ck.assume("the access observer, devices and frame stack are not consulted by strict-only code (follows from the pure-region rule)")
