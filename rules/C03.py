"""C03 - Parser returns exactly the statements written, layout-insensitively (grammar tables, case folding, layout tokens, statement structure)."""
import json, os, re
from lib import panics, shape, nf, fmtx, parsex, lexattrs, relang

LEVEL = "other"
L = "λ"
HERE = os.path.dirname(os.path.dirname(os.path.abspath(__file__)))


def grammar():
    return json.load(open(os.path.join(HERE, "spec", "grammar.json")))


def token_langs(repo):
    by = {}
    toks = {}
    for e in lexattrs.load(repo):
        if e["kind"] == "skip":
            by.setdefault("<skip>", []).append(e["atoms"])
        elif e["kind"] == "token":
            toks[e["variant"]] = e["pattern"]
            by.setdefault(e["variant"], []).append(e["atoms"])
        else:
            by.setdefault(e["variant"], []).append(e["atoms"])
    return by, toks


def run(ck, ctx):
    F = ctx.F
    panics.FACTS = F
    G = grammar()
    ck.rule("R1/R2 against a hand-written grammar (spec/grammar.json): the keyword table of Ident::from_str has one row per mnemonic, comparing the upper-cased text "
            "with the variant's own name; each of the 32 arms of `impl Parse for AsmInstr` builds the grammar's variant (BR arms with the grammar's nzp mask), "
            "parses exactly the grammar's operand kinds (the generic argument of each Parser::parse::<T> call) in order with a Comma parse between them and "
            "stores the k-th operand in field k; NOP's operand is optional; the six directive arms likewise (string patterns compared with the upper-cased name). "
            "R10 layout facts on the token regexes: blanks and tabs are skipped, a line ends with \\r?\\n, a comment is ;[^\\n]*, both cases of the x/r prefixes. "
            "R4/R6 statement structure: comments are filtered out before parsing, End accepts end-of-input or a newline, labels are collected with an optional "
            "colon and any number of line ends before the nucleus, the nucleus is parsed inside Parser::spanned (its span is the statement's), every statement "
            "is followed by End; `.fill` takes a label or a literal of either sign whose 16-bit pattern is kept")
    ck.explanation = ("'Exactly the statements written' is decided as agreement of the parser's tables with an independent grammar; layout-insensitivity as facts about the token "
                      "languages and about where the parser consults line ends, colons and case. How logos resolves overlapping token kinds is trusted.")
    tok = parsex.variants(F, "parse::lex::Token")
    ti = {n: i for i, n in enumerate(tok)}
    idn = parsex.variants(F, parsex.IDENT)
    # ---------------------------------------------------------------- C03.1 keywords and instruction arms
    kw_rows, default, ident_names = parsex.keyword_rows(F)
    ck.floor("C03.1", "keyword rows", len(kw_rows), 32)
    kws = {k: v for k, v, s in kw_rows}
    ck.ob("C03.1", "keyword-set", set(kws) == set(G["mnemonics"]) and all(k == v for k, v in kws.items()) and default == ["Label"],
          "keywords of Ident::from_str: %d rows, each builds the variant of the same name; everything else is a label. Missing %s, extra %s" % (len(kws), sorted(set(G["mnemonics"]) - set(kws)), sorted(set(kws) - set(G["mnemonics"]))), "src/parse/lex.rs")
    ck.ob("C03.1", "keyword-case", all(s == "deref(to_uppercase(arg1))" for k, v, s in kw_rows), "every keyword comparison is against str::to_uppercase of the token text", "src/parse/lex.rs")
    irows, discr, arm_names = parsex.instr_parse_rows(F)
    ck.floor("C03.1", "instruction arms", len(irows), 32)
    by_ident = {}
    for r in irows:
        for a in r["arm"]:
            by_ident.setdefault(a, []).append(r)
    flds = parsex.fields_of(F, parsex.ASM)
    OT = G["operand_types"]
    for m, spec in sorted(G["mnemonics"].items()):
        rows = by_ident.get(m, [])
        where = "src/parse.rs:%s" % (rows[0]["line"] if rows else "?")
        if len(rows) != 1:
            ck.ob("C03.1", "arm:" + m, False, "obligation not established: %d parser arms for keyword %s" % (len(rows), m), where)
            continue
        r = rows[0]
        want_ops = [OT[o.rstrip("?")] for o in spec["operands"]]
        optional = [o.endswith("?") for o in spec["operands"]]
        ops = [(ty, dom) for k, ty, dom in r["seq"] if k == "parse" and ty != "parse::simple::Comma"]
        kinds = [("comma" if ty == "parse::simple::Comma" else "op") for k, ty, dom in r["seq"] if k == "parse" or (k == "match" and ty == "parse::simple::Comma")]
        alt = all(kinds[i] == ("op" if i % 2 == 0 else "comma") for i in range(len(kinds))) and (not kinds or kinds[-1] == "op")
        fields = r["fields"]
        off = 0
        ok = r["variant"] == spec["variant"] and [ty for ty, dom in ops] == want_ops and alt
        if "mask" in spec:
            ok = ok and fields[:1] == [("const", spec["mask"])]
            off = 1
        if any(optional):
            # the operand is parsed only when the next token can start it, otherwise offset 0
            peek = [k for k, ty, dom in r["seq"] if k == "peek"]
            ok = ok and len(peek) == 1 and [dom for ty, dom in ops] == [False] and len(fields) == 1 and "PCOffset::Offset(Offset::new_trunc(0))" in str(fields[0]) and "try(Parser::parse(arg1))" in str(fields[0])
        else:
            ordinal = {}
            n = 0
            for i, (k, ty, dom) in enumerate(r["seq"]):
                if k == "parse" and ty != "parse::simple::Comma":
                    ordinal[i] = n
                    n += 1
            pos = [ordinal.get(f[2]) if f[0] == "parse" else f for f in fields[off:]]
            ok = ok and pos == list(range(len(want_ops))) and all(dom for ty, dom in ops) and flds[spec["variant"]][off:] == want_ops
        ck.ob("C03.1", "arm:" + m, ok, "%s -> %s(%s) parsing %s (grammar: %s%s)" % (m, r["variant"], fields, [ty for ty, dom in ops], want_ops, ", mask %s" % spec["mask"] if "mask" in spec else ""), where)
    # NOP's optional operand: it is parsed exactly when the next token can start a PC offset (a literal of either sign or a label)
    ib = F.bodies.get("<%s as parse::Parse>::parse" % parsex.ASM)
    look = None
    if ib is not None:
        nop = by_ident.get("NOP", [])
        for bi, t, c, _ in ib.calls():
            if (c or "").endswith("Parser::parse") and nop and ib.can_reach(bi, nop[0]["block"]) and not ib.dominates(bi, nop[0]["block"]):
                pcs = nf.path_conditions(ib, bi, lambda x: x.startswith("discr(Parser::peek("), track_consts=True)
                look = sorted(sorted(pc) for pc in (pcs or []))
    pk = "discr(Parser::peek(arg1)"
    want_look = sorted([sorted([(pk + " as Some.0.0 as Ident.0)", str(idn.index("Label"))), (pk + " as Some.0.0)", str(ti["Ident"])), (pk + ")", "1")]),
                        sorted([(pk + " as Some.0.0)", str(ti["Unsigned"])), (pk + ")", "1")]), sorted([(pk + " as Some.0.0)", str(ti["Signed"])), (pk + ")", "1")])])
    ck.ob("C03.1", "arm:NOP:lookahead", look == want_look, "NOP parses an operand exactly when the next token is Unsigned, Signed or a label: %s" % look, "src/parse.rs")
    ck.ob("C03.1", "arm-coverage", sorted(a for a in arm_names if a != "Label") == sorted(G["mnemonics"]) and not by_ident.get("Label"),
          "the opcode switch has an arm for exactly the grammar's mnemonics (%d) and the Label arm builds no instruction" % (len(arm_names) - 1), "src/parse.rs")
    # the opcode identifier: any Ident token that is not a label
    ab = F.bodies.get("<%s as parse::Parse>::parse::{closure#0}" % parsex.ASM)
    lab = idn.index("Label")
    combos = None
    if ab is not None:
        okb = [bi for bi, si, s in ab.stmts() if s["k"] == "assign" and s["rv"]["k"] == "agg" and s["rv"].get("variant") == "Ok"]
        pcs = nf.path_conditions(ab, okb[0], lambda x: x.startswith("discr("), track_consts=True) if len(okb) == 1 else None
        combos = sorted(sorted(pc) for pc in (pcs or []))
        val = [nf.pp_x(nf.XB(ab).expr_of_operand(s["rv"]["fields"][0], 8, (bi, si))) for bi, si, s in ab.stmts() if s["k"] == "assign" and s["rv"]["k"] == "agg" and s["rv"].get("variant") == "Ok"]
        tests = [t for bi, t in ab.terms("switch") if nf.pp_x(nf.XB(ab).expr_of_operand(t["discr"], 8, (bi, "term"))) == "discr(arg2 as Some.0 as Ident.0)"]
        excl = sorted(v for t in tests for v, tb in t["values"])
    want = [[("discr(arg2 as Some.0 as Ident.0)", "else"), ("discr(arg2 as Some.0)", str(ti["Ident"])), ("discr(arg2)", "1")]]
    ck.ob("C03.1", "opcode-token", ab is not None and combos == want and excl == [lab] and val == ["clone(arg2 as Some.0 as Ident.0)"],
          "the opcode is the Ident of an Ident token other than Ident::Label: accepted under %s (excluded variant index %s = Label), value %s" % (combos, excl if ab is not None else None, val if ab is not None else None), "src/parse.rs")
    # ---------------------------------------------------------------- C03.2 directives
    drows, dscr, dkws = parsex.directive_parse_rows(F)
    by_dir = {}
    for r in drows:
        for a in r["arm"]:
            by_dir.setdefault(a, []).append(r)
    dfl = parsex.fields_of(F, parsex.DIRECTIVE)
    ck.ob("C03.2", "directive-set", sorted(dkws) == sorted(G["directives"]) and len(dscr) == 1 and dscr[0].startswith("deref(to_uppercase("), "directive patterns %s compared with %s" % (dkws, dscr), "src/parse.rs")
    for d, spec in sorted(G["directives"].items()):
        rows = by_dir.get(d, [])
        where = "src/parse.rs:%s" % (rows[0]["line"] if rows else "?")
        if len(rows) != 1:
            ck.ob("C03.2", "directive:" + d, False, "obligation not established: %d arms for .%s" % (len(rows), d), where)
            continue
        r = rows[0]
        want = [OT[o] for o in spec["operands"]]
        ok = r["variant"] == spec["variant"] and dfl[spec["variant"]] == want
        detail = ""
        if d == "FILL":
            f0 = str(r["fields"][0]) if r["fields"] else ""
            seq = [(k, ty) for k, ty, dom in r["seq"]]
            ok = ok and seq == [("match", "parse::simple::Either<ast::Label, parse::simple::IntLiteral>")] and "PCOffset::Label(try(Parser::match_(arg1)) as Some.0 as Left.0)" in f0 \
                and "PCOffset::Offset(Offset::new_trunc(try(Parser::match_(arg1)) as Some.0 as Right.0.0))" in f0
            detail = "label -> PCOffset::Label, integer literal of either sign -> Offset::new_trunc(bits)"
        elif d == "STRINGZ":
            ok = ok and [(k, ty) for k, ty, dom in r["seq"]] == [("parse", "parse::simple::StrLiteral")]
            detail = "string literal token"
        else:
            ops = [ty for k, ty, dom in r["seq"] if k == "parse"]
            ok = ok and ops == want and [f[0] for f in r["fields"]] == ["parse"] * len(want)
            detail = "operands %s" % ops
        ck.ob("C03.2", "directive:" + d, ok, ".%s -> %s: %s" % (d.lower(), r["variant"], detail), where)
    il = "<parse::simple::IntLiteral as parse::simple::DirectTokenParse>::match_"
    nf.expect_deep(ck, F, "C03.2", "IntLiteral", il,
                   ["Result::Err(ParseErr::new(str'expected immediate value', clone(arg2))) ; [discr(arg1 as Some.0) in [%d,%d] & discr(arg1) in [1,1]] => Result::Ok(IntLiteral(arg1 as Some.0 as Unsigned.0)) ; "
                    "[discr(arg1 as Some.0) in [%d,%d] & discr(arg1) in [1,1]] => Result::Ok(IntLiteral((arg1 as Some.0 as Signed.0 as u16)))" % (ti["Unsigned"], ti["Unsigned"], ti["Signed"], ti["Signed"])],
                   "a .fill literal keeps the 16-bit pattern of the written value (unsigned as is, signed reinterpreted as two's complement)", file="src/parse.rs")
    # ---------------------------------------------------------------- C03.3 layout tokens
    T, toks = token_langs(ctx.repo)
    A = relang.atoms
    for name, a, b in [("skip = blanks and tabs", [A(r"[ \t]+")], T.get("<skip>")), ("line end = \\r?\\n", [A(r"\r?\n")], T.get("NewLine")), ("comment = ; to end of line", [A(r";[^\n]*")], T.get("Comment"))]:
        ok, w = relang.equal(a, b) if b else (False, "pattern missing")
        ck.ob("C03.3", "lang:" + name, ok, "%s%s" % (name, "" if ok else " - differs on %r" % w), "src/parse/lex.rs")
    for name, a, b in [("hex prefix in both cases", [A(r"[xX][0-9a-fA-F]+")], T.get("Unsigned")), ("negative hex in both cases", [A(r"[xX]-[0-9a-fA-F]+")], T.get("Signed")),
                       ("register prefix in both cases", [A(r"[rR][0-9]+")], T.get("Reg")), ("identifiers", [A(r"[A-Za-z_][A-Za-z0-9_]*")], (T.get("Ident") or []) + (T.get("Reg") or []) + (T.get("Unsigned") or [])),
                       ("directives in any case", [A(r"\.[A-Za-z]+")], T.get("Directive"))]:
        ok, w = relang.included(a, b) if b else (False, "pattern missing")
        ck.ob("C03.3", "lang:" + name, ok, "%s%s" % (name, "" if ok else " - not a token: %r" % w), "src/parse/lex.rs")
    ck.ob("C03.3", "punctuation", toks.get("Colon") == ":" and toks.get("Comma") == "," and toks.get("String") == "\"", "fixed tokens: %s" % toks, "src/parse/lex.rs")
    # comments never reach the parser
    pn = F.bodies.get("parse::Parser::new")
    if ck.anchor("C03.3", "Parser::new", pn):
        got = nf.deep(F, "parse::Parser::new")
        flt = "%s[Not(phi{else => 0 | discr(arg2 as Ok.0.0) in [%d,%d] & discr(arg2) in [0,0] => 1})]()" % (L, ti["Comment"], ti["Comment"])
        ok = ("Iterator::filter(Iterator::map(Lexer::spanned(Logos::lexer(arg1))," in got) and flt in got and got.count("Iterator::filter(") == got.count(flt)
        ok = ok or nf.is_verified_equivalent(F, "parse::Parser::new") is not None
        ck.ob("C03.3", "comments-filtered", ok, "the token vector is the lexer's output minus exactly the Comment tokens (errors kept): filter %s" % flt, "src/parse.rs:%s" % pn.line)
    nf.expect_deep(ck, F, "C03.3", "is_whitespace", "parse::lex::Token::is_whitespace", ["[discr(arg1) in [0,%d]] => 0 ; [discr(arg1) in [%d,%d]] => 1" % (ti["NewLine"] - 1, ti["NewLine"], ti["NewLine"])],
                   "only NewLine tokens count as blank", file="src/parse/lex.rs")
    nf.expect_deep(ck, F, "C03.3", "is_empty", "parse::Parser::is_empty", ["all(iter(index(arg1.tokens, RangeFrom(arg1.index))), %s[Token::is_whitespace(arg2.0)]())" % L], "the input is exhausted when only line ends remain", file="src/parse.rs")
    # End accepts end of input or NewLine
    eb = F.bodies.get("<parse::simple::End as parse::simple::DirectTokenParse>::match_")
    if ck.anchor("C03.3", "End::match_", eb):
        okb = [bi for bi, si, s in eb.stmts() if s["k"] == "assign" and s["rv"]["k"] == "agg" and s["rv"].get("variant") == "Ok"]
        pcs = nf.path_conditions(eb, okb[0], lambda x: x.startswith("discr(")) if len(okb) == 1 else None
        combos = sorted(sorted((d, lab) for d, lab in pc) for pc in (pcs or []))
        want = sorted([[("discr(arg1)", "0")], sorted([("discr(arg1)", "1"), ("discr(arg1 as Some.0)", str(ti["NewLine"]))])])
        ck.ob("C03.3", "End", combos == want, "End matches end of input or a NewLine token and nothing else: %s" % combos, "src/parse.rs:%s" % eb.line)
    # ---------------------------------------------------------------- C03.4 statement structure
    sb = F.bodies.get("<ast::asm::Stmt as parse::Parse>::parse")
    if ck.anchor("C03.4", "Parse for Stmt", sb):
        where = "src/parse.rs:%s" % sb.line
        calls = [(bi, shape.short_callee(c), parsex.norm_ty(t["func"].get("fn_args", ""))) for bi, t, c, _ in sorted(sb.calls(), key=lambda x: x[1]["line"])
                 if shape.short_callee(c) in ("Parser::match_", "Parser::parse", "Parser::spanned", "Parser::is_empty")]
        seq = [(n, ty.split(", {closure")[0] if n == "Parser::spanned" else ty) for bi, n, ty in calls]
        want = [("Parser::is_empty", ""), ("Parser::match_", "parse::simple::Either<ast::Label, parse::simple::End>"), ("Parser::match_", "parse::simple::Colon"),
                ("Parser::spanned", None), ("Parser::parse", "parse::simple::End"), ("Parser::is_empty", ""), ("Parser::match_", "parse::simple::End")]
        ok = len(seq) == len(want) and all(a[0] == b[0] and (b[1] is None or a[1] == b[1]) for a, b in zip(seq, want))
        ck.ob("C03.4", "shape", ok, "a statement is: (label [colon] | line end)* nucleus End (line end)*: %s" % [(n, ty[:60]) for n, ty in seq], where)
        push = [nf.arg_x(sb, t, 1, bi, 10) for bi, t, c, _ in sb.calls() if (c or "").endswith("Vec::<T, A>::push")]
        ck.ob("C03.4", "labels-collected", push == ["try(Parser::match_(arg1)) as Some.0 as Left.0"], "every matched label is pushed in order: %s" % push, where)
        agg = [s for bi, si, s in sb.stmts() if s["k"] == "assign" and s["rv"]["k"] == "agg" and (s["rv"].get("adt") or "").endswith("asm::Stmt")]
        ok = False
        d = {}
        if len(agg) == 1:
            bi0, si0 = [(bi, si) for bi, si, s in sb.stmts() if s is agg[0]][0]
            d = {n: nf.pp_x(nf.XB(sb).expr_of_operand(f, 14, (bi0, si0))) for n, f in zip(agg[0]["rv"]["field_names"], agg[0]["rv"]["fields"])}
            sp = re.sub(r"\{closure#\d+\}\(.*?\)\)\)", "{nucleus}))", d.get("span", ""))
            ok = d.get("labels") == "Vec::new()" and d.get("nucleus", "").startswith("try(Parser::spanned(arg1, ") and d["nucleus"].endswith(").0") and d.get("span", "").startswith("try(Parser::spanned(arg1, ") and d["span"].endswith(").1")
        ck.ob("C03.4", "statement-value", ok, "Stmt { labels: the collected vector, nucleus and span: the two results of Parser::spanned }: %s" % {k: v[:60] for k, v in d.items()}, where)
        cl = [c for c in F.children.get(sb.path, [])]
        kinds = {}
        if len(cl) == 1:
            cb = F.bodies[cl[0]]
            for bi, si, s in cb.stmts():
                if s["k"] == "assign" and s["rv"]["k"] == "agg" and (s["rv"].get("adt") or "").endswith("asm::StmtKind"):
                    pcs = nf.path_conditions(cb, bi, lambda x: x.startswith("discr(Parser::peek("), track_consts=True)
                    kinds[s["rv"]["variant"]] = (sorted(sorted(pc) for pc in (pcs or [])), nf.pp_x(nf.XB(cb).expr_of_operand(s["rv"]["fields"][0], 8, (bi, si))))
        pk = "discr(Parser::peek(arg2)"
        want_k = {"Directive": ([[(pk + " as Some.0.0)", str(ti["Directive"])), (pk + ")", "1")]], "try(Parser::parse(arg2))"),
                  "Instr": ([[(pk + " as Some.0.0 as Ident.0)", "else"), (pk + " as Some.0.0)", str(ti["Ident"])), (pk + ")", "1")]], "try(Parser::parse(arg2))")}
        ck.ob("C03.4", "nucleus", kinds == want_k, "the nucleus is a directive when a Directive token is next and an instruction when a non-label Ident is next: %s" % kinds, where)
    sp = F.bodies.get("parse::Parser::spanned")
    if ck.anchor("C03.4", "Parser::spanned", sp):
        push = [nf.arg_x(sp, t, 1, bi, 10) for bi, t, c, _ in sp.calls() if (c or "").endswith("Vec::<T, A>::push")]
        got = nf.deep(F, sp.path)
        ok = push == ["Range(Parser::cursor(arg1).start, Parser::cursor(arg1).start)"] and got.endswith("=> Result::Ok(tuple(try(FnOnce::call_once(arg2, tuple(arg1))), Option::unwrap(Vec::pop(arg1.spans))))")
        ck.ob("C03.4", "span-start", ok, "spanned opens a span at the start of the next token and returns the span it pops afterwards: push %s" % push, "src/parse.rs:%s" % sp.line)
    ad = F.bodies.get("parse::Parser::advance")
    if ck.anchor("C03.4", "Parser::advance", ad):
        st = [(nf.pp_x(nf.XB(ad).expr_of_rvalue(s["rv"], 12, (bi, si))), [e.get("name") for e in s["p"]["proj"] if isinstance(e, dict) and "f" in e]) for bi, si, s in ad.stmts()
              if s["k"] == "assign" and s["p"]["proj"] and any(isinstance(e, dict) and e.get("name") in ("end", "index") for e in s["p"]["proj"])]
        ends = [v for v, names in st if "end" in names]
        idx = [v for v, names in st if "index" in names]
        calls = [nf.arg_x(ad, t, 0, bi, 8) + "|" + nf.arg_x(ad, t, 1, bi, 8) for bi, t, c, _ in ad.calls() if shape.short_callee(c) == "Ord::min"]
        ok = ends == ["Parser::cursor(arg1).end"] and len(idx) >= 1 and any("Add(1, arg1.index)" in v for v in idx) and len(calls) == 1 and "Vec::len(arg1.tokens)" in calls[0]
        ck.ob("C03.4", "span-end", ok, "advance extends the open span to the end of the token it consumes and moves on by one token (capped at the length): end <- %s, index <- %s, %s" % (ends, idx, calls), "src/parse.rs:%s" % ad.line)
    for path, want, what in [
        ("parse::Parser::peek", "first(index(arg1.tokens, RangeFrom(arg1.index)))", "peek = the next unread token"),
        ("parse::Parser::parse", "Parse::parse(arg1)", "parse::<P> delegates to P"),
        ("parse::parse_ast", "[fail(Parser::new(arg1))] => propagate(Parser::new(arg1)) ; [ok(Parser::new(arg1))] => Iterator::collect(from_fn(%s[[Parser::is_empty(@entry{try(Parser::new(arg1))}) in [0,0]] => Option::Some(Parser::parse(@entry{try(Parser::new(arg1))})) ; [Parser::is_empty(@entry{try(Parser::new(arg1))}) in [1,1]] => Option::None()](try(Parser::new(arg1)))))" % L,
         "parse_ast parses statements until only line ends remain and returns all of them (or the first error)"),
        ("parse::Parser::advance_if", "phi{discr(Parser::peek(arg1)) in [0,0] => FnOnce::call_once(arg2, tuple(Option::None(), Parser::cursor(arg1))) | discr(Parser::peek(arg1)) in [1,1] => FnOnce::call_once(arg2, tuple(Option::Some(Parser::peek(arg1) as Some.0.0), clone(Parser::peek(arg1) as Some.0.1)))}",
         "advance_if shows the predicate the next token and its span"),
        ("parse::simple::<impl parse::Parse for S>::parse", "[fail(Parser::advance_if(arg1, fn:TokenParse::match_))] => propagate(Parser::advance_if(arg1, fn:TokenParse::match_)) ; [ok(Parser::advance_if(arg1, fn:TokenParse::match_))] => TokenParse::convert(try(Parser::advance_if(arg1, fn:TokenParse::match_)), Parser::cursor(arg1))",
         "a one-token component is matched then converted"),
    ]:
        nf.expect_deep(ck, F, "C03.4", path.split("::")[-1] if "impl" not in path else "token-parse", path, [want], what, file="src/parse.rs")
    ai = F.bodies.get("parse::Parser::advance_if")
    if ai is not None:
        adv = [bi for bi, t, c, _ in ai.calls() if (c or "").endswith("Parser::advance")]
        g = shape.edge_conds(ai, adv[0]) if len(adv) == 1 else []
        ck.ob("C03.4", "advance-on-ok", len(adv) == 1 and [via for d, via in g if "is_ok" in d] == [("1",)], "the parser advances exactly when the predicate accepted the token: %s" % g, "src/parse.rs:%s" % ai.line)
    for name, idx in (("Comma", ti["Comma"]), ("Colon", ti["Colon"])):
        nf.expect_deep(ck, F, "C03.4", name, "<parse::simple::%s as parse::simple::DirectTokenParse>::match_" % name,
                       ["Result::Err(ParseErr::new(str'expected %s', arg2)) ; [discr(arg1 as Some.0) in [%d,%d] & discr(arg1) in [1,1]] => Result::Ok(%s())" % (name.lower(), idx, idx, name)], "%s matches exactly its token" % name, file="src/parse.rs")
    lab = idn.index("Label")
    nf.expect_deep(ck, F, "C03.4", "Label", "<ast::Label as parse::simple::DirectTokenParse>::match_",
                   ["Result::Err(ParseErr::new(str'expected label', arg2)) ; [discr(arg1 as Some.0 as Ident.0) in [%d,%d] & discr(arg1 as Some.0) in [%d,%d] & discr(arg1) in [1,1]] => Result::Ok(Label::new(to_string(arg1 as Some.0 as Ident.0 as Label.0), arg2))" % (lab, lab, ti["Ident"], ti["Ident"])],
                   "a label is an Ident::Label token, kept with its spelling and span", file="src/parse.rs")
    nf.expect_deep(ck, F, "C03.4", "StrLiteral", "<parse::simple::StrLiteral as parse::simple::DirectTokenParse>::match_",
                   ["Result::Err(ParseErr::new(str'expected string literal', arg2)) ; [discr(arg1 as Some.0) in [%d,%d] & discr(arg1) in [1,1]] => Result::Ok(StrLiteral(to_string(arg1 as Some.0 as String.0)))" % (ti["String"], ti["String"])],
                   "a string literal operand is the String token's text", file="src/parse.rs")
    ck.include("C05", ctx, "C03.5", {"C05.1", "C05.2", "C05.3", "C05.5"}, "'any numeric notation': numeric and register tokens denote their written value")
    ck.assume("logos resolves overlapping token kinds by longest match and priority; token spans are logos'")
    ck.assume("numeric tokens denote their written value and operands fit their fields: C05 / C35")
    ck.assume("the metamorphic consequence on assembled images follows from equal statements (C01)")
