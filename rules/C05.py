"""C05 - Numeric and register tokens denote exactly their written value (token languages, validators, field widths, conversions)."""
import json, os, re
from lib import panics, shape, nf, fmtx, parsex, lexattrs, relang
import C03

LEVEL = "other"
L = "λ"


def run(ck, ctx):
    F = ctx.F
    panics.FACTS = F
    G = C03.grammar()
    ck.rule("R10 language facts on the token regexes (exact inclusion by subset construction): #?[0-9]+ and [xX][0-9a-fA-F]+ are Unsigned tokens, their '-' forms Signed "
            "tokens, [rR][0-9]+ a Reg token, and each numeric/register/identifier language is closed under appending word characters (so 12q or R10 is one rejected "
            "token, never a literal followed by something else). R6 validators in normal form: decimal forms strip one optional '#' and use str::parse::<u16|i16>, "
            "hex forms strip the one-character x/X prefix and use u16/i16::from_str_radix(_, 16), each regex is wired to the validator of its notation and each "
            "validator returns the integer type of its token variant; lex_reg accepts exactly numbers < 8 and Reg::try_from maps 0..7 to R0..R7. "
            "R1 field widths: the operand types of all 25 instruction and 6 directive variants equal the grammar's (signed imm5/offset6/PC offsets, unsigned "
            "trap vector, .orig/.blkw; .fill sign-agnostic). R4 conversions: a literal of the other signedness reaches a field only through a checked "
            "try_from with DoesNotFitI16/U16 on failure, then Offset::new (C35) for the N-bit check; .blkw rejects 0")
    ck.explanation = ("'Accepted exactly when in range, and then denotes that value' is reduced to: which strings form a token (regex languages), which std parser validates "
                      "it (std trusted), which integer type it is parsed into, and which checked conversion leads into the N-bit field. Each link is read off the source.")
    tok = parsex.variants(F, "parse::lex::Token")
    ti = {n: i for i, n in enumerate(tok)}
    # ---------------------------------------------------------------- C05.1 token languages
    T, toks = C03.token_langs(ctx.repo)
    A = relang.atoms
    W = A(r"[A-Za-z0-9_]+")
    facts = [
        ("decimal with optional # is Unsigned", [A("#?[0-9]+")], T.get("Unsigned")),
        ("hex in either case is Unsigned", [A("[xX][0-9a-fA-F]+")], T.get("Unsigned")),
        ("negative decimal (with optional #) is Signed", [A("#?-[0-9]+")], T.get("Signed")),
        ("negative hex in either case is Signed", [A("[xX]-[0-9a-fA-F]+")], T.get("Signed")),
        ("R/r followed by digits is Reg", [A("[rR][0-9]+")], T.get("Reg")),
    ]
    for name, a, b in facts:
        ok, w = relang.included(a, b) if b else (False, "pattern missing")
        ck.ob("C05.1", "lang:" + name, ok, "%s%s" % (name, "" if ok else " - counterexample %r" % w), "src/parse/lex.rs")
    closures = [
        ("Unsigned is closed under appending word characters", T.get("Unsigned"), W, None),
        ("Signed is closed under appending word characters", T.get("Signed"), W, None),
        ("Reg is closed under appending digits", T.get("Reg"), A("[0-9]+"), None),
        ("Reg followed by word characters is a Reg or an identifier", T.get("Reg"), W, (T.get("Reg") or []) + (T.get("Ident") or [])),
        ("Ident is closed under appending word characters", T.get("Ident"), W, None),
    ]
    for name, pats, cls, within in closures:
        ok, w = relang.closed_under_append(pats, cls, within) if pats else (False, "pattern missing")
        ck.ob("C05.1", "munch:" + name, ok, "%s%s" % (name, "" if ok else " - counterexample %r" % w), "src/parse/lex.rs")
    # ---------------------------------------------------------------- C05.2 regex -> validator wiring
    ents = [e for e in lexattrs.load(ctx.repo) if e["kind"] == "regex" and e["variant"] in ("Unsigned", "Signed", "Reg")]
    ck.floor("C05.2", "numeric token patterns", len(ents), 9)
    ret = {"lex_unsigned_dec": ("u16", "dec"), "lex_signed_dec": ("i16", "dec"), "lex_unsigned_hex": ("u16", "hex"), "lex_signed_hex": ("i16", "hex"), "lex_reg": ("u8", "reg")}
    vty = {"Unsigned": "u16", "Signed": "i16", "Reg": "u8"}
    for e in ents:
        first = relang.first_sets([e["atoms"]])
        is_hex = all(lo in (88, 120) and hi in (88, 120) for lo, hi in first)
        is_reg = all(lo in (82, 114) and hi in (82, 114) for lo, hi in first)
        cb = (e["callback"] or "").strip()
        kind = ret.get(cb)
        ok = kind is not None and kind[0] == vty[e["variant"]] and kind[1] == ("reg" if e["variant"] == "Reg" else "hex" if is_hex else "dec") and (e["variant"] != "Reg" or is_reg)
        # the callbacks slice off exactly one byte: the first character is always a single ASCII character
        one = lexattrs.first_is_one_ascii_byte(e["atoms"]) or e["variant"] != "Reg"
        ck.ob("C05.2", "wiring:%s:%s" % (e["variant"], e["pattern"]), ok and one, "pattern %r (first characters %s) of Token::%s is validated by %s -> %s" % (e["pattern"], first, e["variant"], cb, kind), "src/parse/lex.rs")
    # field types of the Token variants
    ta = {v["name"]: [f.get("ty") for f in v.get("fields", [])] for v in F.adts["parse::lex::Token"]["variants"]}
    ck.ob("C05.2", "token-payloads", ta.get("Unsigned") == ["u16"] and ta.get("Signed") == ["i16"] and ta.get("Reg") == ["u8"], "Token::Unsigned(u16), Signed(i16), Reg(u8): %s" % {k: ta.get(k) for k in vty}, "src/parse/lex.rs")
    # ---------------------------------------------------------------- C05.3 validators
    dec = "phi{else => Lexer::slice(arg1) | starts_with(Lexer::slice(arg1), 35) in [1,1] => index(Lexer::slice(arg1), RangeFrom(1))}"
    hexs = "strip_prefix(Lexer::slice(arg1), array(88, 120))"
    forms = [
        ("parse::lex::lex_unsigned_dec", "Result::map_err(parse_u16(%s), %s[convert_int_error(ParseIntError::kind(arg2), LexErr::InvalidNumeric(), LexErr::InvalidDecEmpty(), LexErr::DoesNotFitU16(), @entry{local2})](%s))" % (dec, L, dec),
         "unsigned decimal: one optional leading '#' removed, then str::parse::<u16>"),
        ("parse::lex::lex_signed_dec", "Result::map_err(parse_i16(%s), %s[convert_int_error(ParseIntError::kind(arg2), LexErr::InvalidNumeric(), LexErr::InvalidDecEmpty(), LexErr::DoesNotFitI16(), @entry{local2})](%s))" % (dec, L, dec),
         "signed decimal: one optional leading '#' removed, then str::parse::<i16>"),
        ("parse::lex::lex_unsigned_hex", "[discr(%s) in [1,1]] => Result::map_err(u16_from_str_radix(%s as Some.0, 16), %s[convert_int_error(ParseIntError::kind(arg2), LexErr::InvalidHex(), LexErr::InvalidHexEmpty(), LexErr::DoesNotFitU16(), @entry{%s as Some.0})](%s as Some.0))" % (hexs, hexs, L, hexs, hexs),
         "unsigned hex: the X/x prefix removed, then u16::from_str_radix(_, 16)"),
        ("parse::lex::lex_signed_hex", "[discr(%s) in [1,1]] => Result::map_err(i16_from_str_radix(%s as Some.0, 16), %s[convert_int_error(ParseIntError::kind(arg2), LexErr::InvalidHex(), LexErr::InvalidHexEmpty(), LexErr::DoesNotFitI16(), @entry{%s as Some.0})](%s as Some.0))" % (hexs, hexs, L, hexs, hexs),
         "signed hex: the X/x prefix removed, then i16::from_str_radix(_, 16)"),
        ("parse::lex::lex_reg", "Option::ok_or(Option::filter(Result::ok(parse_u8(index(Lexer::slice(arg1), RangeFrom(1)))), %s[Lt(arg2, 8)]()), LexErr::InvalidReg())" % L,
         "register: the digits after R parsed as u8 and accepted exactly when < 8"),
        ("<ast::Reg as std::convert::TryFrom<u8>>::try_from", " ; ".join("[arg1 in [%d,%d]] => Result::Ok(Reg::R%d())" % (i, i, i) for i in range(8)) + " ; [arg1 in [8,255]] => Result::map(try_into_u8(256), %s[]())" % L,
         "register numbers 0..7 map to R0..R7, everything else is an error"),
        ("ast::Reg::reg_no", "(discr(arg1) as u8)", "a register's number is its variant index"),
    ]
    # equivalent spellings (each read and confirmed to compute the same function): `strip_prefix('#').unwrap_or(s)` for the
    # optional '#', and an explicit match for the ok/filter/ok_or chain of lex_reg
    dec2 = "Option::unwrap_or(strip_prefix(Lexer::slice(arg1), 35), Lexer::slice(arg1))"
    P8 = "parse_u8(index(Lexer::slice(arg1), RangeFrom(1)))"
    alts = {
        "parse::lex::lex_unsigned_dec": ["Result::map_err(parse_u16(%s), %s[convert_int_error(ParseIntError::kind(arg2), LexErr::InvalidNumeric(), LexErr::InvalidDecEmpty(), LexErr::DoesNotFitU16(), @entry{%s})](%s))" % (dec2, L, dec2, dec2)],
        "parse::lex::lex_signed_dec": ["Result::map_err(parse_i16(%s), %s[convert_int_error(ParseIntError::kind(arg2), LexErr::InvalidNumeric(), LexErr::InvalidDecEmpty(), LexErr::DoesNotFitI16(), @entry{%s})](%s))" % (dec2, L, dec2, dec2)],
        "parse::lex::lex_reg": ["Result::Err(LexErr::InvalidReg()) ; [8 in [1,None] & discr(%s) in [0,0] & %s as Ok.0 in [None,7]] => Result::Ok(%s as Ok.0)" % (P8, P8, P8)],
    }
    for path, want, what in forms:
        nf.expect_deep(ck, F, "C05.3", path.split("::")[-1] if not path.startswith("<") else "Reg::try_from", path, [want] + alts.get(path, []), what, file="src/parse/lex.rs" if "lex" in path else "src/ast.rs", norm=nf.anon_locals)
    regs = parsex.variants(F, "ast::Reg")
    ck.ob("C05.3", "Reg-variants", regs == ["R%d" % i for i in range(8)], "Reg variants in numeric order: %s" % regs, "src/ast.rs")
    # ---------------------------------------------------------------- C05.4 field widths and signedness
    OT = G["operand_types"]
    flds = parsex.fields_of(F, parsex.ASM)
    dfl = parsex.fields_of(F, parsex.DIRECTIVE)
    for m, spec in sorted(G["mnemonics"].items()):
        v = spec["variant"]
        want = (["u8"] if "mask" in spec else []) + [OT[o.rstrip("?")] for o in spec["operands"]]
        ck.ob("C05.4", "width:" + m, flds.get(v) == want, "%s -> %s%s (grammar: %s)" % (m, v, flds.get(v), want), "src/ast/asm.rs", nontrivial=(m == v))
    for d, spec in sorted(G["directives"].items()):
        v = spec["variant"]
        want = [OT[o] for o in spec["operands"]]
        ck.ob("C05.4", "width:." + d, dfl.get(v) == want, ".%s -> %s%s (grammar: %s)" % (d.lower(), v, dfl.get(v), want), "src/ast/asm.rs")
    ck.floor("C05.4", "variants with typed operands", len(flds) + len(dfl), 31)
    # ---------------------------------------------------------------- C05.5 conversions from tokens into fields
    u, s_ = ti["Unsigned"], ti["Signed"]
    conv = lambda t, err: ("Result::map_err(Offset::new(phi{discr(arg1) in [0,0] => arg1 as Left.0 | discr(arg1) in [1,1] & ok(Result::map_err(try_into_%s(arg1 as Right.0), %s[ParseErr::wrap(LexErr::%s(), clone(@entry{arg2}))](arg2))) => "
                           "try(Result::map_err(try_into_%s(arg1 as Right.0), %s[ParseErr::wrap(LexErr::%s(), clone(@entry{arg2}))](arg2)))}), %s[ParseErr::wrap(arg2, @entry{arg2})](arg2)) ; "
                           "[discr(arg1) in [1,1] & fail(Result::map_err(try_into_%s(arg1 as Right.0), %s[ParseErr::wrap(LexErr::%s(), clone(@entry{arg2}))](arg2)))] => "
                           "propagate(Result::map_err(try_into_%s(arg1 as Right.0), %s[ParseErr::wrap(LexErr::%s(), clone(@entry{arg2}))](arg2)))") % (t, L, err, t, L, err, L, t, L, err, t, L, err)
    forms = [
        ("<ast::Offset<i16, N> as parse::simple::TokenParse>::match_",
         "Result::Err(ParseErr::new(str'expected immediate value', clone(arg2))) ; [discr(arg1 as Some.0) in [%d,%d] & discr(arg1) in [1,1]] => Result::Ok(Either::Right(arg1 as Some.0 as Unsigned.0)) ; [discr(arg1 as Some.0) in [%d,%d] & discr(arg1) in [1,1]] => Result::Ok(Either::Left(arg1 as Some.0 as Signed.0))" % (u, u, s_, s_),
         "a signed field takes a Signed token as is (Left) and an Unsigned token for conversion (Right)"),
        ("<ast::Offset<i16, N> as parse::simple::TokenParse>::convert", conv("i16", "DoesNotFitI16"), "signed field: an unsigned literal goes through i16::try_from (DoesNotFitI16 on failure), then Offset::new checks the N bits"),
        ("<ast::Offset<u16, N> as parse::simple::TokenParse>::match_",
         "Result::Err(ParseErr::new(str'expected immediate value', clone(arg2))) ; [discr(arg1 as Some.0) in [%d,%d] & discr(arg1) in [1,1]] => Result::Ok(Either::Left(arg1 as Some.0 as Unsigned.0)) ; [discr(arg1 as Some.0) in [%d,%d] & discr(arg1) in [1,1]] => Result::Ok(Either::Right(arg1 as Some.0 as Signed.0))" % (u, u, s_, s_),
         "an unsigned field takes an Unsigned token as is (Left) and a Signed token for conversion (Right)"),
        ("<ast::Offset<u16, N> as parse::simple::TokenParse>::convert", conv("u16", "DoesNotFitU16"), "unsigned field: a signed literal goes through u16::try_from (DoesNotFitU16 on failure), then Offset::new checks the N bits"),
        ("<ast::PCOffset<OFF, N> as parse::Parse>::parse",
         "[discr(try(Parser::match_(arg1)) as Some.0) in [0,0] & discr(try(Parser::match_(arg1))) in [1,1] & ok(Parser::match_(arg1))] => Result::Ok(PCOffset::Offset(try(Parser::match_(arg1)) as Some.0 as Left.0)) ; [discr(try(Parser::match_(arg1)) as Some.0) in [1,1] & discr(try(Parser::match_(arg1))) in [1,1] & ok(Parser::match_(arg1))] => Result::Ok(PCOffset::Label(try(Parser::match_(arg1)) as Some.0 as Right.0)) ; [discr(try(Parser::match_(arg1))) in [0,0] & ok(Parser::match_(arg1))] => Result::Err(ParseErr::new(str'expected offset or label', Parser::cursor(arg1))) ; [fail(Parser::match_(arg1))] => propagate(Parser::match_(arg1))",
         "a PC offset operand is an offset literal of the field's type or a label"),
        ("<ast::ImmOrReg<N> as parse::Parse>::parse",
         "[discr(try(Parser::match_(arg1)) as Some.0) in [0,0] & discr(try(Parser::match_(arg1))) in [1,1] & ok(Parser::match_(arg1))] => Result::Ok(ImmOrReg::Imm(try(Parser::match_(arg1)) as Some.0 as Left.0)) ; [discr(try(Parser::match_(arg1)) as Some.0) in [1,1] & discr(try(Parser::match_(arg1))) in [1,1] & ok(Parser::match_(arg1))] => Result::Ok(ImmOrReg::Reg(try(Parser::match_(arg1)) as Some.0 as Right.0)) ; [discr(try(Parser::match_(arg1))) in [0,0] & ok(Parser::match_(arg1))] => Result::Err(ParseErr::new(str'expected register or immediate value', Parser::cursor(arg1))) ; [fail(Parser::match_(arg1))] => propagate(Parser::match_(arg1))",
         "an imm5-or-register operand is an immediate of the field's type or a register"),
    ]
    # the explicit-match spelling of `try_from(n).map_err(..)?` (same value, same error)
    conv2 = lambda t, err: ("Result::map_err(Offset::new(phi{discr(arg1) in [0,0] => arg1 as Left.0 | discr(arg1) in [1,1] & discr(try_into_%s(arg1 as Right.0)) in [0,0] => try_into_%s(arg1 as Right.0) as Ok.0}), %s[ParseErr::wrap(arg2, @entry{arg2})](arg2)) ; "
                            "[discr(arg1) in [1,1] & discr(try_into_%s(arg1 as Right.0)) in [1,1]] => Result::Err(ParseErr::wrap(LexErr::%s(), arg2))") % (t, t, L, t, err)
    alts5 = {"<ast::Offset<i16, N> as parse::simple::TokenParse>::convert": [conv2("i16", "DoesNotFitI16")], "<ast::Offset<u16, N> as parse::simple::TokenParse>::convert": [conv2("u16", "DoesNotFitU16")]}
    for path, want, what in forms:
        nf.expect_deep(ck, F, "C05.5", path.split(" as ")[0].lstrip("<") + ("::" + path.rsplit("::", 1)[1]), path, [want] + alts5.get(path, []), what, file="src/parse.rs")
    # the generic arguments of the two match_ calls above (which Either is matched)
    for path, want in (("<ast::PCOffset<OFF, N> as parse::Parse>::parse", "parse::simple::Either<ast::Offset<OFF, N>, ast::Label>"), ("<ast::ImmOrReg<N> as parse::Parse>::parse", "parse::simple::Either<ast::Offset<i16, N>, ast::Reg>")):
        b = F.bodies.get(path)
        if b is not None:
            ga = [re.sub(r"/#\d+", "", parsex.norm_ty(t["func"].get("fn_args", ""))) for bi, t, c, _ in b.calls() if (c or "").endswith("Parser::match_")]
            ck.ob("C05.5", "match-type:" + path.split(" as ")[0].lstrip("<"), ga == [want], "Parser::match_::<%s>" % ga, "src/parse.rs:%s" % b.line)
    rm = F.bodies.get("<ast::Reg as parse::simple::DirectTokenParse>::match_")
    if ck.anchor("C05.5", "Reg::match_", rm):
        got = nf.deep(F, rm.path)
        ok = got.startswith("Result::Err(ParseErr::new(str'expected register', arg2)) ; [discr(arg1 as Some.0) in [%d,%d] & discr(arg1) in [1,1]] => Result::map_err(try_from(arg1 as Some.0 as Reg.0), " % (ti["Reg"], ti["Reg"]))
        tf = [c for bi, t, c, _ in rm.calls() if shape.short_callee(c) == "try_from"]
        ck.ob("C05.5", "Reg::match_", ok and tf == ["<ast::Reg as std::convert::TryFrom<u8>>::try_from"], "a register operand is a Reg token converted by Reg::try_from: %s" % got[:150], "src/parse.rs:%s" % rm.line)
    # .blkw non-zero
    db = F.bodies.get("<%s as parse::Parse>::parse" % parsex.DIRECTIVE)
    if ck.anchor("C05.5", "Parse for Directive", db):
        aggs = [(bi, s) for bi, si, s in db.stmts() if s["k"] == "assign" and s["rv"]["k"] == "agg" and s["rv"].get("adt") == parsex.DIRECTIVE and s["rv"]["variant"] == "Blkw"]
        ok = False
        combos = None
        if len(aggs) == 1:
            pcs = nf.path_conditions(db, aggs[0][0], lambda x: x.startswith(("Ne(0, Offset::get(", "Eq(0, Offset::get(")))
            combos = sorted(sorted(pc) for pc in (pcs or []))
            ok = len(combos) == 1 and len(combos[0]) == 1 and combos[0][0][1] == "0" and combos[0][0][0].startswith("Eq(0, Offset::get(try(Parser::parse(arg1))")
        ck.ob("C05.5", "blkw-nonzero", ok, ".blkw is built only on the edge size != 0 (positive form: the 0 edge of Eq(0, size)): %s" % combos, "src/parse.rs:%s" % db.line)
    nf.expect_deep(ck, F, "C05.5", "IntLiteral", "<parse::simple::IntLiteral as parse::simple::DirectTokenParse>::match_",
                   ["Result::Err(ParseErr::new(str'expected immediate value', clone(arg2))) ; [discr(arg1 as Some.0) in [%d,%d] & discr(arg1) in [1,1]] => Result::Ok(IntLiteral(arg1 as Some.0 as Unsigned.0)) ; "
                    "[discr(arg1 as Some.0) in [%d,%d] & discr(arg1) in [1,1]] => Result::Ok(IntLiteral((arg1 as Some.0 as Signed.0 as u16)))" % (u, u, s_, s_)],
                   ".fill accepts either signedness and keeps the 16-bit pattern", file="src/parse.rs")
    ck.include("C03", ctx, "C05.6", {"C03.1", "C03.2"}, "a value reaches its field only through the arm of its mnemonic: operand kinds per mnemonic, NOP's optional operand look-ahead")
    ck.assume("str::parse::<u16|i16|u8> and {u16,i16}::from_str_radix accept exactly the canonical digit strings in range (std; a leading '+' cannot occur because no token pattern admits it)")
    ck.assume("Offset::new accepts exactly the values representable in N bits of its signedness: C35")
    ck.assume("logos picks Reg over Ident for R followed by digits and the numeric kinds over Ident (priority/longest match, pinned by the crate's lexer tests)")
