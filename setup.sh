#!/bin/bash
# MANIFEST.setup_cmd: builds the analysis tools offline from files on disk.
set -e
cd "$(dirname "$0")"
export CARGO_NET_OFFLINE=true
(cd tools/mirfacts && cargo build --offline 2>&1 | tail -2)
if [ -d tools/astdump ]; then (cd tools/astdump && cargo build --offline 2>&1 | tail -2); fi
python3 tools/gen_panicky.py
mkdir -p evidence replay .cache
echo "setup done"
